"""Search for inputs on which the parsing code does not return promptly
(C06: "no input whatsoever makes the parsing code raise, hang, or consume
without bound").

The acceptance gates are regular expressions run by CPython's backtracking
engine: a pattern can keep its language (so every language-level proof and
every accept/reject correspondence still passes) and yet take exponential
time on a failing input.  This search pumps each structural position of
each call site with repeated atoms followed by a failing suffix and measures
the time the REAL call site takes.  It runs in a child process because a
running regex match holds the GIL and cannot be interrupted from a thread.

    python -m harness.hang_search            (child: prints one JSON line per slow case)
"""
import json
import os
import subprocess
import sys
import time

PER_INPUT_BUDGET = 0.5      # CPU seconds (thread time): polynomial behaviour on <= 4 KiB is far below
SIZES = (26, 30, 34, 200, 4000)


def _cases():
    out = []
    # (site, prefix list, pump atoms, failing suffixes)
    sites = [
        ("chunk-line", [b"5", b"5;a", b"5;a=", b'5;a="', b'5;a="\\'],
         [b"a", b"\\a", b" ", b"\t", b";a", b"=", b'"', b"a=", b";a=a", b';a=""'],
         [b"", b"\x00", b'"x', b"\n", b";"]),
        ("header-line", [b"X", b"X:", b"X: ", b"X:a"],
         [b"a", b" ", b"\t", b" a", b"a \t", b"\t "],
         [b"", b"\x00", b"\x7f", b" \x00"]),
        ("request-line", [b"GET ", b"GET http://", b"GET a://b", b"GET /"],
         [b"a", b"/", b":", b"1", b"a:", b"://", b"a/"],
         [b"", b" ", b" HTTP/1", b" HTTP/1.1x", b" x"]),
        ("content-length", [b"", b"1"], [b"0", b"9"], [b"", b"x", b" 1"]),
        ("quoted-string", [b'"', b'"\\'], [b"a", b"\\a", b" ", b"\\\\"], [b"", b"\x00", b"\\"]),
    ]
    # accumulate-and-rescan: an unterminated chunk-size line / trailer delivered in many reads (the carry
    # is concatenated and searched again on every read); a few large sizes, fed in READ_SIZE pieces
    for pre in (b"5;", b"0\r\nX: "):
        out.append(("chunked-reads", pre + b"a" * (1 << 21)))
    for site, prefixes, pumps, suffixes in sites:
        for pre in prefixes:
            for pump in pumps:
                for suf in suffixes:
                    for n in SIZES:
                        out.append((site, pre + pump * n + suf))
    return out


GROWTH_MIN = 0.03           # only inputs that take at least this long are examined for their growth
GROWTH_RATIO = 3.0          # time(n) / time(n/2): 2 is linear, 4 quadratic


def _half(data):
    """the same input with half as many repetitions of its pumped middle, when it has one:
    prefix + atom * n + suffix  ->  prefix + atom * (n // 2) + suffix (atoms of 1..6 bytes)"""
    for plen in range(0, 12):
        for alen in range(1, 7):
            atom = data[plen:plen + alen]
            if len(atom) < alen:
                continue
            n = 0
            while data[plen + n * alen:plen + (n + 1) * alen] == atom:
                n += 1
            if n >= SIZES[-1]:
                return data[:plen] + atom * (n // 2) + data[plen + n * alen:]
    return None


READ_SIZE = 4096


def _run_site(site, data):
    if site == "chunked-reads":
        from waitress.buffers import OverflowableBuffer
        from waitress.receiver import ChunkedReceiver
        r = ChunkedReceiver(OverflowableBuffer(1 << 20))
        for i in range(0, len(data), READ_SIZE):
            r.received(data[i:i + READ_SIZE])
    elif site == "chunk-line":
        from waitress.buffers import OverflowableBuffer
        from waitress.receiver import ChunkedReceiver
        r = ChunkedReceiver(OverflowableBuffer(1 << 20))
        r.received(data + b"\r\n")
    elif site == "header-line":
        _head(b"GET / HTTP/1.1\r\n" + data + b"\r\n\r\n")
    elif site == "request-line":
        _head(data + b"\r\n\r\n")
    elif site == "content-length":
        _head(b"GET / HTTP/1.1\r\nContent-Length:" + data + b"\r\n\r\n")
    elif site == "quoted-string":
        from waitress.utilities import undquote
        try:
            undquote(data.decode("latin-1"))
        except ValueError:
            pass


_ADJ = None


def _head(wire):
    global _ADJ
    from waitress.parser import HTTPRequestParser
    if _ADJ is None:
        from waitress.adjustments import Adjustments
        _ADJ = Adjustments()
    p = HTTPRequestParser(_ADJ)
    try:
        p.received(wire)
    except Exception:
        pass   # escapes are reported by the other searches


def _cpu(site, data):
    """CPU seconds (of this thread: not wall time, so that a loaded machine does
    not produce a verdict) the real call site takes on data"""
    t0 = time.thread_time()
    _run_site(site, data)
    return time.thread_time() - t0


def child(only=None):
    cases = _cases() if only is None else [only]
    for site, data in cases:
        print(json.dumps({"start": [site, data.hex() if len(data) <= 65536 else "big:%d:%s" % (len(data), data[:16].hex())]}), flush=True)
        dt = _cpu(site, data)
        if dt > PER_INPUT_BUDGET:
            # confirm: the minimum of three more measurements must exceed the budget too
            dt = min([dt] + [_cpu(site, data) for _ in range(3)])
        if dt > PER_INPUT_BUDGET:
            print(json.dumps({"slow": [site, data.hex() if len(data) <= 65536 else data[:64].hex() + "..x%d" % len(data), round(dt, 3)]}), flush=True)
        elif dt > GROWTH_MIN and len(data) >= SIZES[-1]:
            # below the absolute budget at this size, but does the time grow faster than linearly?
            # (a quadratic match of 0.3 s at 8 KiB is minutes at the default header limit)
            half = _half(data)
            if half is not None:
                d_full = min([dt] + [_cpu(site, data) for _ in range(2)])
                d_half = max([_cpu(site, half) for _ in range(3)])
                if d_full > GROWTH_MIN and d_full > GROWTH_RATIO * max(d_half, 1e-4):
                    print(json.dumps({"slow": [site, data.hex() if len(data) <= 65536 else data[:64].hex() + "..x%d" % len(data), round(d_full, 3)]}), flush=True)
    print(json.dumps({"done": len(cases)}), flush=True)


def search(total_timeout=90):
    """-> (n_cases, slow_cases, hung_case_or_None)"""
    env = dict(os.environ)
    try:
        p = subprocess.run([sys.executable, "-m", "harness.hang_search"], stdout=subprocess.PIPE,
                           stderr=subprocess.PIPE, timeout=total_timeout, text=True, env=env,
                           cwd=os.path.dirname(os.path.dirname(os.path.abspath(__file__))))
        lines = p.stdout.splitlines()
        hung = None
    except subprocess.TimeoutExpired as ex:
        out = ex.stdout or b""
        if isinstance(out, bytes):
            out = out.decode("latin-1")
        lines = out.splitlines()
        hung = "timeout"
    slow = []
    last = None
    n = 0
    for l in lines:
        try:
            d = json.loads(l)
        except ValueError:
            continue
        if "slow" in d:
            slow.append(d["slow"])
        elif "start" in d:
            last = d["start"]
            n += 1
        elif "done" in d:
            last = None
    if hung:
        # the whole sweep ran out of wall time (a loaded machine, or a genuinely
        # hanging input): decide on the case that was running, alone, with a
        # generous wall limit; it is a hang only if that single input does not
        # return (a slow return is classified by its CPU time as above)
        hung = None
        if last is not None:
            try:
                p = subprocess.run([sys.executable, "-m", "harness.hang_search", last[0], last[1]],
                                   stdout=subprocess.PIPE, stderr=subprocess.PIPE, timeout=60, text=True, env=env,
                                   cwd=os.path.dirname(os.path.dirname(os.path.abspath(__file__))))
                for l in p.stdout.splitlines():
                    try:
                        d = json.loads(l)
                    except ValueError:
                        continue
                    if "slow" in d:
                        slow.append(d["slow"])
            except subprocess.TimeoutExpired:
                hung = last
            if hung is None and not slow:
                # the interrupted sweep is resumed once with a much larger limit
                if total_timeout < 1200:
                    return search(total_timeout=1800)
                hung = last
    return n, slow, hung


if __name__ == "__main__":
    if len(sys.argv) == 3:
        child((sys.argv[1], bytes.fromhex(sys.argv[2])))
    else:
        child()
