"""A deterministic scheduler for real, unmodified multi-threaded Python code.

Logical threads are real Python threads that pass a baton: exactly one logical
thread runs at any time, all the others are blocked on their own semaphore.
At every *labelled operation* (whatever the fakes built on top of this module
decide to label: lock acquire/release, condition wait/notify, thread start,
calls into instrumented objects, ...) the running thread calls
`Scheduler.yield_(Op(...))` *before* it performs the operation.  Control goes
back to the controller (the thread that called `Scheduler.run`), which computes
the set of enabled logical threads (those whose pending operation can be
performed now), sorts it by thread id (creation order, hence deterministic) and
takes the next integer of the schedule as an index into that sorted list.  The
chosen thread is resumed, performs its pending operation and runs on to its next
labelled operation.  Code between two labelled operations therefore executes
atomically; this is adequate when such code touches only thread-local data or
data protected by a lock whose operations are labelled.

A schedule is a list of integers.  Integers beyond the end of the list come
from the policy (default: keep running the thread that ran last while it is
enabled, otherwise the enabled thread with the smallest id).  An index that is
out of range is reduced modulo the number of enabled threads.  The indices that
were actually used are recorded in `Scheduler.choices`: passing them back as the
schedule replays the run exactly (same trace).

The run ends when no logical thread is enabled: either all have finished, or
the remaining ones are blocked (quiescence / deadlock); `Scheduler.blocked()`
lists them with their pending operation.  `Scheduler.kill()` then unwinds every
remaining thread by raising `ThreadKilled` (a BaseException) at its yield
point and joins it, so that no thread survives a case.

Nothing in this module knows about waitress.  fake_threading.py builds the
`threading` / `time` look-alikes on it; harness/dispatcher.py is the first user.
"""
import threading as _rt


class ThreadKilled(BaseException):
    """Raised inside a logical thread when the case is being torn down."""


class HarnessError(Exception):
    pass


class Op:
    """A pending labelled operation.  kind: short string; detail: JSON-able
    description used in traces (or a callable producing it when the operation is
    scheduled); enabled: () -> bool, evaluated by the controller
    while no logical thread runs; preemptible: may the explorer switch away from
    the thread at this point although it could continue."""
    __slots__ = ("kind", "detail", "enabled", "preemptible", "obj")

    def __init__(self, kind, detail=None, enabled=None, preemptible=True, obj=None):
        self.kind = kind
        self.detail = detail
        self.enabled = enabled
        self.preemptible = preemptible
        self.obj = obj

    def is_enabled(self):
        return True if self.enabled is None else bool(self.enabled())


class LThread:
    def __init__(self, sched, tid, name, fn, args):
        self.sched = sched
        self.tid = tid
        self.name = name
        self.fn = fn
        self.args = args
        self.go = _rt.Semaphore(0)
        self.pending = Op("begin", preemptible=False)
        self.done = False
        self.error = None
        self.real = _rt.Thread(target=self._main, name="lt-%s" % name, daemon=True)
        self.local = {}

    def _main(self):
        self.go.acquire()
        try:
            if not self.sched.killing:
                self.fn(*self.args)
        except ThreadKilled:
            pass
        except BaseException as e:  # an escaping exception ends the logical thread
            if not self.sched.killing:
                self.error = e
                self.sched.events.append((self.name, "crash", type(e).__name__ + ": " + str(e)))
        finally:
            self.done = True
            self.pending = None
            if not self.sched.killing:
                self.sched.events.append((self.name, "end", None))
            self.sched.back.release()

    def __repr__(self):
        return "<LThread %d %s>" % (self.tid, self.name)


class Decision:
    """One scheduling decision, kept for exploration."""
    __slots__ = ("n_enabled", "chosen", "cont", "kind", "preemptible")

    def __init__(self, n_enabled, chosen, cont, kind, preemptible):
        self.n_enabled = n_enabled    # size of the enabled set
        self.chosen = chosen          # index taken
        self.cont = cont              # index of the thread that ran last, if it is enabled (else None)
        self.kind = kind              # kind of the pending op of that thread
        self.preemptible = preemptible


def default_policy(sched, enabled, cont):
    return cont if cont is not None else 0


class RandomPolicy:
    """Uniformly random choice at every decision, from the given random.Random."""

    def __init__(self, rng, stay=0.0):
        self.rng = rng
        self.stay = stay

    def __call__(self, sched, enabled, cont):
        if cont is not None and self.stay and self.rng.random() < self.stay:
            return cont
        return self.rng.randrange(len(enabled))


class PCTPolicy:
    """Priority-based schedules with d forced pre-emptions (Burckhardt et al.,
    PCT): every thread gets a distinct random priority when it is first seen,
    the enabled thread of highest priority runs; at d step numbers chosen at
    random in [0, est_steps) the priority of the thread that is running drops
    below everything handed out so far."""

    def __init__(self, rng, depth, est_steps):
        self.rng = rng
        self.prio = {}
        self.low = 0
        self.change = set(rng.randrange(max(1, est_steps)) for _ in range(depth))

    def __call__(self, sched, enabled, cont):
        for t in enabled:
            if t.tid not in self.prio:
                self.prio[t.tid] = self.rng.random() + 1.0
        best = max(range(len(enabled)), key=lambda i: self.prio[enabled[i].tid])
        if sched.step_no in self.change:
            self.low -= 1
            self.prio[enabled[best].tid] = self.low
            best = max(range(len(enabled)), key=lambda i: self.prio[enabled[i].tid])
        return best


class Scheduler:
    def __init__(self, schedule=(), policy=None, max_steps=20000, observer=None):
        self.schedule = list(schedule)
        self.policy = policy or default_policy
        self.max_steps = max_steps
        self.threads = []
        self.current = None
        self.last = None
        self.back = _rt.Semaphore(0)
        self.killing = False
        self.choices = []       # indices actually used
        self.decisions = []     # Decision objects, parallel to choices
        self.events = []        # (thread name, kind, detail): the trace
        self.step_no = 0
        self.clock = 1000.0     # fake time, advanced only by fakes (timeouts)
        self.observer = observer  # observer(sched, lthread, op) is called before each resume;
        self.snaps = {}           # its result is kept here under the index of the event in self.events
        self.overrun = False
        self.stall_timeout = 30.0  # real seconds a thread may run between two labelled operations

    # -- called by logical threads ------------------------------------------
    def me(self):
        return self.current

    def yield_(self, op):
        """Announce the next labelled operation and give the baton back."""
        if self.killing:
            raise ThreadKilled()
        t = self.current
        if t is None or _rt.current_thread() is not t.real:
            raise HarnessError("yield_ called from a thread that does not hold the baton")
        t.pending = op
        self.back.release()
        t.go.acquire()
        if self.killing:
            raise ThreadKilled()

    def note(self, kind, detail=None):
        """Record an event without yielding."""
        if not self.killing:
            self.events.append((self.current.name if self.current else "-", kind, detail))

    # -- thread creation ------------------------------------------------------
    def spawn(self, name, fn, args=()):
        t = LThread(self, len(self.threads), name, fn, args)
        self.threads.append(t)
        t.real.start()
        return t

    # -- controller --------------------------------------------------------------
    def enabled(self):
        return [t for t in self.threads if not t.done and t.pending is not None and t.pending.is_enabled()]

    def blocked(self):
        return [(t.name, t.pending.kind,
                 t.pending.detail() if callable(t.pending.detail) else t.pending.detail)
                for t in self.threads if not t.done and t.pending is not None]

    def _resume(self, t):
        self.current = t
        t.go.release()
        if not self.back.acquire(timeout=self.stall_timeout):
            # the thread neither reached a labelled operation nor finished: it spins or
            # blocks on something the fakes do not control.  It cannot be killed (it is a
            # daemon thread and dies with the process); report instead of hanging.
            raise HarnessError("logical thread %s did not reach a labelled operation within %ss"
                               % (t.name, self.stall_timeout))
        self.current = None

    def run(self):
        """Run until no logical thread is enabled.  Returns "finished" (all
        threads done), "blocked" or "overrun" (max_steps reached)."""
        while True:
            en = self.enabled()
            if not en:
                return "finished" if all(t.done for t in self.threads) else "blocked"
            if self.step_no >= self.max_steps:
                self.overrun = True
                return "overrun"
            cont = None
            if self.last is not None and self.last in en:
                cont = en.index(self.last)
            if self.step_no < len(self.schedule):
                idx = self.schedule[self.step_no] % len(en)
            else:
                idx = self.policy(self, en, cont) % len(en)
            t = en[idx]
            lastop = self.last.pending if cont is not None else None
            self.choices.append(idx)
            self.decisions.append(Decision(len(en), idx, cont,
                                           lastop.kind if lastop else None,
                                           lastop.preemptible if lastop else True))
            op = t.pending
            if self.observer is not None:
                self.snaps[len(self.events)] = self.observer(self, t, op)
            detail = op.detail() if callable(op.detail) else op.detail
            self.events.append((t.name, op.kind, detail))
            self.step_no += 1
            self.last = t
            self._resume(t)

    def kill(self):
        """Unwind and join every logical thread that has not finished."""
        self.killing = True
        for t in self.threads:
            if not t.done:
                self.current = t
                t.go.release()
                self.back.acquire()
                self.current = None
        for t in self.threads:
            t.real.join(5.0)
        alive = [t.name for t in self.threads if t.real.is_alive()]
        if alive:
            raise HarnessError("threads survived kill(): %r" % alive)


# -- bounded exhaustive exploration (iterative pre-emption bounding) --------------

def explore(run_case, max_preemptions, limit=None, on_run=None):
    """Stateless enumeration of schedules.  run_case(prefix) must build a fresh
    case, run it under Scheduler(schedule=prefix) with the default policy and
    return the Scheduler.  Every decision after the prefix is a branching
    point: taking another enabled thread costs one pre-emption if the thread
    that ran last is still enabled (and only operations marked preemptible may
    be pre-empted), nothing if it is blocked or finished.  Schedules are
    enumerated in order of their number of pre-emptions (0, 1, ...,
    max_preemptions), each exactly once.  on_run(sched, prefix, preemptions) is
    called after every run; a true result stops the exploration.  Returns a
    dict with counts."""
    levels = [[] for _ in range(max_preemptions + 1)]
    levels[0].append(([], 0))
    runs = 0
    per_level = [0] * (max_preemptions + 1)
    truncated = False
    stopped = False
    for lvl in range(max_preemptions + 1):
        work = levels[lvl]
        while work:
            prefix, start = work.pop()
            if limit is not None and runs >= limit:
                truncated = True
                break
            s = run_case(prefix)
            runs += 1
            per_level[lvl] += 1
            if on_run is not None and on_run(s, prefix, lvl):
                stopped = True
                break
            ch = s.choices
            for i in range(start, len(ch)):
                d = s.decisions[i]
                if d.n_enabled <= 1:
                    continue
                cost = 0 if d.cont is None else 1
                if cost and not d.preemptible:
                    continue
                if lvl + cost > max_preemptions:
                    continue
                for j in range(d.n_enabled):
                    if j != d.chosen:
                        levels[lvl + cost].append((ch[:i] + [j], i + 1))
        if truncated or stopped:
            break
    return {"runs": runs, "per_preemption_level": per_level, "truncated": truncated, "stopped": stopped}
