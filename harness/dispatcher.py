"""K-pool: the REAL waitress.task.ThreadedTaskDispatcher under the deterministic
scheduler (harness/sched.py + harness/fake_threading.py), tied to the extracted
model coq/Model/Dispatcher.v.

A *scenario* is a JSON-able dict:

    {"setup": n | None,          # set_thread_count(n) run to quiescence before the scripts start
     "scripts": [{"name": "s0", "ops": [op, ...]}, ...]}
    op = ["add", task] | ["resize", n] | ["shutdown", cancel_pending, timeout]
    task = {"name": str, "follow": [task, ...], "raise": None | "exc" | "base"}

Each script is one logical thread calling the dispatcher's public methods.
Task bodies (service()) submit their follow-up tasks through add_task, as
connections do, and may raise.  service(), the end of service() and cancel()
are labelled operations.

run_scenario  executes a scenario under a schedule / policy on the real class
to_model      maps the observed critical sections to model choices (tokens of
              ocaml/dispatcher/driver.ml) with the abstract state the real
              object had at the end of each section
conformance   replays the tokens on the extracted model and compares
monitor       checks C14 directly on the real trace, without the model
audit         ast check of the lock discipline that justifies the model's
              granularity, and of the condition-variable calls per method
"""
import ast
import inspect
import json

from harness.sched import Scheduler, Op, RandomPolicy, PCTPolicy, explore
from harness.fake_threading import FakeThreading, FakeTime, patched

SHARED = ("queue", "threads", "stop_count", "active_count")


class TaskBoom(Exception):
    pass


class TaskBaseBoom(BaseException):
    pass


class RecLogger:
    def __init__(self, sched, name):
        self.sched = sched
        self.name = name

    def _rec(self, level, msg, *args):
        try:
            text = msg % args if args else msg
        except Exception:
            text = repr((msg, args))
        self.sched.note("log", [self.name, level, text[:120]])

    def warning(self, msg, *a, **k):
        self._rec("warning", msg, *a)

    def exception(self, msg, *a, **k):
        self._rec("exception", msg, *a)

    error = info = debug = warning


class HTask:
    """What the dispatcher is given: service() / cancel(), as a channel."""

    def __init__(self, case, spec):
        self.case = case
        self.name = spec["name"]
        self.follow = spec.get("follow") or []
        self.raises = spec.get("raise")

    def service(self):
        s = self.case.sched
        s.yield_(Op("service", self.name))
        for f in self.follow:
            s.note("call", ["add_task", f["name"]])
            self.case.disp.add_task(HTask(self.case, f))
            s.note("ret", ["add_task", None])
        s.yield_(Op("finish", [self.name, bool(self.raises)]))
        if self.raises == "exc":
            raise TaskBoom(self.name)
        if self.raises == "base":
            raise TaskBaseBoom(self.name)

    def cancel(self):
        self.case.sched.yield_(Op("cancel", self.name, preemptible=False))

    def __repr__(self):
        return "<HTask %s>" % self.name


class Case:
    """One execution of a scenario on the real class."""

    def __init__(self, scn, schedule=(), policy=None, max_steps=5000):
        self.scn = scn
        self.sched = Scheduler(schedule, policy, max_steps=max_steps, observer=self._observe)
        self.ft = FakeThreading(self.sched)
        self.disp = None
        self.result = None
        self.blocked = []
        self.final = None

    # abstract state of the real object + what the fakes know about the threads
    def snap(self):
        d = self.disp
        live = []
        parked = []
        for ft in self.ft.started:
            if ft.is_alive():
                live.append(ft.name)
        for w in d.queue_cv.waiters:
            parked.append(w.thread.name)
        return {
            "q": [t.name for t in d.queue],
            "th": sorted(d.threads),
            "stop": d.stop_count,
            "act": d.active_count,
            "free": d.lock.owner is None,
            "live": sorted(live),
            "parked": sorted(parked),
        }

    def _observe(self, sched, t, op):
        return self.snap()

    def _script(self, ops):
        s = self.sched
        d = self.disp
        for op in ops:
            if op[0] == "add":
                s.note("call", ["add_task", op[1]["name"]])
                d.add_task(HTask(self, op[1]))
                s.note("ret", ["add_task", None])
            elif op[0] == "resize":
                s.note("call", ["set_thread_count", op[1]])
                d.set_thread_count(op[1])
                s.note("ret", ["set_thread_count", None])
            elif op[0] == "shutdown":
                s.note("call", ["shutdown", bool(op[1]), op[2]])
                r = d.shutdown(op[1], op[2])
                s.note("ret", ["shutdown", r])
            else:
                raise ValueError(op)

    def run(self):
        import waitress.task as wt

        s = self.sched
        with patched(wt, threading=self.ft, time=FakeTime(s)):
            try:
                d = self.disp = wt.ThreadedTaskDispatcher()
                d.logger = RecLogger(s, "logger")
                d.queue_logger = RecLogger(s, "queue_logger")
                d.lock.name = "lock"
                d.queue_cv.name = "queue_cv"
                d.thread_exit_cv.name = "thread_exit_cv"
                if self.scn.get("setup") is not None:
                    s.spawn("setup", self._script, ([["resize", self.scn["setup"]]],))
                    s.run()
                    s.note("setup-done")
                for sc in self.scn["scripts"]:
                    s.spawn(sc["name"], self._script, (sc["ops"],))
                self.result = s.run()
                self.blocked = s.blocked()
                self.final = self.snap()
            finally:
                s.kill()
        return self

    @property
    def events(self):
        return self.sched.events

    def trace_key(self):
        return json.dumps([self.sched.events, self.final, self.result], sort_keys=True, default=str)


def run_scenario(scn, schedule=(), policy=None, max_steps=5000):
    return Case(scn, schedule, policy, max_steps).run()


# ----------------------------------------------------------------------------
# scenarios


def gen_task(rng, name, depth):
    nf = 0
    if depth < 2 and rng.random() < (0.35 if depth == 0 else 0.2):
        nf = rng.choice([1, 1, 2])
    r = rng.random()
    return {"name": name,
            "follow": [gen_task(rng, "%s.%d" % (name, i), depth + 1) for i in range(nf)],
            "raise": "exc" if r < 0.15 else ("base" if r < 0.25 else None)}


def gen_scenario(rng, small=False):
    scn = {"setup": None, "scripts": []}
    n0 = rng.choice([1, 1, 2, 2, 3, 0])
    first = []
    if rng.random() < 0.5:
        scn["setup"] = n0
    else:
        first = [["resize", n0]]
    nsub = rng.randint(1, 2 if small else 3)
    for i in range(nsub):
        ops = list(first) if i == 0 else []
        for j in range(rng.randint(1, 2 if small else 3)):
            ops.append(["add", gen_task(rng, "%c%d" % (97 + i, j), 0)])
            if rng.random() < 0.2:
                ops.append(["resize", rng.randint(0, 3)])
        scn["scripts"].append({"name": "s%d" % i, "ops": ops})
    for i in range(rng.choice([0, 1, 1, 2])):
        ops = [["resize", rng.randint(0, 3)] for _ in range(rng.randint(1, 2))]
        scn["scripts"].append({"name": "r%d" % i, "ops": ops})
    if rng.random() < 0.7:
        ops = []
        if rng.random() < 0.3:
            ops.append(["add", gen_task(rng, "z0", 0)])
        ops.append(["shutdown", rng.random() < 0.6, rng.choice([0, 0.1, 0.25, 5, 5])])
        if rng.random() < 0.25:
            ops.append(["add", gen_task(rng, "z1", 0)])
        if rng.random() < 0.15:
            ops.append(["resize", rng.randint(1, 2)])
        scn["scripts"].append({"name": "sd", "ops": ops})
    return scn


def scenario_stats(scn):
    def count(t):
        return 1 + sum(count(f) for f in t["follow"])
    tasks = follow = raising = resizes = 0
    sd = None

    def walk(t, top):
        nonlocal tasks, follow, raising
        tasks += 1
        if not top:
            follow += 1
        if t["raise"]:
            raising += 1
        for f in t["follow"]:
            walk(f, False)
    for sc in scn["scripts"]:
        for op in sc["ops"]:
            if op[0] == "add":
                walk(op[1], True)
            elif op[0] == "resize":
                resizes += 1
            elif op[0] == "shutdown":
                sd = bool(op[1])
    return {"tasks": tasks, "follow_ups": follow, "raising": raising, "resizes": resizes,
            "shutdown": sd, "scripts": len(scn["scripts"]), "setup": scn.get("setup")}


# ----------------------------------------------------------------------------
# real trace -> model choices


def worker_no(name):
    if name.startswith("waitress-"):
        return int(name[len("waitress-"):])
    return None


class Mapping:
    """tokens[i] is a driver token; expect[i] = (abstract state dict | None,
    expected label atoms that must appear, event index)."""

    def __init__(self):
        self.tokens = []
        self.expect = []
        self.ids = {}          # task name -> model task id
        self.problems = []


def to_model(case):
    ev = case.sched.events
    snaps = case.sched.snaps
    m = Mapping()
    cur_call = {}     # thread -> [method, args...] while inside a dispatcher call
    nsec = {}         # thread -> number of sections completed in the current call
    sec = {}          # thread -> {"ops": [...], "start": snapshot, "left": bool}
    body = {}         # worker thread -> task name while inside service()
    pending_pop = {}  # worker thread -> index of its pop token, until its service event
    next_id = 0

    def emit(tok, snapshot, atoms, i):
        # steps taken outside the lock (finish, timeout) may be observed while
        # another thread is in the middle of its critical section: the shared
        # variables are compared only at section ends
        if tok[0] == "E" or atoms == ["sdto"]:
            if snapshot is not None and not snapshot["free"]:
                snapshot = None
        m.tokens.append(tok)
        m.expect.append((snapshot, atoms, i))

    def woken_tok(ops):
        for o in ops:
            if o[0] == "notify" and o[1] == "queue_cv":
                return str(worker_no(o[2][0])) if o[2] else "-"
        return None

    for i, (th, kind, det) in enumerate(ev):
        sn = snaps.get(i)
        w = worker_no(th)
        if kind == "call":
            if w is None:
                cur_call[th] = det
                nsec[th] = 0
            else:
                cur_call[th] = det
        elif kind == "ret":
            cur_call.pop(th, None)
        elif kind in ("acquire", "reacquire"):
            sec[th] = {"ops": [], "start": sn, "left": False}
        elif kind == "wake":
            if det[1] == "notified":
                sec[th] = {"ops": [], "start": sn, "left": False}
            else:
                # only the shutdown thread waits with a timeout
                emit("T0", sn, ["sdto"], i)
        elif kind in ("notify", "notify_all"):
            call = cur_call.get(th)
            if kind == "notify_all" and call and call[0] == "shutdown" and nsec.get(th, 0) >= 1 and not sec[th]["left"]:
                # end of the wait loop with nothing to cancel
                st = sec[th]["start"]
                emit("T%d" % (1 if st["th"] else 0), st, [], i)
                sec[th]["left"] = True
            sec[th]["ops"].append((kind, det[0], det[1]))
        elif kind == "thread_start":
            sec[th]["ops"].append(("start", det))
        elif kind == "cancel":
            if not sec[th]["left"]:
                st = sec[th]["start"]
                emit("T%d" % (1 if st["th"] else 0), st, [], i)
                sec[th]["left"] = True
            emit("T0", sn, ["cancel:%s" % det], i)
        elif kind == "service":
            body[th] = det
            if th in pending_pop:
                j = pending_pop.pop(th)
                m.expect[j][1].append("svc:%d:%s" % (w, det))
            else:
                m.problems.append("event %d: service(%s) on %s without a preceding pop section" % (i, det, th))
        elif kind == "finish":
            body.pop(th, None)
            emit("E%d:%d" % (w, 1 if det[1] else 0), sn, ["fin:%d:%s:%d" % (w, det[0], 1 if det[1] else 0)], i)
        elif kind in ("release", "wait"):
            s_ = sec.pop(th, {"ops": [], "start": None, "left": False})
            ops = s_["ops"]
            call = cur_call.get(th)
            if w is not None and th not in body:
                # a critical section of handler_thread
                if kind == "wait":
                    emit("W%d" % w, sn, ["park:%d" % w], i)
                elif any(o[0] == "notify" and o[1] == "thread_exit_cv" for o in ops):
                    atoms = ["exit:%d" % w]
                    for o in ops:
                        if o[0] == "notify" and o[1] == "thread_exit_cv":
                            atoms.append("nx" if o[2] else "!nx")
                    emit("W%d" % w, sn, atoms, i)
                else:
                    pending_pop[th] = len(m.tokens)
                    emit("W%d" % w, sn, ["pop:%d" % w], i)
            elif call and call[0] == "add_task":
                wk = woken_tok(ops)
                if wk is None:
                    m.problems.append("event %d: add_task section without queue_cv.notify" % i)
                    wk = "-"
                name = call[1]
                m.ids[name] = next_id
                atoms = ["sub:%s:%s" % ("-" if w is None else w, name)]
                if wk != "-":
                    atoms.append("nq:%s" % wk)
                next_id += 1
                emit(("S:%s" % wk) if w is None else ("F%d:%s" % (w, wk)), sn, atoms, i)
            elif call and call[0] == "set_thread_count":
                atoms = ["start:%d" % worker_no(o[1]) for o in ops if o[0] == "start"]
                for o in ops:
                    if o[0] == "notify_all":
                        atoms.append("nqa:" + (".".join(str(worker_no(x)) for x in o[2]) or "-"))
                emit("R%d" % call[1], sn, atoms, i)
            elif call and call[0] == "shutdown":
                k = nsec.get(th, 0)
                if k == 0:
                    atoms = ["sdcall:%d" % (1 if call[1] else 0)]
                    emit("D%d" % (1 if call[1] else 0), sn, atoms, i)
                elif kind == "wait":
                    emit("T0", sn, ["sdwait"], i)
                elif s_["left"]:
                    emit("T0", sn, ["sdret:1"], i)
                else:
                    emit("T%d" % (1 if sn["th"] else 0), sn, ["sdret:0"], i)
                nsec[th] = k + 1
            else:
                m.problems.append("event %d: critical section of %s outside any known call" % (i, th))
    return m


def parse_state(txt):
    d = {}
    for f in txt.split(";"):
        k, _, v = f.partition("=")
        d[k] = v
    return d


def ints(v):
    return [] if v == "-" else [int(x) for x in v.split(".")]


def compare(mapping, answer):
    """-> (ok, first problem text | None, steps compared)"""
    if mapping.problems:
        return False, mapping.problems[0], 0
    steps = answer.split("|") if answer else []
    if len(steps) != len(mapping.tokens):
        return False, "model answered %d steps for %d tokens" % (len(steps), len(mapping.tokens)), 0
    ids = mapping.ids
    rev = {v: k for k, v in ids.items()}
    n = 0
    for j, (tok, (sn, atoms, i), ans) in enumerate(zip(mapping.tokens, mapping.expect, steps)):
        if ans == "X":
            return False, "step %d (event %d): the model does not allow %s here" % (j, i, tok), n
        labs, _, st = ans.partition(";")
        d = parse_state(st)
        labs = labs.split(",")
        # labels: translate task ids to names
        have = set()
        for l in labs:
            p = l.split(":")
            if p[0] == "sub":
                have.add("sub:%s:%s" % (p[1], rev.get(int(p[2]), "?")))
            elif p[0] in ("pop", "svc"):
                have.add("%s:%s:%s" % (p[0], p[1], rev.get(int(p[2]), "?")))
                if p[0] == "pop":
                    have.add("pop:%s" % p[1])
            elif p[0] == "fin":
                have.add("fin:%s:%s:%s" % (p[1], rev.get(int(p[2]), "?"), p[3]))
            elif p[0] == "cancel":
                have.add("cancel:%s" % rev.get(int(p[1]), "?"))
            else:
                have.add(l)
        for a in atoms:
            if a == "!nx":
                if "nx" in have:
                    return False, "step %d (event %d) %s: model wakes the shutdown thread, the real notify woke nobody" % (j, i, tok), n
            elif a not in have:
                return False, "step %d (event %d) %s: real code did %s, model labels %s" % (j, i, tok, a, sorted(have)), n
        kinds = {a.split(":")[0] for a in atoms}
        for l in have:
            k = l.split(":")[0]
            if k in ("park", "exit", "pop", "start", "cancel", "sdret", "sdwait", "nq", "nqa", "sub") and k not in kinds \
                    and not (k == "nqa" and tok.startswith(("D", "T"))):
                return False, "step %d (event %d) %s: model did %s, real code did %s" % (j, i, tok, l, atoms), n
        if sn is not None:
            try:
                want_q = [ids[x] for x in sn["q"]]
            except KeyError as e:
                return False, "step %d: task %s in the real queue was never submitted" % (j, e), n
            real = (want_q, sn["th"], sn["stop"], sn["act"])
            model = (ints(d["q"]), sorted(ints(d["th"])), int(d["stop"]), int(d["act"]))
            if real != model:
                return False, "step %d (event %d) after %s: real (queue, threads, stop_count, active_count) = %r, model %r" % (j, i, tok, real, model), n
        if d.get("ok") != "1":
            return False, "step %d after %s: the model state violates the executable specification (Spec/Pool.v all_ok)" % (j, tok), n
        n += 1
    return True, None, n


def conformance(runner, cases):
    """cases: list of Case.  Returns list of (ok, problem, steps)."""
    maps = []
    for c in cases:
        try:
            maps.append(to_model(c))
        except Exception as e:  # a trace the mapping was not written for is a disagreement, not a crash
            m = Mapping()
            m.problems.append("the real trace cannot be mapped onto the model's critical sections (%s: %s)" % (type(e).__name__, e))
            maps.append(m)
    lines = ["run " + " ".join(m.tokens) if m.tokens and not m.problems else "run" for m in maps]
    answers = runner.query(lines) if lines else []
    return [compare(m, a) for m, a in zip(maps, answers)], maps


# ----------------------------------------------------------------------------
# the property, checked on the real trace


def monitor(case):
    """C14 on the real trace.  Returns (list of violation strings, stats)."""
    ev = case.sched.events
    snaps = case.sched.snaps
    bad = []
    submitted = []         # names in submission order (order of the add_task critical sections)
    svc = {}
    cnc = {}
    takes = []             # names in the order they left the queue (pop or cancel)
    cur_call = {}          # thread -> call detail
    nsec = {}              # thread -> critical sections completed inside the current call
    sec_start = {}         # thread -> snapshot at the start of its open critical section
    last_pop = {}          # worker -> task it popped and has not yet serviced
    sd_last_start = {}     # shutdown thread -> snapshot at the start of its last section
    st8 = {"in_shutdown": 0, "requested": 0, "quiescent": 0}

    def check_quiescent(sn, where):
        if not sn["free"] or st8["in_shutdown"]:
            return
        if sn["parked"] != sn["live"]:
            return
        st8["quiescent"] += 1
        if sn["q"] and sn["live"]:
            bad.append("%s: quiescent with queue %r while workers %r sleep on queue_cv (lost wake-up)" % (where, sn["q"], sn["live"]))
        if sn["stop"] != 0:
            bad.append("%s: quiescent with stop_count=%d" % (where, sn["stop"]))
        if len(sn["live"]) != st8["requested"] or len(sn["th"]) != st8["requested"]:
            bad.append("%s: quiescent with %d live workers (threads=%r), last requested count %d"
                       % (where, len(sn["live"]), sn["th"], st8["requested"]))

    for i, (th, kind, det) in enumerate(ev):
        sn = snaps.get(i)
        if sn is not None:
            check_quiescent(sn, "event %d" % i)
        w = worker_no(th)
        if kind == "call":
            cur_call[th] = det
            nsec[th] = 0
            if det[0] == "shutdown":
                st8["in_shutdown"] += 1
        elif kind == "ret":
            c = cur_call.pop(th, None)
            if det[0] == "shutdown":
                st8["in_shutdown"] -= 1
                if det[1] is not bool(c[1]):
                    bad.append("shutdown(cancel_pending=%r) returned %r" % (c[1], det[1]))
                st = sd_last_start.get(th)
                if c[1] and st is not None:
                    for name in st["q"]:
                        if cnc.get(name, 0) != 1 or svc.get(name, 0) != 0:
                            bad.append("shutdown(True) returned but task %s, queued when its wait loop ended, has service=%d cancel=%d"
                                       % (name, svc.get(name, 0), cnc.get(name, 0)))
        elif kind in ("acquire", "reacquire") or (kind == "wake" and det[1] == "notified"):
            sec_start[th] = sn
            if cur_call.get(th, [None])[0] == "shutdown":
                sd_last_start[th] = sn
        elif kind in ("release", "wait"):
            st = sec_start.pop(th, None)
            c = cur_call.get(th)
            k = nsec.get(th, 0)
            nsec[th] = k + 1
            if c and c[0] == "add_task":
                if not sn["q"] or sn["q"][-1] != c[1] or (st is not None and sn["q"][:-1] != st["q"]):
                    bad.append("event %d: add_task(%s) turned the queue %r into %r" % (i, c[1], st and st["q"], sn["q"]))
                submitted.append(c[1])
            elif c and c[0] == "set_thread_count":
                st8["requested"] = c[1]
                if st is not None and st["q"] != sn["q"]:
                    bad.append("event %d: set_thread_count changed the queue" % i)
            elif c and c[0] == "shutdown":
                if k == 0:
                    st8["requested"] = 0
                if kind == "release" and k > 0:
                    if c[1] and sn["q"]:
                        bad.append("shutdown(True) releases the lock for the last time with queue %r" % sn["q"])
                    if not c[1] and st is not None and st["q"] != sn["q"]:
                        bad.append("shutdown(False) changed the queue from %r to %r" % (st["q"], sn["q"]))
            elif w is not None and st is not None:
                if kind == "release" and len(sn["q"]) == len(st["q"]) - 1 and st["q"][1:] == sn["q"]:
                    takes.append(st["q"][0])
                    last_pop[th] = st["q"][0]
                elif st["q"] != sn["q"]:
                    bad.append("event %d: worker section changed the queue from %r to %r" % (i, st["q"], sn["q"]))
        elif kind == "service":
            svc[det] = svc.get(det, 0) + 1
            if last_pop.pop(th, None) != det:
                bad.append("event %d: %s services %s, which is not the task it just popped" % (i, th, det))
        elif kind == "cancel":
            cnc[det] = cnc.get(det, 0) + 1
            takes.append(det)
        elif kind == "crash":
            bad.append("thread %s died: %s" % (th, det))
    fin = case.final
    if case.result == "overrun":
        bad.append("run did not terminate within %d steps" % case.sched.max_steps)
    else:
        check_quiescent(fin, "end of run")
        if fin["parked"] != fin["live"] or not fin["free"]:
            bad.append("end of run: nothing is enabled but lock free=%r, live workers %r, parked %r; blocked: %r"
                       % (fin["free"], fin["live"], fin["parked"], case.blocked))
    for name in submitted:
        a, b = svc.get(name, 0), cnc.get(name, 0)
        inq = fin["q"].count(name)
        running = 1 if name in last_pop.values() else 0
        if a + b + inq + running != 1:
            bad.append("task %s: service() x%d, cancel() x%d, in final queue x%d (want exactly one)" % (name, a, b, inq))
    for name in sorted(set(list(svc) + list(cnc) + fin["q"])):
        if name not in submitted:
            bad.append("task %s was run/cancelled/queued but its add_task never completed" % name)
    if takes != submitted[:len(takes)]:
        bad.append("tasks left the queue in order %r, submitted in order %r" % (takes, submitted))
    if fin["q"] != submitted[len(takes):]:
        bad.append("final queue %r is not the untaken rest of %r" % (fin["q"], submitted))
    return bad, {"quiescent_points": st8["quiescent"], "submitted": len(submitted),
                 "serviced": sum(svc.values()), "cancelled": sum(cnc.values()), "left_queued": len(fin["q"])}


# ----------------------------------------------------------------------------
# static audit of the lock discipline (justifies "one critical section = one step")

EXPECTED_CV_CALLS = {
    "handler_thread": ["queue_cv.wait", "thread_exit_cv.notify"],
    "set_thread_count": ["queue_cv.notify_all"],
    "add_task": ["queue_cv.notify"],
    "shutdown": ["thread_exit_cv.wait", "queue_cv.notify_all"],
}


def audit():
    """Parses waitress/task.py.  Returns (problems, signature): every access to
    self.queue / self.threads / self.stop_count / self.active_count (or to a
    local alias `x = self.<shared>`) in a method of ThreadedTaskDispatcher other
    than __init__ must be lexically inside `with self.lock:`; the calls on the two
    condition variables must be the ones the model was written against; the
    call task.service() must be outside the lock and task.cancel() inside."""
    import waitress.task as wt

    src = inspect.getsource(wt)
    tree = ast.parse(src)
    cls = [n for n in tree.body if isinstance(n, ast.ClassDef) and n.name == "ThreadedTaskDispatcher"]
    problems = []
    sig = {}
    if not cls:
        return ["class ThreadedTaskDispatcher not found"], sig
    for fn in cls[0].body:
        if not isinstance(fn, ast.FunctionDef) or fn.name == "__init__":
            continue
        aliases = set()
        cv_calls = []
        task_calls = []

        def is_self_attr(n, names):
            return (isinstance(n, ast.Attribute) and isinstance(n.value, ast.Name)
                    and n.value.id == "self" and n.attr in names)

        def walk(node, locked):
            if isinstance(node, ast.With):
                lk = any(is_self_attr(it.context_expr, ("lock",)) for it in node.items)
                for it in node.items:
                    walk(it.context_expr, locked)
                for b in node.body:
                    walk(b, locked or lk)
                return
            if isinstance(node, ast.Assign) and len(node.targets) == 1 and isinstance(node.targets[0], ast.Name) \
                    and is_self_attr(node.value, SHARED):
                aliases.add(node.targets[0].id)   # taking a reference is not an access to the content
                return
            if is_self_attr(node, SHARED) and not locked:
                problems.append("%s line %d: self.%s accessed outside `with self.lock`" % (fn.name, node.lineno, node.attr))
            if isinstance(node, ast.Name) and node.id in aliases and not locked:
                problems.append("%s line %d: alias %s of a shared attribute used outside `with self.lock`" % (fn.name, node.lineno, node.id))
            if isinstance(node, ast.Call) and isinstance(node.func, ast.Attribute):
                f = node.func
                if is_self_attr(f.value, ("queue_cv", "thread_exit_cv")):
                    cv_calls.append("%s.%s" % (f.value.attr, f.attr))
                    if not locked:
                        problems.append("%s line %d: %s.%s() outside the lock" % (fn.name, node.lineno, f.value.attr, f.attr))
                if isinstance(f.value, ast.Name) and f.value.id == "task" and f.attr in ("service", "cancel"):
                    task_calls.append((f.attr, locked))
            for ch in ast.iter_child_nodes(node):
                walk(ch, locked)

        for st in fn.body:
            walk(st, False)
        sig[fn.name] = {"cv": cv_calls, "task": task_calls}
        if fn.name in EXPECTED_CV_CALLS and cv_calls != EXPECTED_CV_CALLS[fn.name]:
            problems.append("%s: condition-variable calls %r, the model was written against %r"
                            % (fn.name, cv_calls, EXPECTED_CV_CALLS[fn.name]))
        for name, locked in task_calls:
            if name == "service" and locked:
                problems.append("%s: task.service() is called while holding the lock" % fn.name)
            if name == "cancel" and not locked:
                problems.append("%s: task.cancel() is called outside the lock" % fn.name)
    for m in EXPECTED_CV_CALLS:
        if m not in sig:
            problems.append("method %s not found" % m)
    return problems, sig
