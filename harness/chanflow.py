"""C12 harness: the real HTTPChannel under the deterministic scheduler
(harness/chan_world.py) against the extracted narrow model Model/ChanFlow.v.

  FlowWorld        World + observer snapshots of the abstract channel state before
                   every labelled operation, notes for write_soon calls / results,
                   socket send outcomes and the close_on_finish flag of each task
  translate(world) real trace -> list of model events ("thr:kind:arg:res") + the
                   abstract state observed after each of them + the model
                   parameters (progs = the write_soon sizes actually attempted)
  follow(...)      drives the extracted model along the events (ocaml/chanflow
                   "follow") and compares the abstract state after every event
  monitors(world)  the C12 predicates evaluated directly on the real run
  shape_audit()    ast signature of the modelled methods of channel.py vs SHAPE
  scenarios        seeded generators
"""
import ast
import errno
import hashlib
import logging
import os
import random

logging.disable(logging.CRITICAL)

from harness.chan_world import World, CHAN_FD
from harness.sched import RandomPolicy, PCTPolicy, explore

TRACKED = {
    "total_outbufs_len": "total", "connected": "conn", "will_close": "wc",
    "close_when_flushed": "cwf", "requests": "req",
}
OTHER_ERRNO = errno.ENOBUFS   # an OSError that is neither EWOULDBLOCK nor a disconnect


class FlowWorld(World):
    def __init__(self, *a, **kw):
        World.__init__(self, *a, **kw)
        self.sched.observer = self._observe
        self.accepted = []       # data of every write_soon that returned normally, in order
        self.ws_log = []         # (kind, size) in program order
        orig_send = self.sock.send
        sched = self.sched

        def send(data):
            try:
                n = orig_send(data)
            except OSError as e:
                code = e.args[0]
                import waitress.wasyncore as wa
                if code == errno.EWOULDBLOCK:
                    sched.note("send_result", "b")
                elif code in wa._DISCONNECTED:
                    sched.note("send_result", "g")
                else:
                    sched.note("send_result", "e")
                raise
            sched.note("send_result", "k%d" % n)
            return n
        self.sock.send = send

    def _make_channel_class(self):
        Base = World._make_channel_class(self)
        from waitress.channel import ClientDisconnected
        from waitress.task import WSGITask, ErrorTask
        world = self

        class FT(WSGITask):
            def service(self):
                try:
                    return WSGITask.service(self)
                finally:
                    world.sched.note("task_done", bool(self.close_on_finish))

        class FE(ErrorTask):
            def service(self):
                try:
                    return ErrorTask.service(self)
                finally:
                    world.sched.note("task_done", bool(self.close_on_finish))

        class FlowChannel(Base):
            task_class = FT
            error_task_class = FE

            def write_soon(self, data):
                n = len(data)
                world.sched.note("ws_call", n)
                try:
                    r = Base.write_soon(self, data)
                except ClientDisconnected:
                    world.sched.note("ws_raise", n)
                    raise
                world.sched.note("ws_ret", n)
                if n and isinstance(data, (bytes, bytearray)):
                    world.accepted.append(bytes(data))
                return r

        return FlowChannel

    # ---- abstract state of the real objects (no yields: object.__getattribute__)
    def snap(self):
        ch = self.channel
        if ch is None or not self.tracing:
            return None
        g = lambda n: object.__getattribute__(ch, n)
        cond = g("outbuf_lock")
        lk = cond.lock
        owner = lk.owner.name if lk.owner is not None else None
        rl = g("requests_lock")
        rowner = rl.owner.name if rl.owner is not None else None
        pend = 0
        for b in g("outbufs"):
            try:
                pend += b.__len__()
            except Exception:
                pass
        return {
            "t": g("total_outbufs_len"), "c": bool(g("connected")), "wc": bool(g("will_close")),
            "cwf": bool(g("close_when_flushed")), "n": len(g("requests")),
            "ol": "-" if owner is None else ("i" if owner == "io" else "w"),
            "rl": "-" if rowner is None else ("i" if rowner == "io" else "w"),
            "pl": bool(self.trigger.pulled), "im": CHAN_FD in self.map,
            "park": len(cond.waiters) > 0, "p": pend,
            "rd": bool(self.sock.client_reading), "gn": bool(self.sock.client_gone),
        }

    def _observe(self, sched, t, op):
        return self.snap()

    def quiescent_state(self):
        self.snap_final = self.snap()
        return World.quiescent_state(self)

    def names(self):
        ch = self.channel
        g = lambda n: object.__getattribute__(ch, n)
        cond = g("outbuf_lock")
        return {"cv": cond.name, "olock": cond.lock.name, "rlock": g("requests_lock").name}


# ---------------------------------------------------------------------------
# real trace -> model events

def _kind_of(op, detail, nm):
    """model kind of a real labelled operation, None = not represented"""
    if op in ("acquire", "try_acquire", "release", "reacquire"):
        if detail == nm["olock"]:
            return {"acquire": "acq", "try_acquire": "try", "release": "rel"}.get(op)
        if detail == nm["rlock"]:
            return {"acquire": "racq", "release": "rrel"}.get(op)
        return None
    if op == "wait":
        return "wait" if detail == nm["cv"] else None
    if op == "wake":
        return "wake" if detail and detail[0] == nm["cv"] else None
    if op == "notify":
        return "notify" if detail and detail[0] == nm["cv"] else None
    if op == "sock_send":
        return "send"
    if op == "sock_recv":
        return "recv"
    if op == "pull_trigger":
        return "pull"
    if op == "select":
        return "select"
    if op.startswith("R:") or op.startswith("W:"):
        a = TRACKED.get(op[2:])
        return None if a is None else op[0] + a
    return None


def translate(world):
    """-> dict(events=[...], post=[snapshot after each event], progs=[(sizes, close)], raw=[index into sched.events])"""
    sched = world.sched
    ev = sched.events
    nm = world.names() if world.channel is not None else None
    out, post, raw = [], [], []
    progs = []            # per service_start: [sizes, close]
    role = {}             # real thread name -> "w" | "t" | None
    cur_prog = {}         # thread -> index into progs
    op_idx = sorted(sched.snaps)
    nxt = {}
    moved = {}
    for a, b in zip(op_idx, op_idx[1:]):
        nxt[a] = sched.snaps[b]
    final = world.snap_final
    n = len(ev)
    i = 0
    while i < n:
        th, kind, detail = ev[i]
        if i not in sched.snaps:
            # a note
            if kind == "service_start":
                role[th] = "w"
                progs.append([[], False])
                cur_prog[th] = len(progs) - 1
                # the model's start step; its post-state is the state before the thread's next operation
                out.append("w:start:-:0")
                post.append(None)
                raw.append(i)
            elif kind == "service_end":
                role[th] = None
            elif kind == "ws_call" and th in cur_prog:
                progs[cur_prog[th]][0].append(detail)
            elif kind == "task_done" and th in cur_prog:
                progs[cur_prog[th]][1] = bool(detail)
            i += 1
            continue
        pre = sched.snaps[i]
        after = nxt.get(i, final)
        if pre is None and after is None or nm is None:
            i += 1
            continue
        thr = None
        k = None
        arg = "-"
        if th == "io":
            thr = "i"
            k = _kind_of(kind, detail, nm)
            if kind == "R:requests":
                # "self.requests.append(self.request)": the list is loaded, then the argument
                # (R:request, a yield point), then the append runs: the step is represented at
                # that later yield, where it takes effect
                j = i + 1
                while j < n and not (ev[j][0] == th and j in sched.snaps):
                    j += 1
                if j < n and ev[j][1] == "R:request":
                    moved[j] = "Rreq"
                    k = None
            elif i in moved:
                k = moved[i]
        elif th == "client":
            thr = "e"
            if kind == "client:send":
                k, arg = "env", "a"
            elif kind == "client:close":
                k, arg = "env", "g"
            elif kind == "client:stall":
                k, arg = "env", "s"
            elif kind == "client:resume":
                k, arg = "env", "r"
        elif role.get(th) == "w":
            thr = "w"
            k = _kind_of(kind, detail, nm)
        elif role.get(th) == "t":
            k = _kind_of(kind, detail, nm)
            thr = "t"
            if k not in ("Rconn", "pull"):
                k = None
        if k is None:
            i += 1
            continue
        if k == "send":
            # the outcome is the next send_result note of this thread
            j = i + 1
            while j < n and not (ev[j][0] == th and ev[j][1] == "send_result"):
                j += 1
            arg = ev[j][2] if j < n else "b"
        res = after["p"] if after is not None else 0
        out.append("%s:%s:%s:%d" % (thr, k, arg, res))
        post.append(after)
        raw.append(i)
        if thr == "w" and k == "rrel":
            role[th] = "t"
        i += 1
    return {"events": out, "post": post, "raw": raw,
            "progs": [(list(s), bool(c)) for s, c in progs]}


def progs_token(progs):
    if not progs:
        return "_"
    return "/".join("%s:%d" % (".".join(str(x) for x in s) if s else "-", 1 if c else 0) for s, c in progs)


def parse_state(txt):
    d = {}
    for f in txt.split(";"):
        if "=" in f:
            k, v = f.split("=", 1)
            d[k] = v
    return d


CMP = [("t", "t", int), ("c", "c", lambda v: v == "1"), ("wc", "wc", lambda v: v == "1"),
       ("cwf", "cwf", lambda v: v == "1"), ("n", "n", int), ("ol", "ol", str), ("rl", "rl", str),
       ("pl", "pl", lambda v: v == "1"), ("im", "im", lambda v: v == "1"),
       ("park", "park", lambda v: v == "1"), ("rd", "rd", lambda v: v == "1"), ("gn", "gn", lambda v: v == "1")]


def follow_query(world, gran, tr=None):
    tr = tr or translate(world)
    adj = world.adj
    q = "follow %s %d %d %d 1 %s %s" % (
        gran, adj.outbuf_high_watermark, adj.send_bytes, adj.channel_request_lookahead,
        progs_token(tr["progs"]), ",".join(tr["events"]) if tr["events"] else "e:env:r:0")
    return q, tr


def compare_follow(answer, tr):
    """-> (ok, n_events_matched, detail) ; compares the model state after each event with the observed one"""
    fields = answer.split("|")
    if fields and fields[-1].startswith("T:"):
        tr["model_schedule"] = fields.pop()[2:]
    evs = tr["events"]
    if not evs:
        return True, 0, ""
    if len(fields) != len(evs):
        return False, 0, "answer has %d fields for %d events: %s" % (len(fields), len(evs), answer[:200])
    matched = 0
    for idx, (f, e, obs) in enumerate(zip(fields, evs, tr["post"])):
        if f.startswith("MISMATCH") or f == "-" or f.startswith("ERR"):
            return False, matched, "event %d %s: model says %s" % (idx, e, f[:160])
        tag, _, st = f.partition(";")
        m = parse_state(st)
        if obs is not None:
            for mk, ok_, conv in CMP:
                if conv(m[mk]) != obs[ok_]:
                    return False, matched, "event %d %s (%s): field %s model=%s real=%r ; model state %s" % (
                        idx, e, tag, mk, m[mk], obs[ok_], st)
            if m["ol"] == "-" and int(m["p"]) != obs["p"]:
                return False, matched, "event %d %s: pending bytes model=%s real=%d ; %s" % (idx, e, m["p"], obs["p"], st)
        matched += 1
    return True, matched, ""
