"""C12 harness: the real HTTPChannel under the deterministic scheduler
(harness/chan_world.py) against the extracted narrow model Model/ChanFlow.v.

  FlowWorld        World + observer snapshots of the abstract channel state before
                   every labelled operation, notes for write_soon calls / results,
                   socket send outcomes and the close_on_finish flag of each task
  translate(world) real trace -> list of model events ("thr:kind:arg:res") + the
                   abstract state observed after each of them + the model
                   parameters (progs = the write_soon sizes actually attempted)
  follow(...)      drives the extracted model along the events (ocaml/chanflow
                   "follow") and compares the abstract state after every event
  monitors(world)  the C12 predicates evaluated directly on the real run
  shape_audit()    ast signature of the modelled methods of channel.py vs SHAPE
  scenarios        seeded generators
"""
import ast
import errno
import hashlib
import logging
import os
import random

logging.disable(logging.CRITICAL)

from harness.chan_world import World, CHAN_FD
from harness.sched import RandomPolicy, PCTPolicy, explore

TRACKED = {
    "total_outbufs_len": "total", "connected": "conn", "will_close": "wc",
    "close_when_flushed": "cwf", "requests": "req",
}
OTHER_ERRNO = errno.ENOBUFS   # an OSError that is neither EWOULDBLOCK nor a disconnect


class FlowWorld(World):
    def __init__(self, *a, **kw):
        World.__init__(self, *a, **kw)
        self.sched.observer = self._observe
        self.accepted = []       # data of every write_soon that returned normally, in order
        self.inflight = b""       # data of the write_soon call in progress
        self.ws_log = []         # (kind, size) in program order
        orig_send = self.sock.send
        sched = self.sched

        def send(data):
            plan = self.sock.send_plan
            if plan and isinstance(plan[0], tuple) and plan[0][0] == "mark":
                # ("mark", d): accept exactly as many bytes as leave total_outbufs_len = high_watermark + d
                if (not self.sock.client_reading) or self.sock.client_gone or self.sock.closed:
                    plan.insert(0, None)     # this attempt fails anyway; keep the mark entry for the next one
                else:
                    total = object.__getattribute__(self.channel, "total_outbufs_len")
                    plan[0] = max(0, total - self.adj.outbuf_high_watermark - plan[0][1])
            try:
                n = orig_send(data)
            except OSError as e:
                code = e.args[0]
                import waitress.wasyncore as wa
                if code == errno.EWOULDBLOCK:
                    sched.note("send_result", "b")
                elif code in wa._DISCONNECTED:
                    sched.note("send_result", "g")
                else:
                    sched.note("send_result", "e")
                raise
            sched.note("send_result", "k%d" % n)
            return n
        self.sock.send = send

    strbuf_limit = None   # if set: waitress.buffers.STRBUF_LIMIT for the duration of the run

    def run(self):
        if self.strbuf_limit is None:
            return World.run(self)
        import waitress.buffers as wbuffers
        from harness.fake_threading import patched
        with patched(wbuffers, STRBUF_LIMIT=self.strbuf_limit):
            return World.run(self)

    def _make_channel_class(self):
        Base = World._make_channel_class(self)
        from waitress.channel import ClientDisconnected
        from waitress.task import WSGITask, ErrorTask
        world = self

        class FT(WSGITask):
            def service(self):
                try:
                    return WSGITask.service(self)
                finally:
                    world.sched.note("task_done", bool(self.close_on_finish))

        class FE(ErrorTask):
            def service(self):
                try:
                    return ErrorTask.service(self)
                finally:
                    world.sched.note("task_done", bool(self.close_on_finish))

        class FlowChannel(Base):
            task_class = FT
            error_task_class = FE

            def write_soon(self, data):
                n = len(data)
                world.sched.note("ws_call", n)
                world.inflight = bytes(data) if isinstance(data, (bytes, bytearray)) else b""
                try:
                    r = Base.write_soon(self, data)
                except ClientDisconnected:
                    world.inflight = b""
                    world.sched.note("ws_raise", n)
                    raise
                world.inflight = b""
                world.sched.note("ws_ret", n)
                if n and isinstance(data, (bytes, bytearray)):
                    world.accepted.append(bytes(data))
                return r

            def __setattr__(self, name, value):
                # the moment of an append / of the close decision of service(), for the monitors (no yield)
                if world.tracing and name == "total_outbufs_len":
                    old = object.__getattribute__(self, "total_outbufs_len")
                    if value > old:
                        world.sched.note("append", value - old)
                elif world.tracing and name == "close_when_flushed" and value is True:
                    me = world.sched.me()
                    if me is not None and me.name != "io":
                        world.sched.note("cwf_set", None)
                Base.__setattr__(self, name, value)

        return FlowChannel

    # ---- abstract state of the real objects (no yields: object.__getattribute__)
    def snap(self):
        ch = self.channel
        if ch is None or not self.tracing:
            return None
        g = lambda n: object.__getattribute__(ch, n)
        cond = g("outbuf_lock")
        lk = cond.lock
        owner = lk.owner.name if lk.owner is not None else None
        rl = g("requests_lock")
        rowner = rl.owner.name if rl.owner is not None else None
        pend = 0
        kinds = ""
        for b in g("outbufs"):
            try:
                pend += b.__len__()
            except Exception:
                pass
            inner = getattr(b, "buf", None)
            kinds += "s" if inner is None and hasattr(b, "strbuf") else (
                "t" if type(inner).__name__ == "TempfileBasedBuffer" else ("b" if inner is not None else "f"))
        return {
            "t": g("total_outbufs_len"), "c": bool(g("connected")), "wc": bool(g("will_close")),
            "cwf": bool(g("close_when_flushed")), "n": len(g("requests")),
            "ol": "-" if owner is None else ("i" if owner == "io" else "w"),
            "rl": "-" if rowner is None else ("i" if rowner == "io" else "w"),
            "pl": bool(self.trigger.pulled), "im": CHAN_FD in self.map,
            "park": len(cond.waiters) > 0, "p": pend, "k": kinds,
            "rd": bool(self.sock.client_reading), "gn": bool(self.sock.client_gone),
        }

    def _observe(self, sched, t, op):
        return self.snap()

    def quiescent_state(self):
        self.snap_final = self.snap()
        # frozen here: the teardown unwinds the threads with ThreadKilled, which service()'s
        # "except BaseException" (72e39ad) turns into an error response written while dying
        self.accepted_final = list(self.accepted)
        self.inflight_final = self.inflight
        self.wire_final = bytes(self.wire)
        return World.quiescent_state(self)

    def names(self):
        ch = self.channel
        g = lambda n: object.__getattribute__(ch, n)
        cond = g("outbuf_lock")
        return {"cv": cond.name, "olock": cond.lock.name, "rlock": g("requests_lock").name}


# ---------------------------------------------------------------------------
# real trace -> model events

def _kind_of(op, detail, nm):
    """model kind of a real labelled operation, None = not represented"""
    if op in ("acquire", "try_acquire", "release", "reacquire"):
        if detail == nm["olock"]:
            return {"acquire": "acq", "try_acquire": "try", "release": "rel"}.get(op)
        if detail == nm["rlock"]:
            return {"acquire": "racq", "release": "rrel"}.get(op)
        return None
    if op == "wait":
        return "wait" if detail == nm["cv"] else None
    if op == "wake":
        return "wake" if detail and detail[0] == nm["cv"] else None
    if op == "notify":
        return "notify" if detail and detail[0] == nm["cv"] else None
    if op == "sock_send":
        return "send"
    if op == "sock_recv":
        return "recv"
    if op == "pull_trigger":
        return "pull"
    if op == "select":
        return "select"
    if op.startswith("R:") or op.startswith("W:"):
        a = TRACKED.get(op[2:])
        return None if a is None else op[0] + a
    return None


TAIL_KINDS = ["racq", "Rreq", "Rconn", "rrel", "Rconn", "pull"]


def translate(world):
    """-> dict(events=[...], post=[snapshot after each event], progs=[(sizes, close)], raw=[index into sched.events])"""
    sched = world.sched
    ev = sched.events
    nm = world.names() if world.channel is not None else None
    out, post, raw = [], [], []
    progs = []            # per service_start: [sizes, close]
    role = {}             # real thread name -> "w" | "t" | None
    cur_prog = {}         # thread -> index into progs
    op_idx = sorted(sched.snaps)
    nxt = {}
    moved = {}
    tphase = {}
    attrs_mode = world.granularity == "attrs"
    for a, b in zip(op_idx, op_idx[1:]):
        nxt[a] = sched.snaps[b]
    final = world.snap_final
    n = len(ev)
    i = 0
    while i < n:
        th, kind, detail = ev[i]
        if i not in sched.snaps:
            # a note
            if kind == "service_start":
                role[th] = "w"
                progs.append([[], False])
                cur_prog[th] = len(progs) - 1
                # the model's start step; its post-state is the state before the thread's next operation
                out.append("w:start:-:0")
                post.append(None)
                raw.append(i)
            elif kind == "service_end":
                role[th] = None
            elif kind == "ws_call" and th in cur_prog:
                progs[cur_prog[th]][0].append(detail)
            elif kind == "task_done" and th in cur_prog:
                progs[cur_prog[th]][1] = bool(detail)
            i += 1
            continue
        pre = sched.snaps[i]
        after = nxt.get(i, final)
        if pre is None and after is None or nm is None:
            i += 1
            continue
        thr = None
        k = None
        arg = "-"
        if th == "io":
            thr = "i"
            k = _kind_of(kind, detail, nm)
            if kind == "R:requests":
                # "self.requests.append(self.request)": the list is loaded, then the argument
                # (R:request, a yield point), then the append runs: the step is represented at
                # that later yield, where it takes effect
                j = i + 1
                while j < n and not (ev[j][0] == th and j in sched.snaps):
                    j += 1
                if j < n and ev[j][1] == "R:request":
                    moved[j] = "Rreq"
                    k = None
            elif i in moved:
                k = moved[i]
        elif th == "client":
            thr = "e"
            if kind == "client:send":
                k, arg = "env", "a"
            elif kind == "client:close":
                k, arg = "env", "g"
            elif kind == "client:stall":
                k, arg = "env", "s"
            elif kind == "client:resume":
                k, arg = "env", "r"
        elif role.get(th) == "w":
            thr = "w"
            k = _kind_of(kind, detail, nm)
            if k == "racq":
                # keep branch (no close_when_flushed := True before the release): the rest of
                # service() is the model's tail [tlc]
                j = i + 1
                close_branch = False
                while j < n and not (ev[j][0] == th and ev[j][1] == "release" and ev[j][2] == nm["rlock"]):
                    if ev[j][0] == th and ev[j][1] == "cwf_set":
                        close_branch = True
                    j += 1
                if not close_branch:
                    role[th] = "t"
                    tphase[th] = 1
                    thr, arg = "t", "0"
        elif role.get(th) == "t":
            k = _kind_of(kind, detail, nm)
            thr = "t"
            ph = tphase.get(th, 4)
            if attrs_mode:
                want = TAIL_KINDS[ph] if ph < len(TAIL_KINDS) else None
                if k == want:
                    arg = str(ph)
                    tphase[th] = ph + 1
                else:
                    k = None
            else:
                if k == "rrel" and ph <= 3:
                    arg = "3"
                    tphase[th] = 5
                elif k == "pull" and ph >= 4:
                    arg = "5"
                    tphase[th] = 6
                else:
                    k = None
        if k is None:
            i += 1
            continue
        if k == "send":
            # the outcome is the next send_result note of this thread
            j = i + 1
            while j < n and not (ev[j][0] == th and ev[j][1] == "send_result"):
                j += 1
            arg = ev[j][2] if j < n else "b"
        res = after["p"] if after is not None else 0
        out.append("%s:%s:%s:%d" % (thr, k, arg, res))
        post.append(after)
        raw.append(i)
        if thr == "w" and k == "rrel":
            role[th] = "t"
            tphase[th] = 4
        i += 1
    return {"events": out, "post": post, "raw": raw,
            "progs": [(list(s), bool(c)) for s, c in progs]}


def progs_token(progs):
    if not progs:
        return "_"
    return "/".join("%s:%d" % (".".join(str(x) for x in s) if s else "-", 1 if c else 0) for s, c in progs)


def parse_state(txt):
    d = {}
    for f in txt.split(";"):
        if "=" in f:
            k, v = f.split("=", 1)
            d[k] = v
    return d


CMP = [("t", "t", int), ("c", "c", lambda v: v == "1"), ("wc", "wc", lambda v: v == "1"),
       ("cwf", "cwf", lambda v: v == "1"), ("n", "n", int), ("ol", "ol", str), ("rl", "rl", lambda v: "w" if v == "t" else v),
       ("pl", "pl", lambda v: v == "1"), ("im", "im", lambda v: v == "1"),
       ("park", "park", lambda v: v == "1"), ("rd", "rd", lambda v: v == "1"), ("gn", "gn", lambda v: v == "1")]


def follow_query(world, gran, tr=None):
    tr = tr or translate(world)
    adj = world.adj
    q = "follow %s %d %d %d 1 111 %s %s" % (
        gran, adj.outbuf_high_watermark, adj.send_bytes, adj.channel_request_lookahead,
        progs_token(tr["progs"]), ",".join(tr["events"]) if tr["events"] else "e:env:r:0")
    return q, tr


def compare_follow(answer, tr):
    """-> (ok, n_events_matched, detail) ; compares the model state after each event with the observed one"""
    fields = answer.split("|")
    if fields and fields[-1].startswith("T:"):
        tr["model_schedule"] = fields.pop()[2:]
    evs = tr["events"]
    if not evs:
        return True, 0, ""
    if len(fields) != len(evs):
        return False, 0, "answer has %d fields for %d events: %s" % (len(fields), len(evs), answer[:200])
    matched = 0
    for idx, (f, e, obs) in enumerate(zip(fields, evs, tr["post"])):
        if f.startswith("MISMATCH") or f == "-" or f.startswith("ERR"):
            return False, matched, "event %d %s: model says %s" % (idx, e, f[:160])
        tag, _, st = f.partition(";")
        m = parse_state(st)
        if obs is not None:
            for mk, ok_, conv in CMP:
                if conv(m[mk]) != obs[ok_]:
                    return False, matched, "event %d %s (%s): field %s model=%s real=%r ; model state %s" % (
                        idx, e, tag, mk, m[mk], obs[ok_], st)
            if m["ol"] == "-" and int(m["p"]) != obs["p"]:
                return False, matched, "event %d %s: pending bytes model=%s real=%d ; %s" % (idx, e, m["p"], obs["p"], st)
        matched += 1
    return True, matched, ""


# ---------------------------------------------------------------------------
# shape audit: the sequence of lock scopes, tests, tracked attribute accesses and
# calls of every method Model/ChanFlow.v represents, from the ast of channel.py

AUDITED = ["writable", "readable", "handle_write", "_flush_exception", "handle_read",
           "_flush_some_if_lockable", "_flush_some", "handle_close", "write_soon",
           "_flush_outbufs_below_high_watermark", "service", "received"]
AUDITED_DISPATCHER = ["send", "recv", "close"]
_SELF_ATTRS = set(TRACKED) | {"outbufs"}


def _dotted(node):
    parts = []
    while isinstance(node, ast.Attribute):
        parts.append(node.attr)
        node = node.value
    if isinstance(node, ast.Subscript):
        inner = _dotted(node.value)
        return (inner + "[]" + ("." + ".".join(reversed(parts)) if parts else "")) if inner else None
    if isinstance(node, ast.Name):
        parts.append(node.id)
        return ".".join(reversed(parts))
    return None


def _normalise_locals(fn):
    """rename the function-local names (everything bound inside the function: assignment / for / with-as /
    except-as / comprehension targets; NOT the parameters) to v1, v2, ... in order of first binding, in place.
    Returns the set of normalised names.  Attributes of self, module globals, parameters are untouched."""
    params = {a.arg for a in fn.args.posonlyargs + fn.args.args + fn.args.kwonlyargs}
    if fn.args.vararg:
        params.add(fn.args.vararg.arg)
    if fn.args.kwarg:
        params.add(fn.args.kwarg.arg)
    order = []
    declared = set()

    class Collect(ast.NodeVisitor):
        def visit_Global(self, node):
            declared.update(node.names)

        visit_Nonlocal = visit_Global

        def visit_Name(self, node):
            if isinstance(node.ctx, ast.Store) and node.id not in params and node.id not in order:
                order.append(node.id)

        def visit_ExceptHandler(self, node):
            if node.name and node.name not in params and node.name not in order:
                order.append(node.name)
            self.generic_visit(node)

    for st in fn.body:
        Collect().visit(st)
    mapping = {n: "v%d" % (i + 1) for i, n in enumerate(x for x in order if x not in declared)}

    class Rename(ast.NodeTransformer):
        def visit_Name(self, node):
            if node.id in mapping:
                node.id = mapping[node.id]
            return node

        def visit_ExceptHandler(self, node):
            if node.name in mapping:
                node.name = mapping[node.name]
            self.generic_visit(node)
            return node

    for st in fn.body:
        Rename().visit(st)
    return set(mapping.values())


class _Shape(ast.NodeVisitor):
    """emits tokens in evaluation order"""

    def __init__(self, locals_=()):
        self.out = []
        self.locals = set(locals_)

    def expr(self, node):
        """tokens of an expression: calls through self / the buffers, reads of tracked attributes"""
        if node is None:
            return
        if isinstance(node, ast.Call):
            name = _dotted(node.func)
            for a in node.args:
                self.expr(a)
            for k in node.keywords:
                self.expr(k.value)
            if isinstance(node.func, ast.Attribute):
                self.expr(node.func.value)
            root = name.split(".")[0].split("[")[0] if name else None
            if name and (name.startswith("self.") or (root in self.locals and "." in name)) \
                    and ".logger." not in name:
                kws = ",".join("%s=%s" % (k.arg, ast.unparse(k.value)) for k in node.keywords)
                pos = ",".join(ast.unparse(a) for a in node.args
                               if isinstance(a, ast.Constant) or (isinstance(a, ast.Attribute) and _dotted(a) and _dotted(a).startswith("self._")))
                self.out.append("call:%s(%s)" % (name, ",".join(x for x in (pos, kws) if x)))
            return
        if isinstance(node, ast.Attribute):
            if isinstance(node.value, ast.Name) and node.value.id == "self" and node.attr in _SELF_ATTRS:
                self.out.append("R:" + node.attr)
                return
            self.expr(node.value)
            return
        for ch in ast.iter_child_nodes(node):
            if isinstance(ch, ast.expr):
                self.expr(ch)

    def target(self, node):
        if isinstance(node, ast.Attribute) and isinstance(node.value, ast.Name) and node.value.id == "self" \
                and node.attr in _SELF_ATTRS:
            self.out.append("W:" + node.attr)
        elif isinstance(node, (ast.Tuple, ast.List)):
            for e in node.elts:
                self.target(e)

    def block(self, stmts):
        for st in stmts:
            self.stmt(st)

    def stmt(self, st):
        o = self.out
        if isinstance(st, ast.Expr):
            if isinstance(st.value, ast.Constant):
                return
            self.expr(st.value)
        elif isinstance(st, ast.Assign):
            self.expr(st.value)
            if all(isinstance(t, ast.Name) for t in st.targets) and (
                    isinstance(st.value, ast.Constant)
                    or (isinstance(st.value, ast.Attribute) and (_dotted(st.value) or "").startswith("self._"))):
                o.append("let:%s=%s" % (",".join(t.id for t in st.targets), ast.unparse(st.value)))
            for t in st.targets:
                self.target(t)
        elif isinstance(st, ast.AnnAssign):
            # "x: T = e" is "x = e"; a bare annotation is nothing
            if st.value is not None:
                self.stmt(ast.Assign(targets=[st.target], value=st.value))
        elif isinstance(st, ast.AugAssign):
            if isinstance(st.target, ast.Attribute) and isinstance(st.target.value, ast.Name) \
                    and st.target.value.id == "self" and st.target.attr in _SELF_ATTRS:
                self.expr(st.value)
                o.append("R:" + st.target.attr)
                o.append("W:%s(%s)" % (st.target.attr, type(st.op).__name__))
            else:
                self.expr(st.value)
        elif isinstance(st, ast.If):
            o.append("if(%s){" % ast.unparse(st.test))
            self.expr(st.test)
            self.block(st.body)
            o.append("}")
            if st.orelse:
                o.append("else{")
                self.block(st.orelse)
                o.append("}")
        elif isinstance(st, ast.While):
            o.append("while(%s){" % ast.unparse(st.test))
            self.expr(st.test)
            self.block(st.body)
            o.append("}")
            if st.orelse:
                o.append("whileelse{")
                self.block(st.orelse)
                o.append("}")
        elif isinstance(st, ast.For):
            o.append("for(%s){" % ast.unparse(st.iter))
            self.expr(st.iter)
            self.block(st.body)
            o.append("}")
        elif isinstance(st, ast.With):
            names = [ast.unparse(i.context_expr) for i in st.items]
            o.append("with(%s){" % ",".join(names))
            self.block(st.body)
            o.append("}")
        elif isinstance(st, ast.Try):
            o.append("try{")
            self.block(st.body)
            o.append("}")
            for h in st.handlers:
                o.append("except(%s){" % (ast.unparse(h.type) if h.type else ""))
                self.block(h.body)
                o.append("}")
            if st.orelse:
                o.append("tryelse{")
                self.block(st.orelse)
                o.append("}")
            if st.finalbody:
                o.append("finally{")
                self.block(st.finalbody)
                o.append("}")
        elif isinstance(st, ast.Return):
            self.expr(st.value)
            o.append("return")
        elif isinstance(st, ast.Raise):
            o.append("raise(%s)" % (ast.unparse(st.exc) if st.exc else ""))
        elif isinstance(st, (ast.Break, ast.Continue, ast.Pass)):
            o.append(type(st).__name__.lower())
        else:
            for ch in ast.iter_child_nodes(st):
                if isinstance(ch, ast.expr):
                    self.expr(ch)


def _strip_logging(tokens):
    return [t for t in tokens if "logger" not in t and "log_socket_errors" not in t]


def method_shapes(src_dir):
    """-> {"HTTPChannel.write_soon": [tokens], ...} for the audited methods"""
    out = {}
    for fname, cls, names in (("channel.py", "HTTPChannel", AUDITED), ("wasyncore.py", "dispatcher", AUDITED_DISPATCHER)):
        tree = ast.parse(open(os.path.join(src_dir, "waitress", fname)).read())
        for node in tree.body:
            if isinstance(node, ast.ClassDef) and node.name == cls:
                for f in node.body:
                    if isinstance(f, ast.FunctionDef) and f.name in names:
                        v = _Shape(_normalise_locals(f))
                        v.block(f.body)
                        sig = "(" + ",".join(a.arg + ("=" + ast.unparse(d) if d is not None else "")
                                             for a, d in zip(f.args.args, [None] * (len(f.args.args) - len(f.args.defaults)) + list(f.args.defaults))) + ")"
                        out["%s.%s" % (cls, f.name)] = [sig] + _strip_logging(v.out)
    return out


def shape_digest(shapes):
    return {k: hashlib.sha1("\n".join(v).encode()).hexdigest()[:12] for k, v in sorted(shapes.items())}


# expected shape of the audited methods (tokens of method_shapes) for the tree the model was written against;
# which model step represents which token is documented in the header of coq/Model/ChanFlow.v
EXPECTED_SHAPE = {'HTTPChannel._flush_exception': ['(self,flush,do_close=True)',
                                  'if(flush){',
                                  'try{',
                                  'return',
                                  '}',
                                  'except(OSError){',
                                  '}',
                                  'W:will_close',
                                  'return',
                                  '}',
                                  'except(Exception){',
                                  'W:will_close',
                                  'return',
                                  '}',
                                  '}',
                                  'return'],
 'HTTPChannel._flush_outbufs_below_high_watermark': ['(self)',
                                                     'if(self.total_outbufs_len > self.adj.outbuf_high_watermark){',
                                                     'R:total_outbufs_len',
                                                     'with(self.outbuf_lock){',
                                                     'if(not self.connected){',
                                                     'R:connected',
                                                     'return',
                                                     '}',
                                                     'call:self._flush_exception(self._flush_some,do_close=False)',
                                                     'if(v2){',
                                                     'call:self.server.pull_trigger()',
                                                     'call:self.outbuf_lock.wait()',
                                                     'return',
                                                     '}',
                                                     'while(self.connected and self.total_outbufs_len > self.adj.outbuf_high_watermark){',
                                                     'R:connected',
                                                     'R:total_outbufs_len',
                                                     'call:self.server.pull_trigger()',
                                                     'call:self.outbuf_lock.wait()',
                                                     '}',
                                                     '}',
                                                     '}'],
 'HTTPChannel._flush_some': ['(self,do_close=True)',
                             'let:v1=0',
                             'let:v2=False',
                             'while(True){',
                             'R:outbufs',
                             'call:v3.__len__()',
                             'while(v4 > 0){',
                             'call:v3.get()',
                             'call:self.send(do_close=do_close)',
                             'if(v6){',
                             'call:v3.skip(True)',
                             'R:total_outbufs_len',
                             'W:total_outbufs_len(Sub)',
                             '}',
                             'else{',
                             'let:v2=True',
                             'break',
                             '}',
                             '}',
                             'whileelse{',
                             'if(len(self.outbufs) > 1){',
                             'R:outbufs',
                             'R:outbufs',
                             'call:self.outbufs.pop(0)',
                             'try{',
                             'call:v7.close()',
                             '}',
                             'except(Exception){',
                             '}',
                             '}',
                             'else{',
                             'let:v2=True',
                             '}',
                             '}',
                             'if(v2){',
                             'break',
                             '}',
                             '}',
                             'if(v1){',
                             'return',
                             '}',
                             'return'],
 'HTTPChannel._flush_some_if_lockable': ['(self,do_close=True)',
                                         'if(self.outbuf_lock.acquire(False)){',
                                         'call:self.outbuf_lock.acquire(False)',
                                         'try{',
                                         'call:self._flush_some(do_close=do_close)',
                                         'if(self.total_outbufs_len <= self.adj.outbuf_high_watermark){',
                                         'R:total_outbufs_len',
                                         'call:self.outbuf_lock.notify()',
                                         '}',
                                         '}',
                                         'finally{',
                                         'call:self.outbuf_lock.release()',
                                         '}',
                                         '}'],
 'HTTPChannel.handle_close': ['(self)',
                              'with(self.outbuf_lock){',
                              'for(self.outbufs){',
                              'R:outbufs',
                              'try{',
                              'call:v1.close()',
                              '}',
                              'except(Exception){',
                              '}',
                              '}',
                              'W:total_outbufs_len',
                              'W:connected',
                              'call:self.outbuf_lock.notify()',
                              '}'],
 'HTTPChannel.handle_read': ['(self)',
                             'try{',
                             'call:self.recv()',
                             '}',
                             'except(OSError){',
                             '}',
                             'call:self.handle_close()',
                             'return',
                             '}',
                             'if(v1){',
                             'call:self.received()',
                             '}',
                             'else{',
                             'W:connected',
                             '}'],
 'HTTPChannel.handle_write': ['(self)',
                              'if(not self.requests){',
                              'R:requests',
                              'let:v1=self._flush_some_if_lockable',
                              '}',
                              'else{',
                              'if(self.total_outbufs_len >= self.adj.send_bytes or self.total_outbufs_len > self.adj.outbuf_high_watermark){',
                              'R:total_outbufs_len',
                              'R:total_outbufs_len',
                              'let:v1=self._flush_some_if_lockable',
                              '}',
                              'else{',
                              'let:v1=None',
                              '}',
                              '}',
                              'call:self._flush_exception()',
                              'if(self.close_when_flushed and (not self.total_outbufs_len)){',
                              'R:close_when_flushed',
                              'R:total_outbufs_len',
                              'W:close_when_flushed',
                              'W:will_close',
                              '}',
                              'if(self.will_close){',
                              'R:will_close',
                              'call:self.handle_close()',
                              '}'],
 'HTTPChannel.readable': ['(self)', 'R:will_close', 'R:close_when_flushed', 'R:requests', 'R:total_outbufs_len', 'return'],
 'HTTPChannel.received': ['(self,data)',
                          'if(not data){',
                          'return',
                          '}',
                          'with(self.requests_lock){',
                          'if(self.will_close or self.close_when_flushed){',
                          'R:will_close',
                          'R:close_when_flushed',
                          'return',
                          '}',
                          'while(data){',
                          'if(self.request is None){',
                          'call:self.parser_class()',
                          '}',
                          'call:self.request.received()',
                          'if(self.request.expect_continue and self.request.headers_finished and (not self.requests) and (not self.sent_continue)){',
                          'R:requests',
                          'call:self.send_continue()',
                          '}',
                          'if(self.request.completed){',
                          'if(not self.request.empty){',
                          'R:requests',
                          'call:self.requests.append()',
                          'if(len(self.requests) == 1){',
                          'R:requests',
                          'call:self.server.add_task()',
                          '}',
                          '}',
                          '}',
                          'if(v1 >= len(data)){',
                          'break',
                          '}',
                          '}',
                          '}',
                          'return'],
 'HTTPChannel.service': ['(self)',
                         'R:requests',
                         'if(v1.error){',
                         'call:self.error_task_class()',
                         '}',
                         'else{',
                         'call:self.task_class()',
                         '}',
                         'try{',
                         'if(self.connected and (not self.will_close)){',
                         'R:connected',
                         'R:will_close',
                         'call:v2.service()',
                         '}',
                         'else{',
                         '}',
                         '}',
                         'except(ClientDisconnected){',
                         '}',
                         'except(BaseException){',
                         'if(not v2.wrote_header){',
                         'if(self.adj.expose_tracebacks){',
                         '}',
                         'else{',
                         "let:v3='The server encountered an unexpected internal server error'",
                         '}',
                         'call:self.parser_class()',
                         'try{',
                         '}',
                         'except(KeyError){',
                         'pass',
                         '}',
                         'call:self.error_task_class()',
                         'try{',
                         'call:v2.service()',
                         '}',
                         'except(ClientDisconnected){',
                         '}',
                         '}',
                         'else{',
                         '}',
                         '}',
                         'if(v2.close_on_finish){',
                         'with(self.requests_lock){',
                         'W:close_when_flushed',
                         'for(self.requests){',
                         'R:requests',
                         'call:v1.close()',
                         '}',
                         'W:requests',
                         '}',
                         '}',
                         'else{',
                         'if(len(self.requests) > 1){',
                         'R:requests',
                         'call:self._flush_outbufs_below_high_watermark()',
                         '}',
                         'if(self.current_outbuf_count > 0){',
                         '}',
                         'call:v1.close()',
                         'with(self.requests_lock){',
                         'R:requests',
                         'call:self.requests.pop(0)',
                         'if(self.connected and self.requests){',
                         'R:connected',
                         'R:requests',
                         'call:self.server.add_task()',
                         '}',
                         'else{',
                         'if(self.connected and self.request is not None and self.request.expect_continue and self.request.headers_finished and (not '
                         'self.sent_continue)){',
                         'R:connected',
                         'call:self.send_continue(do_close=False)',
                         '}',
                         '}',
                         '}',
                         '}',
                         'if(self.connected){',
                         'R:connected',
                         'call:self.server.pull_trigger()',
                         '}'],
 'HTTPChannel.writable': ['(self)', 'R:total_outbufs_len', 'R:will_close', 'R:close_when_flushed', 'return'],
 'HTTPChannel.write_soon': ['(self,data)',
                            'if(not self.connected){',
                            'R:connected',
                            'raise(ClientDisconnected)',
                            '}',
                            'if(data){',
                            'with(self.outbuf_lock){',
                            'call:self._flush_outbufs_below_high_watermark()',
                            'if(not self.connected){',
                            'R:connected',
                            'raise(ClientDisconnected)',
                            '}',
                            'if(isinstance(data, ReadOnlyFileBasedBuffer)){',
                            'R:outbufs',
                            'call:self.outbufs.append()',
                            'R:outbufs',
                            'call:self.outbufs.append()',
                            '}',
                            'else{',
                            'if(self.current_outbuf_count >= self.adj.outbuf_high_watermark){',
                            'R:outbufs',
                            'call:self.outbufs.append()',
                            '}',
                            'R:outbufs',
                            'call:self.outbufs[].append()',
                            '}',
                            'R:total_outbufs_len',
                            'W:total_outbufs_len(Add)',
                            'if(self.total_outbufs_len >= self.adj.send_bytes){',
                            'R:total_outbufs_len',
                            'call:self._flush_exception(self._flush_some,do_close=False)',
                            'if(v4 or not v3 or self.total_outbufs_len >= self.adj.send_bytes){',
                            'R:total_outbufs_len',
                            'call:self.server.pull_trigger()',
                            '}',
                            '}',
                            '}',
                            'return',
                            '}',
                            'return'],
 'dispatcher.close': ['(self)',
                      'W:connected',
                      'call:self.del_channel()',
                      'if(self.socket is not None){',
                      'try{',
                      'call:self.socket.close()',
                      '}',
                      'except(OSError){',
                      'if(v1.args[0] not in (ENOTCONN, EBADF)){',
                      'raise()',
                      '}',
                      '}',
                      '}'],
 'dispatcher.recv': ['(self,buffer_size)',
                     'try{',
                     'call:self.socket.recv()',
                     'if(not v1){',
                     'call:self.handle_close()',
                     'return',
                     '}',
                     'else{',
                     'return',
                     '}',
                     '}',
                     'except(OSError){',
                     'if(v2.args[0] in _DISCONNECTED){',
                     'call:self.handle_close()',
                     'return',
                     '}',
                     'else{',
                     'raise()',
                     '}',
                     '}'],
 'dispatcher.send': ['(self,data,do_close=True)',
                     'try{',
                     'call:self.socket.send()',
                     'return',
                     '}',
                     'except(OSError){',
                     'if(v2.args[0] == EWOULDBLOCK){',
                     'return',
                     '}',
                     'else{',
                     'if(v2.args[0] in _DISCONNECTED){',
                     'if(do_close){',
                     'call:self.handle_close()',
                     '}',
                     'return',
                     '}',
                     'else{',
                     'raise()',
                     '}',
                     '}',
                     '}']}


def shape_audit(src_dir):
    """-> list of (method, detail) differences between the source and EXPECTED_SHAPE"""
    now = method_shapes(src_dir)
    diffs = []
    for k in sorted(set(now) | set(EXPECTED_SHAPE)):
        a, b = EXPECTED_SHAPE.get(k), now.get(k)
        if a == b:
            continue
        if a is None or b is None:
            diffs.append((k, "method %s" % ("disappeared" if b is None else "is new")))
            continue
        i = 0
        while i < min(len(a), len(b)) and a[i] == b[i]:
            i += 1
        diffs.append((k, "token %d: expected %r, source has %r" % (
            i, a[i] if i < len(a) else "<end>", b[i] if i < len(b) else "<end>")))
    return diffs


# ---------------------------------------------------------------------------
# scenarios

def make_request(i, close=False, http10=False):
    head = "GET /r%d HTTP/%s\r\nHost: x\r\n" % (i, "1.0" if http10 else "1.1")
    if close:
        head += "Connection: close\r\n"
    return (head + "\r\n").encode()


def make_app(reqs):
    """reqs: list of {"chunks": [sizes], "close": bool}; request i is GET /r<i>; chunk j of request i
    consists of the byte chr(97 + (3*i+j) % 26)"""
    bodies = {}
    for i, r in enumerate(reqs):
        bodies["/r%d" % i] = [bytes([97 + (3 * i + j) % 26]) * n for j, n in enumerate(r["chunks"])]

    def app(environ, start_response):
        chunks = bodies.get(environ.get("PATH_INFO"), [b"?"])
        start_response("200 OK", [("Content-Length", str(sum(len(c) for c in chunks)))])
        return list(chunks)
    return app


def build_world(scn, schedule=(), policy=None, max_steps=None):
    reqs = scn["reqs"]
    script = []
    for st in scn["script"]:
        if st[0] == "send":
            r = reqs[st[1]]
            script.append(("send", make_request(st[1], close=r.get("close", False))))
        elif st[0] == "wait_wire":
            script.append(("wait_wire", st[1]))
        else:
            script.append((st[0],))
    plan = [tuple(x) if isinstance(x, list) else x for x in scn.get("plan", [])]
    w = FlowWorld(make_app(reqs), script, schedule=schedule, policy=policy, adj_kw=dict(scn["adj"]),
                  n_workers=scn.get("workers", 1), send_plan=plan, granularity=scn.get("gran", "locks"),
                  max_steps=max_steps or scn.get("max_steps", 1500), sndbuf=scn.get("sndbuf", 1 << 16))
    w.strbuf_limit = scn.get("strbuf_limit")
    return w


def policy_of(spec):
    if spec is None:
        return None
    kind = spec[0]
    if kind == "random":
        return RandomPolicy(random.Random(spec[1]), stay=spec[2])
    if kind == "pct":
        return PCTPolicy(random.Random(spec[1]), spec[2], spec[3])
    return None


# ---------------------------------------------------------------------------
# the C12 monitors on a finished real run

def monitors(world, verdict):
    """-> list of (key, kf_class or None, text) ; empty = the run satisfies C12"""
    out = []
    adj = world.adj
    hw, sb = adj.outbuf_high_watermark, adj.send_bytes
    sched = world.sched
    ev = sched.events
    # (a) bound: bytes held <= high_watermark + size of the last append ("append" notes: total_outbufs_len += n)
    last = 0      # size of the last append
    cur = 0       # size of the write_soon call in progress (its append may or may not have happened)
    worst = None
    for i, (th, kind, detail) in enumerate(ev):
        if kind == "append":
            last = detail
        elif kind == "ws_call":
            cur = detail
        elif kind in ("ws_ret", "ws_raise"):
            cur = 0
        sn = sched.snaps.get(i)
        allowed = hw + max(last, cur)
        if sn is not None and sn["c"] and sn["p"] > allowed:
            if worst is None or sn["p"] - allowed > worst[0]:
                worst = (sn["p"] - allowed, sn["p"], max(last, cur))
    sn = getattr(world, "snap_final", None)
    if sn is not None and sn["c"] and sn["p"] > hw + max(last, cur) and worst is None:
        worst = (sn["p"] - hw - max(last, cur), sn["p"], max(last, cur))
    if worst is not None:
        out.append(("bound", None, "bytes held %d > high_watermark %d + last write %d" % (worst[1], hw, worst[2])))
    # (a') accounting across buffer representations: whenever nobody holds outbuf_lock and the
    #      connection is open, total_outbufs_len == sum(len(outbuf)) == bytes appended - bytes sent
    appended = sent = 0
    acct = None
    for i, (th, kind, detail) in enumerate(ev):
        if kind == "append":
            appended += detail
        elif kind == "wire":
            sent += len(detail) // 2
        elif kind == "sock_send" and detail == 0 and acct is None:
            sn0 = sched.snaps.get(i)
            if sn0 is not None and sn0["t"] > 0:
                acct = ("empty-send", "send() called with an EMPTY chunk while total_outbufs_len = %d: an output buffer claims bytes it cannot deliver" % sn0["t"])
        sn = sched.snaps.get(i)
        if sn is not None and sn["c"] and sn["ol"] == "-" and acct is None:
            if not (sn["t"] == sn["p"] == appended - sent):
                acct = ("accounting", "total_outbufs_len=%d, the outbufs hold %d bytes, appended-sent=%d (outbuf lock free, connection open)" % (
                    sn["t"], sn["p"], appended - sent))
    if acct is not None:
        out.append((acct[0], None, acct[1]))
    fin = getattr(world, "snap_final", None)
    if fin is None:
        return out
    # (e) nothing is left behind: no task, client reading, connection open, nobody parked -> everything was sent
    if fin["c"] and fin["n"] == 0 and fin["rd"] and not fin["gn"] and not fin["park"] and fin["ol"] == "-" \
            and (fin["t"] != 0 or fin["p"] != 0) and (verdict == "blocked" or (verdict == "overrun" and _no_progress(world))):
        out.append(("left-over", None, "the run ended with total_outbufs_len=%d and %d bytes in the outbufs although the client reads and no task runs" % (fin["t"], fin["p"])))
    # (b) release / abort at the end of the run
    if fin["park"]:
        progress_stopped = verdict == "blocked" or (verdict == "overrun" and _no_progress(world))
        if not fin["c"]:
            if verdict == "blocked":
                out.append(("abort-parked-after-close", None,
                            "a worker waits on outbuf_lock although connected is False (channel in map: %s, requests: %d)" % (fin["im"], fin["n"])))
        elif progress_stopped and fin["rd"] and not fin["gn"]:
            out.append(("release-parked-%s" % ("quiescent" if verdict == "blocked" else "spinning"), None,
                        "a worker waits on outbuf_lock for ever: total=%d high_watermark=%d send_bytes=%d, the client reads, %s" % (
                            fin["t"], hw, sb, "the I/O thread is blocked in select" if verdict == "blocked" else "the I/O thread spins without sending")))
    # (c) no write is accepted once connected is False
    idx = sorted(sched.snaps)
    import bisect
    for i, (th, kind, detail) in enumerate(ev):
        if kind == "ws_ret" and detail:
            j = bisect.bisect_right(idx, i)
            sn = sched.snaps[idx[j]] if j < len(idx) else fin
            if sn is not None and not sn["c"]:
                out.append(("accepted-after-close", None, "write_soon accepted %d bytes although the connection was closed" % detail))
                break
    # (d) order / integrity of the wire
    acc = b"".join(getattr(world, "accepted_final", world.accepted))
    inflight = getattr(world, "inflight_final", world.inflight)
    wire = getattr(world, "wire_final", bytes(world.wire))
    if not (acc + inflight).startswith(wire):
        out.append(("wire-not-prefix", None, "the bytes on the wire are not a prefix of the accepted output"))
    elif fin["c"] and fin["t"] == 0 and fin["p"] == 0 and fin["ol"] == "-" and not inflight and wire != acc:
        out.append(("wire-incomplete", None, "total_outbufs_len is 0 but %d accepted bytes never reached the wire" % (len(acc) - len(wire))))
    return out


def _no_progress(world):
    """overrun: did the second half of the run move any byte or change the abstract state?"""
    sched = world.sched
    idx = sorted(i for i in sched.snaps if sched.snaps[i] is not None)
    if len(idx) < 40:
        return False
    half = idx[len(idx) // 2:]
    keys = ("t", "p", "c", "wc", "cwf", "n", "park")
    first = tuple(sched.snaps[half[0]][k] for k in keys)
    return all(tuple(sched.snaps[i][k] for k in keys) == first for i in half)


# re-synchronised after /repo fixes b1d94ba and 1a765e6: service() reads getattr(task.request, 'path', None) in its two log
# lines and wraps the ladder's `task.service()  # must not fail` in one more handler (except BaseException: log;
# task.close_on_finish = True).  Neither touches a shared channel attribute, a lock or a call on a shared object; the
# worker now reaches the tail of service() where it used to leave it with the exception (C09_escape states the new flow).
EXPECTED_SHAPE['HTTPChannel.service'] = ['(self)',
 'R:requests',
 'if(v1.error){',
 'call:self.error_task_class()',
 '}',
 'else{',
 'call:self.task_class()',
 '}',
 'try{',
 'if(self.connected and (not self.will_close)){',
 'R:connected',
 'R:will_close',
 'call:v2.service()',
 '}',
 'else{',
 '}',
 '}',
 'except(ClientDisconnected){',
 '}',
 'except(BaseException){',
 'if(not v2.wrote_header){',
 'if(self.adj.expose_tracebacks){',
 '}',
 'else{',
 "let:v3='The server encountered an unexpected internal server error'",
 '}',
 'call:self.parser_class()',
 'try{',
 '}',
 'except(KeyError){',
 'pass',
 '}',
 'call:self.error_task_class()',
 'try{',
 'call:v2.service()',
 '}',
 'except(ClientDisconnected){',
 '}',
 'except(BaseException){',
 '}',
 '}',
 'else{',
 '}',
 '}',
 'if(v2.close_on_finish){',
 'with(self.requests_lock){',
 'W:close_when_flushed',
 'for(self.requests){',
 'R:requests',
 'call:v1.close()',
 '}',
 'W:requests',
 '}',
 '}',
 'else{',
 'if(len(self.requests) > 1){',
 'R:requests',
 'call:self._flush_outbufs_below_high_watermark()',
 '}',
 'if(self.current_outbuf_count > 0){',
 '}',
 'call:v1.close()',
 'with(self.requests_lock){',
 'R:requests',
 'call:self.requests.pop(0)',
 'if(self.connected and self.requests){',
 'R:connected',
 'R:requests',
 'call:self.server.add_task()',
 '}',
 'else{',
 'if(self.connected and self.request is not None and self.request.expect_continue and self.request.headers_finished '
 'and (not self.sent_continue)){',
 'R:connected',
 'call:self.send_continue(do_close=False)',
 '}',
 '}',
 '}',
 '}',
 'if(self.connected){',
 'R:connected',
 'call:self.server.pull_trigger()',
 '}']
