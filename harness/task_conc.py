"""C09, the CONCURRENT half of the search: who closes what the application
returned when the worker that hands a `wsgi.file_wrapper` file over to the
channel races with the I/O thread that tears the connection down.

checks/C09.py's K-task drives one task at a time against a recording channel:
it decides the sequential statement (close() exactly once, wherever an exception
is injected) but cannot see an interleaving.  Here the REAL HTTPChannel, the
REAL WSGITask, the REAL ThreadedTaskDispatcher and the REAL wasyncore.poll run
as logical threads of the deterministic scheduler (harness/chan_world.py,
harness/sched.py); the application returns instrumented objects

    file      seekable file in environ["wsgi.file_wrapper"]  -> handed over to the channel
    file0     seekable, empty                                 -> NOT handed over (prepare() == 0), iterated
    pipe      file object without seek/tell in the wrapper    -> iterated by the task
    unseek    file object whose seekable() is False           -> iterated by the task
    gen       iterator with close()
    list      list subclass with close()  (has __len__)
    plain     a plain list (no close(); filler requests)

that count their close() calls and remember the call site (WSGITask.execute's
finally / HTTPChannel._flush_some when drained / HTTPChannel.handle_close at
teardown) and the closing thread.  Clients disconnect before the head, inside
the head, between head and file, in mid-file, after the response, never, or stop
reading; send plans accept a few bytes, nothing, or fail with an errno.

The monitor (the executable form of C09's close clause) is evaluated on the
state at QUIESCENCE (before the harness unwinds the threads):

  M1  no object is closed more than once (except: handle_close() running twice in the I/O thread closes
      every queued buffer twice -- counted, see `monitor`);
  M2  an object the task iterates (everything but a handed-over file) is closed
      exactly once as soon as its service() has returned;
  M3  a handed-over file is closed exactly once as soon as it has left the
      channel's outbufs (drained) or the channel has been torn down
      (connected == False / out of the socket map); while it is still queued on
      a live channel it is open (closed 0 times);
  M4  when the client has disconnected the channel is out of the socket map and
      its socket is closed;
  M5  when the client has disconnected no worker is parked anywhere but in the
      dispatcher's queue wait (nobody waits for a flush that cannot come);
  M6  no logical thread died of an escaping exception and the run did not
      overrun its step bound.

A failing run is replayed exactly by (scenario, choices)."""
import errno
import hashlib
import json
import logging
import sys

from harness.chan_world import World, CHAN_FD
from harness.sched import Op
from harness.sched import RandomPolicy, PCTPolicy, explore  # noqa: F401  (re-exported for checks/C09.py)

logging.disable(logging.CRITICAL)

SITES = ("execute", "_flush_some", "handle_close")
TASK_KINDS = ("file0", "pipe", "unseek", "gen", "list")
ERRNOS = {"EPIPE": errno.EPIPE, "ECONNRESET": errno.ECONNRESET, "ENOTCONN": errno.ENOTCONN,
          "ECONNABORTED": errno.ECONNABORTED, "EIO": errno.EIO, "ENOBUFS": errno.ENOBUFS}


# ----------------------------------------------------------------------------
# a fairness wrapper for schedule policies


class Fair:
    """waitress's I/O thread busy-polls while a worker holds outbuf_lock (writable() is true, the try-lock
    fails, poll returns at once).  A policy that keeps preferring the I/O thread then never lets the worker
    release the lock: an unfair schedule that no real scheduler produces and that never becomes quiescent.
    This wrapper lets the inner policy decide unless the chosen thread has gone through `spin` select()
    calls in a row with no other thread running in between although another thread is enabled; then the
    next enabled thread runs one step.  Decisions stay recorded in Scheduler.choices, so replay is exact."""

    def __init__(self, inner=None, spin=3):
        self.inner = inner
        self.spin = spin
        self.forced = 0

    def __call__(self, sched, enabled, cont):
        if self.inner is None:
            idx = cont if cont is not None else 0
        else:
            idx = self.inner(sched, enabled, cont) % len(enabled)
        if len(enabled) > 1:
            t = enabled[idx]
            n = 0
            ev = sched.events
            for k in range(len(ev) - 1, max(-1, len(ev) - 400), -1):
                if ev[k][0] != t.name:
                    break
                if ev[k][1] == "select":
                    n += 1
                    if n >= self.spin:
                        break
            if n >= self.spin:
                self.forced += 1
                return (idx + 1) % len(enabled)
        return idx


# ----------------------------------------------------------------------------
# instrumented objects


class _Counted:
    def _init_count(self, world):
        self._w = world
        self.closes = 0
        self.sites = []

    def _count_close(self):
        self.closes += 1
        site = None
        f = sys._getframe(2)
        hops = []
        while f is not None and len(hops) < 12:
            n = f.f_code.co_name
            hops.append(n)
            if n in SITES:
                site = n
                break
            f = f.f_back
        me = self._w.sched.me() if self._w is not None else None
        self.sites.append((site or "other:" + "/".join(hops[:3]), me.name if me else "-"))


class SeekFile(_Counted):
    """Seekable file object (read/seek/tell/seekable/close) over bytes."""

    def __init__(self, world, data):
        self._init_count(world)
        self.data = data
        self.pos = 0
        self.closed = False

    def seekable(self):
        return True

    def tell(self):
        return self.pos

    def seek(self, off, whence=0):
        if whence == 0:
            self.pos = off
        elif whence == 1:
            self.pos += off
        else:
            self.pos = len(self.data) + off
        return self.pos

    def read(self, n=-1):
        if self.closed:
            raise ValueError("I/O operation on closed file")
        if n is None or n < 0:
            n = len(self.data) - self.pos
        r = self.data[self.pos:self.pos + n]
        self.pos += len(r)
        return r

    def close(self):
        self._count_close()
        self.closed = True


class PipeFile(_Counted):
    """File object without seek/tell (a pipe, a socket file): read/close only."""

    def __init__(self, world, data):
        self._init_count(world)
        self.data = data
        self.pos = 0
        self.closed = False

    def read(self, n=-1):
        if self.closed:
            raise ValueError("I/O operation on closed file")
        if n is None or n < 0:
            n = len(self.data) - self.pos
        r = self.data[self.pos:self.pos + n]
        self.pos += len(r)
        return r

    def close(self):
        self._count_close()
        self.closed = True


class UnseekFile(PipeFile):
    """Has seek/tell but says it is not seekable."""

    def seekable(self):
        return False

    def tell(self):  # pragma: no cover
        raise OSError("not seekable")

    def seek(self, *a):  # pragma: no cover
        raise OSError("not seekable")


class GenIter(_Counted):
    def __init__(self, world, chunks):
        self._init_count(world)
        self.chunks = list(chunks)
        self.i = 0

    def __iter__(self):
        return self

    def __next__(self):
        if self.i >= len(self.chunks):
            raise StopIteration
        self.i += 1
        return self.chunks[self.i - 1]

    def close(self):
        self._count_close()


class ListIter(list, _Counted):
    def __init__(self, world, chunks):
        list.__init__(self, chunks)
        self._init_count(world)

    def close(self):
        self._count_close()


# ----------------------------------------------------------------------------
# scenarios


class Req:
    """kind: see the module docstring; size: bytes of content; block: block_size given to the
    file wrapper / chunk size of gen and list; cl: Content-Length the application declares
    (None: none; for files it may be smaller or larger than the file); v10: HTTP/1.0 request;
    close: `Connection: close`; gate: "client-gone" = the application is slow: it returns only when the
    client has closed its side (a labelled operation of the worker that is enabled from then on), so that
    the hand-over and the teardown start at the same moment without costing the explorer a pre-emption."""

    def __init__(self, path, kind="file", size=24, block=8, cl=None, v10=False, close=False, gate=None):
        self.path, self.kind, self.size, self.block, self.cl, self.v10, self.close = path, kind, size, block, cl, v10, close
        self.gate = gate

    def bytes(self):
        h = "GET %s HTTP/%s\r\nHost: x\r\n" % (self.path, "1.0" if self.v10 else "1.1")
        if self.close:
            h += "Connection: close\r\n"
        return (h + "\r\n").encode()

    def content(self):
        pat = (self.path.encode() + b"-0123456789abcdef")
        return (pat * (self.size // len(pat) + 1))[:self.size]

    def to_json(self):
        return {"path": self.path, "kind": self.kind, "size": self.size, "block": self.block, "cl": self.cl,
                "v10": self.v10, "close": self.close, "gate": self.gate}

    @staticmethod
    def from_json(d):
        return Req(d["path"], d["kind"], d["size"], d["block"], d["cl"], d["v10"], d["close"], d.get("gate"))


class Scenario:
    """script: the client's steps (["send", bytes] | ["close"] | ["stall"] | ["resume"] | ["wait_wire", n]);
    send_plan: per send() of the server: int (accept at most n), None (all), ["err", "EPIPE"]..."""

    def __init__(self, reqs, script, send_plan=(), adj=None, n_workers=1, sndbuf=1 << 16, granularity="locks",
                 max_steps=3000, disc="?"):
        self.reqs = list(reqs)
        self.script = [list(s) for s in script]
        self.send_plan = list(send_plan)
        self.adj = dict(adj or {})
        self.adj.setdefault("send_bytes", 1)
        self.n_workers = n_workers
        self.sndbuf = sndbuf
        self.granularity = granularity
        self.max_steps = max_steps
        self.disc = disc

    def client_script(self):
        return [tuple(s) for s in self.script]

    def plan(self):
        out = []
        for p in self.send_plan:
            if isinstance(p, (list, tuple)):
                out.append(("err", ERRNOS[p[1]]))
            else:
                out.append(p)
        return out

    def to_json(self):
        return {"reqs": [r.to_json() for r in self.reqs],
                "script": [[s[0]] + [x.hex() if isinstance(x, (bytes, bytearray)) else x for x in s[1:]] for s in self.script],
                "send_plan": [list(p) if isinstance(p, (list, tuple)) else p for p in self.send_plan],
                "adj": self.adj, "n_workers": self.n_workers, "sndbuf": self.sndbuf, "granularity": self.granularity,
                "max_steps": self.max_steps, "disc": self.disc}

    @staticmethod
    def from_json(d):
        script = [[s[0]] + [bytes.fromhex(x) if s[0] == "send" else x for x in s[1:]] for s in d["script"]]
        return Scenario([Req.from_json(r) for r in d["reqs"]], script, d["send_plan"], d["adj"], d["n_workers"], d["sndbuf"],
                        d.get("granularity", "locks"), d.get("max_steps", 3000), d.get("disc", "?"))

    def with_granularity(self, g):
        d = self.to_json()
        d["granularity"] = g
        return Scenario.from_json(d)


class ConcWorld(World):
    def __init__(self, scn, schedule=(), policy=None):
        World.__init__(self, self._the_app, scn.client_script(), schedule=schedule, policy=policy, adj_kw=scn.adj,
                       n_workers=scn.n_workers, send_plan=scn.plan(), granularity=scn.granularity,
                       max_steps=scn.max_steps, sndbuf=scn.sndbuf)
        self.scn = scn
        self.table = {r.path: r for r in scn.reqs}
        self.objs = []          # {"path", "kind", "obj", "wrapper", "thread"}
        self.end = None

    # the WSGI application
    def _the_app(self, environ, start_response):
        r = self.table[environ["PATH_INFO"]]
        data = r.content()
        me = self.sched.me()
        rec = {"path": r.path, "kind": r.kind, "obj": None, "wrapper": None, "thread": me.name if me else "-",
               "handed": False}
        headers = [("Content-Type", "application/octet-stream")]
        if r.cl is not None:
            headers.append(("Content-Length", str(r.cl)))
        if r.kind in ("file", "file0"):
            f = SeekFile(self, data if r.kind == "file" else b"")
        elif r.kind == "pipe":
            f = PipeFile(self, data)
        elif r.kind == "unseek":
            f = UnseekFile(self, data)
        else:
            f = None
        chunks = [data[i:i + max(1, r.block)] for i in range(0, len(data), max(1, r.block))]
        if f is not None:
            rec["obj"] = f
            ret = environ["wsgi.file_wrapper"](f, max(1, r.block))
            rec["wrapper"] = ret
        elif r.kind == "gen":
            ret = rec["obj"] = GenIter(self, chunks)
        elif r.kind == "list":
            ret = rec["obj"] = ListIter(self, chunks)
        else:
            ret = chunks
        self.objs.append(rec)
        start_response("200 OK", headers)
        if r.gate == "client-gone":
            self.sched.yield_(Op("app:gate", r.path, enabled=lambda: self.sock.client_gone))
        return ret

    def _make_channel_class(self):
        base = World._make_channel_class(self)
        world = self
        from waitress.buffers import ReadOnlyFileBasedBuffer

        class ConcChannel(base):
            def write_soon(self, data):
                isf = isinstance(data, ReadOnlyFileBasedBuffer)
                if isf:
                    world.sched.note("write_soon_file", len(data))
                r = base.write_soon(self, data)
                if isf:
                    for rec in world.objs:
                        if rec["wrapper"] is data:
                            rec["handed"] = True
                    world.sched.note("handed_over", r)
                return r

        return ConcChannel

    def quiescent_state(self):
        # taken by World.run right after the scheduler stopped and BEFORE the threads are unwound (service()
        # catches BaseException, hence also the harness's ThreadKilled: unwinding closes things)
        if self.end is None:
            ch = self.channel
            outbufs = list(object.__getattribute__(ch, "outbufs")) if ch is not None else []
            self.end = {
                "objs": [{"path": o["path"], "kind": o["kind"], "thread": o["thread"], "handed": o["handed"],
                          "closes": o["obj"].closes if o["obj"] is not None else None,
                          "sites": list(o["obj"].sites) if o["obj"] is not None else [],
                          "queued": any(b is o["wrapper"] for b in outbufs) if o["wrapper"] is not None else False}
                         for o in self.objs],
                "blocked": self.sched.blocked(),
                "crashes": [list(map(str, e)) for e in self.sched.events if e[1] == "crash"],
                "io_error": repr(self.io_error) if self.io_error else None,
            }
        return World.quiescent_state(self)


def run_world(scn, schedule=(), policy=None, fair=True):
    if fair:
        policy = Fair(policy)
    w = ConcWorld(scn, schedule=schedule, policy=policy)
    w.run()
    return w


# ----------------------------------------------------------------------------
# the monitor


def _service_done(world, rec):
    """service() of the request that produced `rec` has returned."""
    seen = False
    for th, kind, detail in world.sched.events:
        if kind == "app_call" and detail == rec["path"] and th == rec["thread"]:
            seen = True
        elif seen and kind == "service_end" and th == rec["thread"]:
            return True
    return False


def monitor(world):
    """-> list of (key, text): C09's close clause on one real concurrent run, at quiescence."""
    bad = []
    end = world.end
    fin = world.final
    if world.verdict == "overrun" or world.sched.overrun:
        return [("overrun", "M6: the run did not reach quiescence within %d steps" % world.scn.max_steps)]
    if end is None:
        return [("nostate", "M6: no quiescent state was recorded")]
    if end["crashes"] or end["io_error"]:
        bad.append(("crash", "M6: a thread died of an escaping exception: %r %r" % (end["crashes"][:2], end["io_error"])))
    torn = (not fin["connected"]) or (not fin["in_map"])
    gone = world.sock.client_gone
    qcv = world.dispatcher.queue_cv.name
    for o in end["objs"]:
        if o["closes"] is None:
            continue
        who = "%s %s" % (o["kind"], o["path"])
        if o["closes"] > 1 and not (o["handed"] and all(s == ("handle_close", "io") for s in o["sites"])):
            # (handle_close() can run twice within one handle_write -- a send error with do_close=True, then
            # close_when_flushed -> will_close -> handle_close again -- and closes every queued buffer again:
            # counted as `repeated_teardown_closes`, not a violation of "closed once the connection is torn down")
            bad.append(("twice", "M1: %s closed %d times: %r" % (who, o["closes"], o["sites"])))
            continue
        done = _service_done(world, o)
        if o["handed"]:
            if o["queued"] and not torn:
                if o["closes"] != 0:
                    bad.append(("early", "M3: handed-over %s is still queued on a live channel but was closed: %r" % (who, o["sites"])))
            elif o["closes"] < 1:
                bad.append(("leak-handed", "M3: %s was handed over to the channel (write_soon returned, the task does not "
                            "close it), the channel is %s, the file is %s -- and close() was called %d times (nobody closes it)"
                            % (who, "torn down (connected=%s, in_map=%s)" % (fin["connected"], fin["in_map"]) if torn else "alive",
                               "still in channel.outbufs" if o["queued"] else "out of channel.outbufs (drained)", o["closes"])))
        elif done and o["closes"] != 1:
            bad.append(("leak-task", "M2: service() of %s returned and close() was called %d times" % (who, o["closes"])))
        elif not done and o["closes"] == 1 and o["sites"] and o["sites"][0][0] != "execute":
            bad.append(("foreign-close", "M2: %s closed by %r while its task still runs" % (who, o["sites"])))
    if gone:
        if fin["in_map"] or not world.sock.closed:
            bad.append(("not-torn-down", "M4: the client disconnected, the run is quiescent, and the channel is still in the "
                        "socket map (in_map=%s, socket closed=%s, connected=%s, total_outbufs_len=%s)"
                        % (fin["in_map"], world.sock.closed, fin["connected"], fin["total_outbufs_len"])))
        for name, kind, detail in end["blocked"]:
            if name.startswith("waitress-") and not (kind == "wake" and isinstance(detail, list) and detail and detail[0] == qcv):
                bad.append(("parked", "M5: the client disconnected and worker %s is parked at %s %r" % (name, kind, detail)))
    return bad


def stats_of(world):
    """Evidence counters of one run."""
    end = world.end or {"objs": []}
    ev = world.sched.events
    ob = None
    if world.channel is not None:
        ob = object.__getattribute__(world.channel, "outbuf_lock").lock.name
    # the race window: the worker has entered write_soon(<file wrapper>) and has not yet acquired outbuf_lock
    # when the I/O thread tears the connection down
    window = False
    start = None
    for th, kind, detail in ev:
        if kind == "write_soon_file":
            start = th
        elif start is not None and th == start and kind == "acquire" and detail == ob:
            start = None
        elif start is not None and th != start and ((kind == "decide" and detail and detail[0] == "connected") or kind == "map_del"):
            window = True
            start = None
    sites = {}
    for o in end["objs"]:
        for s, th in o["sites"]:
            k = "%s by %s" % (s, "io" if th == "io" else "worker")
            sites[k] = sites.get(k, 0) + 1
    return {"handed": sum(1 for o in end["objs"] if o["handed"]),
            "repeated_teardown": sum(1 for o in end["objs"] if o["handed"] and (o["closes"] or 0) > 1),
            "objects": [o["kind"] for o in end["objs"]],
            "sites": sites, "window": window,
            "raised_cd": any(e[1] == "write_soon_file" for e in ev) and sum(1 for e in ev if e[1] == "write_soon_file") >
            sum(1 for e in ev if e[1] == "handed_over")}


def trace_hash(world):
    h = hashlib.sha1()
    h.update(json.dumps(world.scn.to_json(), sort_keys=True).encode())
    h.update(repr(world.sched.choices).encode())
    return h.hexdigest()[:16]


# ----------------------------------------------------------------------------
# the oracle run (no disconnect, default schedule): where the head ends, how long the response is

_LONE = {}


def lone(reqs, adj=None):
    key = json.dumps([r.to_json() for r in reqs] + [adj or {}], sort_keys=True)
    if key not in _LONE:
        reqs = [Req.from_json(dict(r.to_json(), gate=None)) for r in reqs]     # the lone run has no disconnect: no gate
        scn = Scenario(reqs, [["send", b"".join(r.bytes() for r in reqs)]], adj=adj)
        w = run_world(scn)
        wire = w.wire
        head = wire.find(b"\r\n\r\n") + 4
        _LONE[key] = (head, len(wire), len(w.sched.choices))
    return _LONE[key]


# ----------------------------------------------------------------------------
# generators (all randomness from the rng handed in)

DISC_POINTS = ("before-head", "in-head", "between", "mid-file", "after", "never", "stall", "stall-close", "late-request")


def make_script(reqs, disc, adj=None, rng=None):
    stream = b"".join(r.bytes() for r in reqs)
    head, total, _ = lone(reqs, adj)
    if disc == "before-head":
        return [["send", stream], ["close"]]
    if disc == "in-head":
        return [["send", stream], ["wait_wire", max(1, head // 2)], ["close"]]
    if disc == "between":
        return [["send", stream], ["wait_wire", head], ["close"]]
    if disc == "mid-file":
        k = (total - head) // 2 if rng is None else rng.randint(1, max(1, total - head - 1))
        return [["send", stream], ["wait_wire", head + max(1, k)], ["close"]]
    if disc == "after":
        return [["send", stream], ["wait_wire", total], ["close"]]
    if disc == "never":
        return [["send", stream]]
    if disc == "stall":
        return [["stall"], ["send", stream]]
    if disc == "stall-close":
        return [["stall"], ["send", stream], ["close"]]
    if disc == "late-request":
        # the requests arrive one by one, the client leaves after the first response began
        first = reqs[0].bytes()
        return [["send", first], ["wait_wire", 1], ["send", stream[len(first):]], ["close"]]
    raise ValueError(disc)


def tiny_scenarios():
    """The smallest hand-over scenarios, for bounded exhaustive exploration."""
    r = Req("/f", "file", size=10, block=8)
    out = []
    for disc in ("before-head", "between"):
        out.append(("tiny-file-" + disc, Scenario([r], make_script([r], disc), disc=disc, max_steps=1500)))
    # a slow application that returns the moment the client leaves, on a channel that still polls for input
    # (lookahead 1): the I/O thread's handle_read -> handle_close and the worker's hand-over start together
    g = Req("/f", "file", size=10, block=8, gate="client-gone")
    out.append(("tiny-file-gated", Scenario([g], [["send", g.bytes()], ["close"]], adj={"channel_request_lookahead": 1},
                                            disc="before-head", max_steps=1500)))
    return out


def directed_scenarios():
    out = []
    f = Req("/f", "file", size=40, block=8)
    for disc in DISC_POINTS:
        if disc == "late-request":
            continue
        out.append(("file-" + disc, Scenario([f], make_script([f], disc), sndbuf=16, disc=disc)))
    out.append(("file-partial-sends", Scenario([f], make_script([f], "mid-file"), send_plan=[5, 0, 7, 0, 3], sndbuf=64, disc="mid-file")))
    out.append(("file-epipe-on-head", Scenario([f], make_script([f], "never"), send_plan=[["err", "EPIPE"]], disc="never")))
    out.append(("file-reset-mid-file", Scenario([f], make_script([f], "never"), send_plan=[None, 8, ["err", "ECONNRESET"]], sndbuf=16, disc="never")))
    out.append(("file-eio", Scenario([f], make_script([f], "never"), send_plan=[3, ["err", "EIO"]], sndbuf=16, disc="never")))
    out.append(("file-big-send-bytes", Scenario([f], make_script([f], "before-head", {"send_bytes": 18000}),
                                                adj={"send_bytes": 18000}, disc="before-head")))
    out.append(("file-watermark", Scenario([Req("/f", "file", size=60, block=8)],
                                           make_script([Req("/f", "file", size=60, block=8)], "stall-close", {"outbuf_high_watermark": 20}),
                                           adj={"outbuf_high_watermark": 20}, disc="stall-close")))
    for kind in ("pipe", "unseek", "gen", "list", "file0"):
        r = Req("/p", kind, size=30, block=7)
        for disc in ("before-head", "mid-file", "never"):
            if kind == "file0" and disc == "mid-file":
                continue
            out.append(("%s-%s" % (kind, disc), Scenario([r], make_script([r], disc), sndbuf=16, disc=disc)))
    g = Req("/g", "gen", size=60, block=10)
    out.append(("gen-watermark-stall-close", Scenario([g], make_script([g], "stall-close", {"outbuf_high_watermark": 15}),
                                                      adj={"outbuf_high_watermark": 15}, disc="stall-close")))
    a, b = Req("/a", "file", size=24, block=8), Req("/b", "list", size=12, block=6)
    for disc in ("between", "after", "late-request", "never"):
        out.append(("pipeline-file-list-" + disc, Scenario([a, b], make_script([a, b], disc, {"channel_request_lookahead": 1}),
                                                           adj={"channel_request_lookahead": 1}, n_workers=2, sndbuf=16, disc=disc)))
    c, d = Req("/c", "gen", size=12, block=6), Req("/d", "file", size=24, block=8, cl=10)
    out.append(("pipeline-gen-file-mid", Scenario([c, d], make_script([c, d], "mid-file"), sndbuf=16, disc="mid-file")))
    for kind in ("file", "gen"):
        gq = Req("/q", kind, size=24, block=8, gate="client-gone")
        for la in (0, 1):
            out.append(("%s-gated-lookahead%d" % (kind, la), Scenario([gq], [["send", gq.bytes()], ["close"]],
                                                                       adj={"channel_request_lookahead": la}, sndbuf=16, disc="before-head")))
    e = Req("/e", "file", size=24, block=8, v10=True)
    out.append(("file-http10", Scenario([e], make_script([e], "never"), sndbuf=16, disc="never")))
    out.append(("file-conn-close", Scenario([Req("/e", "file", size=24, block=8, close=True)],
                                            make_script([Req("/e", "file", size=24, block=8, close=True)], "after"), sndbuf=16, disc="after")))
    return out


def gen_scenario(rng):
    n = rng.choice([1, 1, 1, 2, 2, 3])
    reqs = []
    for i in range(n):
        kind = rng.choice(["file", "file", "file", "pipe", "unseek", "gen", "list", "file0", "plain"])
        size = rng.choice([1, 9, 24, 40, 70])
        cl = None
        k = rng.random()
        if kind == "file" and k < 0.3:
            cl = rng.choice([max(1, size // 2), size, size + 5])
        elif kind in ("gen", "list", "plain") and k < 0.4:
            cl = size
        reqs.append(Req("/" + "abc"[i], kind, size=size, block=rng.choice([3, 8, 32]), cl=cl,
                        v10=rng.random() < 0.1, close=rng.random() < 0.1))
    adj = {"send_bytes": rng.choice([1, 1, 1, 30, 18000])}
    if rng.random() < 0.3:
        adj["outbuf_high_watermark"] = rng.choice([10, 40, 200])
    if n > 1:
        adj["channel_request_lookahead"] = rng.choice([0, 1, 2])
    disc = rng.choice(DISC_POINTS if n > 1 else DISC_POINTS[:-1])
    if disc in ("before-head", "stall-close") and rng.random() < 0.4:
        rng.choice(reqs).gate = "client-gone"
    plan = []
    for _ in range(rng.randint(0, 5)):
        k = rng.random()
        if k < 0.2:
            plan.append(["err", rng.choice(sorted(ERRNOS))])
        else:
            plan.append(rng.choice([0, 1, 5, 17, None]))
    return Scenario(reqs, make_script(reqs, disc, adj, rng), send_plan=plan, adj=adj, n_workers=rng.choice([1, 2]),
                    sndbuf=rng.choice([8, 16, 64, 1 << 16]), granularity=rng.choice(["locks", "locks", "attrs"]), disc=disc)
