"""K-srv: the REAL waitress.server.create_server / TcpWSGIServer / MultiSocketServer,
the real HTTPChannel (parser, WSGITask, buffers included), the real
wasyncore.loop/poll and the real trigger, driven single-threaded over a fake
kernel (harness/fake_socket.py) and a fake clock (harness/fake_clock.py), against
the model extracted from coq/Model/Server.v.

Injected from outside, by replacing module globals only (restored afterwards):
  waitress.server.time, waitress.channel.time, waitress.wasyncore.time -> FakeTime
  waitress.wasyncore.select -> the fake kernel's select
  waitress.wasyncore.socket -> real socket module with socket() -> FakeListener
The task dispatcher is a recording dummy (`_dispatcher` test shim); an
"application finishes" event runs the real channel.service() synchronously.
"""
import hashlib
import itertools
import logging
import types
import warnings

from harness.fake_clock import FakeTime
from harness.fake_socket import FakeKernel

FD0 = 1000

REQ_HEAD = b"GET /x HTTP/1.1\r\nHost: a\r\n"
REQ_PAD = b"X-Pad: 1\r\n"
REQ_END = {"k": b"\r\n", "c": b"Connection: close\r\n\r\n"}


class DummyDispatcher:
    def __init__(self):
        self.queue = []

    def add_task(self, task):
        self.queue.append(task)

    def shutdown(self, *a, **kw):
        return True

    def set_thread_count(self, n):
        pass


class OwnedLock:
    """threading.Lock that notices a blocking re-acquisition by its owner (which
    would block the single I/O thread for ever): records it and raises instead."""

    def __init__(self, world, name):
        import threading
        self._lock = threading.Lock()
        self._owner = None
        self._world = world
        self._name = name
        self._ident = threading.get_ident

    def acquire(self, blocking=True, timeout=-1):
        if blocking and self._owner == self._ident() and self._lock.locked():
            import traceback
            frames = [f.name for f in traceback.extract_stack()[-9:-1]]
            self._world.deadlocks.append("%s re-acquired by its owner: %s" % (self._name, " > ".join(frames)))
            raise RuntimeError("self-deadlock on %s" % self._name)
        ok = self._lock.acquire(blocking, timeout)
        if ok:
            self._owner = self._ident()
        return ok

    def release(self):
        self._owner = None
        self._lock.release()

    def locked(self):
        return self._lock.locked()

    def __enter__(self):
        self.acquire()
        return self

    def __exit__(self, *a):
        self.release()


class Config:
    FIELDS = ("listeners", "limit", "timeout", "interval", "send_bytes", "lookahead", "sndbuf", "t0", "high_watermark",
              "use_poll")

    def __init__(self, listeners=1, limit=100, timeout=120, interval=30, send_bytes=1, lookahead=0,
                 sndbuf=65536, t0=1000, high_watermark=16777216, use_poll=False):
        self.listeners = listeners
        self.limit = limit
        self.timeout = timeout
        self.interval = interval
        self.send_bytes = send_bytes
        self.lookahead = lookahead
        self.sndbuf = sndbuf
        self.t0 = t0
        # outputs of the histories stay below it (write_soon would block the single thread otherwise)
        self.high_watermark = high_watermark
        # wasyncore.loop(use_poll=True): poll2 / readwrite instead of poll (the model is the same)
        self.use_poll = bool(use_poll)

    def as_dict(self):
        return {k: getattr(self, k) for k in self.FIELDS}

    def init_line(self):
        return "init %d %d %d %d %d %d %d %d %d %d" % (
            self.listeners, self.limit, self.timeout, self.interval, self.send_bytes, self.lookahead,
            self.sndbuf, self.high_watermark, self.t0, FD0)


def sock_str(k):
    rx = "".join(tag for _, tag in k.rx) or "-"
    return "%d/%s/%d%d/%d" % (k.fd, rx, int(k.gone), int(k.reading), k.room)


class World:
    """One real server over the fake kernel."""

    def __init__(self, cfg):
        import waitress.channel
        import waitress.server
        import waitress.wasyncore
        from waitress.channel import HTTPChannel

        self.cfg = cfg
        self.mods = (waitress.server, waitress.channel, waitress.wasyncore)
        self.saved = [(waitress.server, "time", waitress.server.time),
                      (waitress.channel, "time", waitress.channel.time),
                      (waitress.wasyncore, "time", waitress.wasyncore.time),
                      (waitress.wasyncore, "select", waitress.wasyncore.select),
                      (waitress.wasyncore, "socket", waitress.wasyncore.socket),
                      (waitress.server.BaseWSGIServer, "channel_class", waitress.server.BaseWSGIServer.channel_class)]
        self.clock = FakeTime(cfg.t0)
        self.kernel = FakeKernel(first_fd=FD0, conn_room=cfg.sndbuf)
        self.selectmod = self.kernel.select_module(with_poll=cfg.use_poll)
        waitress.server.time = self.clock
        waitress.channel.time = self.clock
        waitress.wasyncore.time = self.clock
        waitress.wasyncore.select = self.selectmod
        waitress.wasyncore.socket = self.kernel.socket_module()
        self.wasyncore = waitress.wasyncore
        self.HTTPChannel = HTTPChannel
        world = self

        class RecordingChannel(HTTPChannel):
            def __init__(self, *a, **kw):
                HTTPChannel.__init__(self, *a, **kw)
                self.requests_lock = OwnedLock(world, "requests_lock")

            def write_soon(self, data):
                n = HTTPChannel.write_soon(self, data)
                if n:
                    world.writes.append(n)
                return n

        waitress.server.BaseWSGIServer.channel_class = RecordingChannel
        self.writes = []
        self.deadlocks = []
        self.next_body = 0
        self.map = {}
        self.dispatcher = DummyDispatcher()
        self.wire_partial = {}     # fd -> a partial request is outstanding on the wire
        self.conns = {}            # fd -> FakeConn
        self.all_channels = {}     # fd -> channel object (also closed ones)

        def app(environ, start_response):
            body = b"x" * world.next_body
            start_response("200 OK", [("Content-Length", str(len(body))), ("Content-Type", "text/plain")])
            return [body]

        listen = " ".join("127.0.0.1:%d" % (8080 + i) for i in range(cfg.listeners))
        with warnings.catch_warnings():
            warnings.simplefilter("ignore")
            self.server = waitress.server.create_server(
                app, map=self.map, _dispatcher=self.dispatcher, listen=listen,
                connection_limit=cfg.limit, channel_timeout=cfg.timeout, cleanup_interval=cfg.interval,
                send_bytes=cfg.send_bytes, channel_request_lookahead=cfg.lookahead,
                outbuf_high_watermark=cfg.high_watermark)
        self.servers = [o for o in self.map.values() if isinstance(o, waitress.server.BaseWSGIServer)]
        self.multi = isinstance(self.server, waitress.server.MultiSocketServer)

    def close(self):
        try:
            for s in self.servers:
                try:
                    s.trigger.close()
                except Exception:
                    pass
            for o in list(self.map.values()):
                try:
                    o.close()
                except Exception:
                    pass
        finally:
            for obj, name, val in self.saved:
                setattr(obj, name, val)

    # ------------------------------------------------------------------ events
    def apply(self, ev):
        """Perform one event on the real objects; return the model command."""
        kind = ev[0]
        if kind == "connect":
            l = ev[1]
            if l < len(self.servers):
                c = self.kernel.connect(self.servers[l].socket)
                self.conns[c.fd] = c
            return "connect %d" % l
        if kind == "send":
            fd, t = ev[1], ev[2]
            c = self.conns.get(fd)
            if c is not None and not c.gone:
                if t == "p":
                    data = REQ_PAD if self.wire_partial.get(fd) else REQ_HEAD
                    self.wire_partial[fd] = True
                else:
                    data = (b"" if self.wire_partial.get(fd) else REQ_HEAD) + REQ_END[t]
                    self.wire_partial[fd] = False
                c.client_send(data, t)
            return "send %d %s" % (fd, t)
        if kind == "app":
            fd, body = ev[1], ev[2]
            ch = self.all_channels.get(fd) or self._find_channel(fd)
            self.writes = []
            if ch is not None and ch in self.dispatcher.queue:
                self.dispatcher.queue.remove(ch)
                self.next_body = body
                in_map = self.map.get(fd) is ch
                ch.service()
                if not in_map:
                    self.writes = []
            ws = ",".join(str(n) for n in self.writes) or "-"
            return "app %d %s" % (fd, ws)
        if kind == "reads":
            c = self.conns.get(ev[1])
            if c is not None:
                c.client_read(ev[2])
            return "reads %d %d" % (ev[1], ev[2])
        if kind == "stalls":
            c = self.conns.get(ev[1])
            if c is not None:
                c.client_stall()
            return "stalls %d" % ev[1]
        if kind == "disc":
            c = self.conns.get(ev[1])
            if c is not None:
                c.client_close()
            return "disc %d" % ev[1]
        if kind == "adv":
            self.clock.advance(ev[1])
            return "adv %d" % ev[1]
        if kind == "poll":
            self.wasyncore.loop(timeout=1, map=self.map, count=1, use_poll=self.cfg.use_poll)
            for fd, o in self.map.items():
                if isinstance(o, self.HTTPChannel):
                    self.all_channels[fd] = o
            return "poll"
        raise ValueError(ev)

    def _find_channel(self, fd):
        o = self.map.get(fd)
        return o if isinstance(o, self.HTTPChannel) else None

    def app_enabled(self):
        """fds whose channel has a task queued in the dispatcher"""
        out = []
        for ch in self.dispatcher.queue:
            for fd, o in self.all_channels.items():
                if o is ch:
                    out.append(fd)
        return out

    # ------------------------------------------------------------------ observation
    def channels(self):
        return [(fd, o) for fd, o in self.map.items() if isinstance(o, self.HTTPChannel)]

    def key_of(self, fd, o):
        for i, s in enumerate(self.servers):
            if o is s:
                return "l%d" % i
            if o is s.trigger:
                return "t%d" % i
        return str(fd)

    def req_flags(self, ch):
        out = ""
        for r in ch.requests:
            close = bool(r.error) or r.headers.get("CONNECTION", "").lower() == "close"
            out += "c" if close else "k"
        return out or "-"

    def dump(self):
        parts = ["clk=%d nf=%d len=%d map=%s" % (
            self.clock.now, self.kernel.next_fd, len(self.map),
            ",".join(self.key_of(fd, o) for fd, o in self.map.items()))]
        for i, s in enumerate(self.servers):
            parts.append("L%d:%d%d:%d:[%s]" % (i, int(bool(s.accepting)), int(bool(s.in_connection_overflow)),
                                                s.next_channel_cleanup,
                                                ",".join(sock_str(k) for k in s.socket.backlog)))
        for fd, ch in self.channels():
            parts.append("C%s|o%d|r%s|i%d|la%d|wc%d|cwf%d|pd%d" % (
                sock_str(ch.socket), self.servers.index(ch.server), self.req_flags(ch),
                int(ch.request is not None), ch.last_activity, int(bool(ch.will_close)),
                int(bool(ch.close_when_flushed)), ch.total_outbufs_len))
        inv = self.side_invariants()
        if inv:
            parts.append("!" + ";".join(inv))
        return " ".join(parts)

    def side_invariants(self):
        """Facts the model's representation relies on; a failure shows up as a
        mismatch of the dump."""
        bad = []
        for i, s in enumerate(self.servers):
            mine = [fd for fd, ch in self.channels() if ch.server is s]
            if list(s.active_channels.keys()) != mine or any(s.active_channels[fd] is not self.map[fd] for fd in mine):
                bad.append("active_channels[%d]=%r map=%r" % (i, list(s.active_channels.keys()), mine))
        for fd, ch in self.channels():
            if not ch.connected:
                bad.append("%d in map but not connected" % fd)
            if bool(ch.requests) != (ch in self.dispatcher.queue):
                bad.append("%d requests=%d queued=%s" % (fd, len(ch.requests), ch in self.dispatcher.queue))
            if ch.socket.split_reads:
                bad.append("%d recv split a chunk (harness limitation)" % fd)
        return bad


# ---------------------------------------------------------------------------
# history generation


def gen_config(rng, tier, idx):
    listeners = 1 + (idx % 2)
    if idx % 5 == 4:
        limit = 100
    else:
        # around the fixed descriptors (2 per listener): degenerate, tight, roomy
        limit = 2 * listeners + rng.choice([-1, 0, 1, 1, 2, 2, 3, 3, 4, 6])
    timeout = rng.choice([0, 1, 3, 5, 10, 120])
    interval = rng.choice([0, 1, 2, 4, 30])
    if idx % 7 == 6:
        timeout, interval = 120, 30
    send_bytes = rng.choice([1, 1, 1, 200, 18000])
    lookahead = rng.choice([0, 0, 0, 1, 2])
    sndbuf = rng.choice([1, 7, 60, 300, 65536])
    t0 = rng.choice([0, 1000, 1700000000])
    high_watermark = rng.choice([16777216, 16777216, 1000000])
    return Config(listeners, limit, timeout, interval, send_bytes, lookahead, sndbuf, t0, high_watermark,
                  use_poll=(idx % 3 == 2))


def choose_event(rng, cfg, w, phase):
    live = [fd for fd, c in w.conns.items() if not c.closed]
    kinds = ["poll"] * 6 + ["connect"] * (5 if phase == "fill" else 2) + ["adv"] * 3
    if live:
        kinds += ["send"] * 5 + ["reads", "stalls", "disc"] + ["stalls"] * (2 if phase == "stall" else 0)
    enabled = w.app_enabled()
    if enabled:
        kinds += ["app"] * 4
    k = rng.choice(kinds)
    if k == "poll":
        return ("poll",)
    if k == "connect":
        l = rng.randrange(cfg.listeners) if rng.random() < 0.97 else cfg.listeners
        return ("connect", l)
    if k == "adv":
        d = rng.choice([0, 1, 1, 2, cfg.timeout, cfg.timeout + 1, cfg.interval, cfg.interval + 1,
                        cfg.timeout + cfg.interval + 1, 1000])
        return ("adv", d)
    if k == "app":
        fd = rng.choice(enabled)
        return ("app", fd, rng.choice([0, 5, 40, 150, 150, 1000, 3000]))
    fd = rng.choice(live) if rng.random() < 0.95 else rng.choice(list(w.conns))
    if k == "send":
        return ("send", fd, rng.choice("pkkkc"))
    if k == "reads":
        return ("reads", fd, rng.choice([1, 10, 100, 5000]))
    if k == "stalls":
        return ("stalls", fd)
    return ("disc", fd)


def run_history(cfg, rng, n, scripted=None):
    """-> (commands, real dumps, events, observations for the monitors)"""
    logging.getLogger("waitress").setLevel(logging.CRITICAL + 1)
    w = World(cfg)
    cmds = [cfg.init_line()]
    dumps = [w.dump()]
    events = []
    obs = []
    try:
        phase = rng.choice(["fill", "mixed", "stall"]) if scripted is None else "mixed"
        steps = scripted if scripted is not None else range(n)
        for item in steps:
            ev = item if scripted is not None else choose_event(rng, cfg, w, phase)
            before = snapshot(w)
            cmds.append(w.apply(ev))
            dumps.append(w.dump())
            events.append(ev)
            obs.append((ev, before, snapshot(w)))
    finally:
        w.close()
    return cmds, dumps, events, obs


def snapshot(w):
    """What the monitors look at (taken from the real objects only)."""
    chans = {}
    for fd, ch in w.channels():
        k = ch.socket
        chans[fd] = {
            "owner": w.servers.index(ch.server), "nreq": len(ch.requests), "la": ch.last_activity,
            "wc": bool(ch.will_close), "cwf": bool(ch.close_when_flushed), "pend": ch.total_outbufs_len,
            "rx": len(k.rx), "gone": k.gone, "writable": k.write_ready(), "room": k.room, "reading": k.reading,
            "sent": k.sent, "recvd": sum(1 for op, n in k.log if op == "recv" and n),
        }
    return {
        "now": w.clock.now, "len": len(w.map), "chans": chans, "deadlocks": list(w.deadlocks),
        "listeners": [{"acc": bool(s.accepting), "ovf": bool(s.in_connection_overflow),
                       "ncc": s.next_channel_cleanup, "backlog": [k.fd for k in s.socket.backlog]}
                      for s in w.servers],
    }


# ---------------------------------------------------------------------------
# monitors: the property's own statements, evaluated on the real trace


def bound(cfg):
    return max(2 * cfg.listeners, cfg.limit + cfg.listeners - 1)


def monitor(cfg, obs):
    """-> list of (key, text, kf_class or None).  Checks, on the real trace:
    limit, admission (nothing accepted at the limit / resumes below it),
    never-busy, and the reaping deadline."""
    out = []
    L = cfg.listeners
    expired_since = {}   # fd -> time at which it was first seen inactive and expired, continuously since
    true_la = {}         # fd -> time of the last accept / receive of data / send of data / end of service()
    for step, (ev, b, a) in enumerate(obs):
        if len(a["deadlocks"]) > len(b["deadlocks"]):
            out.append(("io-thread-deadlock", "step %d (%s): the I/O thread would block for ever: %s" % (
                step, ev[0], a["deadlocks"][-1]), None))
        # last_activity is the time of the last activity seen on the wire (or end of service)
        for fd, c in a["chans"].items():
            cb = b["chans"].get(fd)
            if cb is None:
                true_la[fd] = a["now"]
            elif c["sent"] > cb["sent"] or c["recvd"] > cb["recvd"] or (ev[0] == "app" and ev[1] == fd and cb["nreq"] > 0):
                true_la[fd] = a["now"]
            if c["la"] != true_la.get(fd):
                out.append(("last-activity", "step %d (%s): channel %d last_activity=%d, last receive/send/service-end at %s" % (
                    step, ev[0], fd, c["la"], true_la.get(fd)), None))
        # limit
        if a["len"] > bound(cfg):
            out.append(("limit", "step %d: %d descriptors in the map, bound %d" % (step, a["len"], bound(cfg)), None))
        # never busy: will_close on a channel with requests; a busy channel disappearing
        for fd, c in a["chans"].items():
            if c["nreq"] > 0 and c["wc"]:
                out.append(("never-busy", "step %d: channel %d has %d requests and will_close" % (step, fd, c["nreq"]), None))
        for fd, c in b["chans"].items():
            if c["nreq"] > 0 and not c["gone"] and fd not in a["chans"] and not (ev[0] == "disc" and ev[1] == fd):
                out.append(("never-busy", "step %d: busy channel %d closed by %r" % (step, fd, ev), None))
        # next_channel_cleanup never more than cleanup_interval ahead
        for i, l in enumerate(a["listeners"]):
            if l["ncc"] > a["now"] + cfg.interval and l["ncc"] != 0:
                out.append(("ncc", "step %d: listener %d next_channel_cleanup %d > now %d + interval" % (step, i, l["ncc"], a["now"]), None))
        if ev[0] == "poll":
            new = [fd for fd in a["chans"] if fd not in b["chans"]]
            at_limit = b["len"] >= cfg.limit
            if at_limit and new:
                out.append(("admission", "step %d: accepted %r with %d descriptors, limit %d" % (step, new, b["len"], cfg.limit), None))
            for i, l in enumerate(b["listeners"]):
                if not l["acc"]:
                    continue
                if not at_limit and l["backlog"]:
                    want = l["backlog"][0]
                    got = [fd for fd in new if a["chans"][fd]["owner"] == i]
                    if got != [want]:
                        out.append(("resume", "step %d: listener %d below the limit (%d < %d) with backlog %r accepted %r" % (
                            step, i, b["len"], cfg.limit, l["backlog"], got), None))
                if a["listeners"][i]["ovf"] != at_limit:
                    out.append(("overflow-flag", "step %d: listener %d in_connection_overflow=%s with %d descriptors, limit %d" % (
                        step, i, a["listeners"][i]["ovf"], b["len"], cfg.limit), None))
            # maintenance runs in every poll turn at a time >= next_channel_cleanup, and only then;
            # the turn in which it runs closes every idle, expired connection whose socket is writable
            for i, l in enumerate(b["listeners"]):
                due = b["now"] >= l["ncc"]
                want = b["now"] + cfg.interval if due else l["ncc"]
                if a["listeners"][i]["ncc"] != want:
                    out.append(("maintenance-due", "step %d: poll turn at %d, listener %d next_channel_cleanup %d -> %d, expected %d (cleanup_interval %d)" % (
                        step, b["now"], i, l["ncc"], a["listeners"][i]["ncc"], want, cfg.interval), None))
                if due:
                    for fd, c in b["chans"].items():
                        idle = (c["owner"] == i and c["nreq"] == 0 and c["rx"] == 0 and c["la"] + cfg.timeout < b["now"]
                                and (c["pend"] == 0 or (not c["reading"] and c["room"] <= 0)))
                        if idle and c["writable"] and fd in a["chans"]:
                            out.append(("due-poll", "step %d: maintenance due at %d (next_channel_cleanup %d), channel %d idle since %d (timeout %d), socket writable, still open" % (
                                step, b["now"], l["ncc"], fd, c["la"], cfg.timeout), None))
            # no close without a cause: peer gone, close_when_flushed / will_close set before
            # the turn, or idle longer than channel_timeout with maintenance due in this turn
            for fd, c in b["chans"].items():
                if fd in a["chans"]:
                    continue
                due = b["now"] >= b["listeners"][c["owner"]]["ncc"]
                expired = c["nreq"] == 0 and c["la"] + cfg.timeout < b["now"]
                if not (c["gone"] or c["cwf"] or c["wc"] or (due and expired)):
                    out.append(("close-without-cause", "step %d: channel %d closed by a poll turn at %d: peer present, no close flag, last_activity %d, channel_timeout %d, %d requests, maintenance %s" % (
                        step, fd, b["now"], c["la"], cfg.timeout, c["nreq"], "due" if due else "not due"), None))
            # reaping deadline: first poll turn at or after expired_since + cleanup_interval
            for fd, t in list(expired_since.items()):
                c = b["chans"].get(fd)
                if c is None:
                    continue
                if b["now"] >= t + cfg.interval and fd in a["chans"]:
                    if c["writable"]:
                        out.append(("reap", "step %d: channel %d idle since before %d-%d, polled at %d with a writable socket, still open" % (
                            step, fd, t, cfg.timeout, b["now"]), None))
                    else:
                        ca = a["chans"][fd]
                        kf = "kf_c18_stalled_peer" if (ca["wc"] and not ca["writable"] and not c["writable"]) else None
                        out.append(("reap-stalled", "step %d: channel %d idle and expired since %d, polled at %d >= %d + cleanup_interval: will_close=%s, %d bytes pending, socket not writable, still open" % (
                            step, fd, t, b["now"], t, ca["wc"], ca["pend"]), kf))
        # update the idle bookkeeping from the state after the event
        for fd in list(expired_since):
            if fd not in a["chans"]:
                del expired_since[fd]
        for fd, c in a["chans"].items():
            inactive = c["nreq"] == 0 and c["rx"] == 0 and (c["pend"] == 0 or not c["writable"] or (c["room"] <= 0 and not c["reading"] and not c["gone"]))
            expired = c["la"] + cfg.timeout < a["now"]
            if inactive and expired:
                expired_since.setdefault(fd, a["now"])
            else:
                expired_since.pop(fd, None)
    return out


# ---------------------------------------------------------------------------
# scripted scenarios


def scenario_f21(cfg=None):
    """F21: response larger than the send-buffer room, client stalled; after the
    timeout the channel is marked will_close but never closed."""
    cfg = cfg or Config(listeners=1, limit=100, timeout=5, interval=2, send_bytes=1, sndbuf=100)
    fd = FD0
    ev = [("connect", 0), ("poll",), ("send", fd, "k"), ("poll",), ("stalls", fd), ("app", fd, 3000), ("poll",),
          ("adv", cfg.timeout + cfg.interval + 1), ("poll",), ("adv", 1000), ("poll",), ("adv", 100000), ("poll",), ("poll",)]
    return cfg, ev


EXPECT_HEAD = b"POST /x HTTP/1.1\r\nHost: a\r\nExpect: 100-continue\r\nContent-Length: 5\r\n\r\n"


def teardown_probe(use_poll=False):
    """Teardown from inside received(): a client sends a head with Expect: 100-continue
    and resets before the server answers; recv() still delivers the head, the send of
    "100 Continue" fails with EPIPE and the channel is closed from within received()
    (requests_lock held).  Afterwards the loop must still run: the descriptor is gone,
    a new connection is accepted, maintenance still runs.  Real classes only (the model
    has no Expect requests).  -> list of problems (strings)."""
    logging.getLogger("waitress").setLevel(logging.CRITICAL + 1)
    cfg = Config(listeners=1, limit=100, timeout=5, interval=2, use_poll=use_poll)
    w = World(cfg)
    bad = []
    try:
        w.apply(("connect", 0))
        w.apply(("poll",))
        c = w.conns[FD0]
        c.client_send(EXPECT_HEAD, "x")
        c.client_close()
        try:
            w.apply(("poll",))
        except Exception as e:   # the loop itself died
            bad.append("poll turn raised %s: %s" % (type(e).__name__, e))
        if w.deadlocks:
            bad.append("the I/O thread would block for ever: " + w.deadlocks[0])
        if FD0 in w.map:
            bad.append("connection %d still in the map after its client reset" % FD0)
        w.apply(("connect", 0))
        w.apply(("adv", 3))
        ncc = w.servers[0].next_channel_cleanup
        try:
            w.apply(("poll",))
        except Exception as e:
            bad.append("next poll turn raised %s: %s" % (type(e).__name__, e))
        if FD0 + 1 not in w.map:
            bad.append("a new connection is not accepted after the teardown")
        if w.servers[0].next_channel_cleanup == ncc:
            bad.append("maintenance no longer runs after the teardown")
    finally:
        w.close()
    return bad


def scenario_limit_two_listeners(limit=5):
    """Both listeners pass the admission test in the same turn: limit + 1."""
    cfg = Config(listeners=2, limit=limit, timeout=120, interval=30)
    ev = []
    for _ in range(max(0, limit - 1 - 4)):
        ev += [("connect", 0), ("poll",)]
    ev += [("connect", 0), ("connect", 1), ("poll",), ("connect", 0), ("connect", 1), ("poll",), ("poll",)]
    return cfg, ev


# ---------------------------------------------------------------------------
# cross-check of the generated predicates against the real methods


def pred_cases():
    """-> list of (model command, expected answer computed by the REAL method)"""
    import waitress.server
    import waitress.wasyncore
    from waitress.channel import HTTPChannel
    from waitress.server import BaseWSGIServer

    out = []
    quiet = logging.getLogger("waitress.harness.quiet")
    quiet.disabled = True
    # HTTPChannel.readable / writable
    for wc, cwf, n, la, tot in itertools.product([0, 1], [0, 1], [0, 1, 2, 3], [0, 1, 2], [0, 1, 5, 17999, 18000]):
        ch = HTTPChannel.__new__(HTTPChannel)
        ch.will_close = bool(wc)
        ch.close_when_flushed = bool(cwf)
        ch.requests = [object()] * n
        ch.total_outbufs_len = tot
        ch.adj = types.SimpleNamespace(channel_request_lookahead=la)
        out.append(("pred chan_readable %d %d %d %d %d" % (wc, cwf, n, la, tot), "1" if ch.readable() else "0"))
        out.append(("pred chan_writable %d %d %d" % (tot, wc, cwf), "1" if ch.writable() else "0"))
    # HTTPChannel.handle_write: flush selection and tail
    for wc, cwf, n, tot, sb, hw in itertools.product([0, 1], [0, 1], [0, 1, 2], [0, 1, 199, 200, 201, 18000], [1, 200, 18000],
                                                     [0, 150, 199, 200, 16777216]):
        ch = HTTPChannel.__new__(HTTPChannel)
        rec = []
        ch.will_close = bool(wc)
        ch.close_when_flushed = bool(cwf)
        ch.requests = [object()] * n
        ch.total_outbufs_len = tot
        ch.adj = types.SimpleNamespace(send_bytes=sb, outbuf_high_watermark=hw, log_socket_errors=False)
        ch.logger = quiet
        ch._flush_some = lambda do_close=True, rec=rec: rec.append("some")
        ch._flush_some_if_lockable = lambda do_close=True, rec=rec: rec.append("lockable")
        ch.handle_close = lambda rec=rec: rec.append("close")
        ch.handle_write()
        flush = ([r for r in rec if r != "close"] or ["none"])[0]
        out.append(("pred hw_flush %d %d %d %d" % (n, tot, sb, hw), flush))
        out.append(("pred hw_after %d %d %d" % (cwf, wc, tot),
                    "%d%d%d" % (int(ch.close_when_flushed), int(ch.will_close), int("close" in rec))))
    # BaseWSGIServer.maintenance
    for n, la, now, tmo in itertools.product([0, 1, 2], [0, 5, 9, 10, 11, 100], [10, 20, 110], [0, 1, 10, 99, 100]):
        s = BaseWSGIServer.__new__(BaseWSGIServer)
        s.adj = types.SimpleNamespace(channel_timeout=tmo)
        c = types.SimpleNamespace(requests=[object()] * n, last_activity=la, will_close=False)
        other = types.SimpleNamespace(requests=[object()], last_activity=now, will_close=False)
        s.active_channels = {7: other, 8: c}
        s.maintenance(now)
        if other.will_close:
            out.append(("pred maint 1 %d %d %d" % (now, now, tmo), "busy fresh channel marked"))
        out.append(("pred maint %d %d %d %d" % (n, la, now, tmo), "1" if c.will_close else "0"))
    # BaseWSGIServer.readable
    saved = waitress.server.time
    try:
        for now, ncc, itv, acc, ovf, ml, lim in itertools.product(
                [0, 50], [0, 49, 50, 51], [0, 30], [0, 1], [0, 1], [2, 3, 4, 5], [1, 3, 4, 5, 100]):
            s = BaseWSGIServer.__new__(BaseWSGIServer)
            s.adj = types.SimpleNamespace(cleanup_interval=itv, connection_limit=lim)
            s.next_channel_cleanup = ncc
            s.accepting = bool(acc)
            s.in_connection_overflow = bool(ovf)
            s._map = {i: None for i in range(ml)}
            s.logger = quiet
            called = []
            s.maintenance = lambda t, called=called: called.append(t)
            waitress.server.time = FakeTime(now)
            res = s.readable()
            if called not in ([], [now]):
                out.append(("pred srv_readable %d %d %d %d %d %d %d" % (now, ncc, itv, acc, ovf, ml, lim), "maintenance called with %r" % called))
            out.append(("pred srv_readable %d %d %d %d %d %d %d" % (now, ncc, itv, acc, ovf, ml, lim),
                        "%d %d%d%d" % (s.next_channel_cleanup, int(bool(called)), int(s.in_connection_overflow), int(bool(res)))))
    finally:
        waitress.server.time = saved
    # wasyncore.poll: which objects are handed to select for r / w / e
    wa = waitress.wasyncore
    saved_sel = wa.select
    try:
        for r, wr, acc in itertools.product([0, 1], repeat=3):
            asked = []

            class Sel:
                def select(self, rr, ww, ee, t):
                    asked.append((list(rr), list(ww), list(ee)))
                    return [], [], []

            o = types.SimpleNamespace(readable=lambda r=r: bool(r), writable=lambda wr=wr: bool(wr), accepting=bool(acc))
            filler = types.SimpleNamespace(readable=lambda: True, writable=lambda: False, accepting=False)
            wa.select = Sel()
            wa.poll(0.0, {5: o, 6: filler})
            rr, ww, ee = asked[0]
            out.append(("pred poll %d %d %d" % (r, wr, acc), "%d%d%d" % (int(5 in rr), int(5 in ww), int(5 in ee))))
        wa.select = saved_sel
        # wasyncore.poll: which handle_*_event an object returned in r / w / e gets
        for in_r, in_w, in_e in itertools.product([0, 1], repeat=3):
            got = _run_select_turn(wa, True, True, False, (in_r, in_w, in_e))
            out.append(("pred polldispatch %d %d %d" % (in_r, in_w, in_e),
                        "%d%d%d" % (int("read" in got["called"]), int("write" in got["called"]), int("expt" in got["called"]))))
        # wasyncore.poll2: the event mask registered per object
        for r, wr, acc in itertools.product([0, 1], repeat=3):
            got = _run_poll2_turn(wa, r, wr, acc, 0)
            f = got["registered"]
            bits = "".join(str(int(bool(f & b))) for b in _pollbits()) if f is not None else "000000"
            out.append(("pred poll2reg %d %d %d" % (r, wr, acc), "%s %d" % (bits, int(f is not None))))
            if got["scan_calls"] != (1, 1):
                out.append(("pred poll2reg %d %d %d" % (r, wr, acc), "readable()/writable() called %r times" % (got["scan_calls"],)))
        # wasyncore.readwrite: which handler for which returned flag word (all 64)
        for word in itertools.product([0, 1], repeat=6):
            flags = sum(b for b, on in zip(_pollbits(), word) if on)
            rec = _Recorder(True, True, False)
            wa.readwrite(rec, flags)
            out.append(("pred readwrite %d %d %d %d %d %d" % word,
                        "%d%d%d%d" % tuple(int(k in rec.called) for k in ("read", "write", "expt", "close"))))
    finally:
        wa.select = saved_sel
    return out


def _pollbits():
    import select
    return [select.POLLIN, select.POLLPRI, select.POLLOUT, select.POLLERR, select.POLLHUP, select.POLLNVAL]


class _Recorder:
    """A dispatcher-like object that only records which handlers the loop calls."""

    def __init__(self, r, w, acc):
        self.r, self.w, self.accepting = bool(r), bool(w), bool(acc)
        self.called = []
        self.nr = self.nw = 0

    def readable(self):
        self.nr += 1
        return self.r

    def writable(self):
        self.nw += 1
        return self.w

    def handle_read_event(self):
        self.called.append("read")

    def handle_write_event(self):
        self.called.append("write")

    def handle_expt_event(self):
        self.called.append("expt")

    def handle_close(self):
        self.called.append("close")

    def handle_error(self):
        self.called.append("error")


def _run_select_turn(wa, r, w, acc, answer):
    """One real wasyncore.poll turn over {5: recorder}; the fake select returns fd 5 in
    the lists chosen by `answer` (a triple), restricted to the lists it was asked on
    when answer is None-free.  -> asked lists, handlers called."""
    asked = {}

    class Sel:
        def select(self, rr, ww, ee, t):
            asked["r"], asked["w"], asked["e"] = (5 in rr), (5 in ww), (5 in ee)
            return ([5] if answer[0] else []), ([5] if answer[1] else []), ([5] if answer[2] else [])

    rec = _Recorder(r, w, acc)
    filler = _Recorder(True, False, False)
    saved = wa.select
    wa.select = Sel()
    try:
        wa.poll(0.0, {5: rec, 6: filler})
    finally:
        wa.select = saved
    return {"asked": asked, "called": rec.called, "scan_calls": (rec.nr, rec.nw)}


def _run_poll2_turn(wa, r, w, acc, revents):
    """One real wasyncore.poll2 turn over {5: recorder}; the fake poll object reports
    `revents` for fd 5 if it was registered.  -> registered mask (None: not registered),
    handlers called."""
    import select as real_select
    reg = {}

    class Poller:
        def register(self, fd, flags):
            reg[fd] = flags

        def poll(self, timeout=None):
            return [(5, revents)] if (5 in reg and revents) else []

    class Sel:
        def poll(self):
            return Poller()

        def __getattr__(self, name):
            return getattr(real_select, name)

    rec = _Recorder(r, w, acc)
    filler = _Recorder(True, False, False)
    saved = wa.select
    wa.select = Sel()
    try:
        wa.poll2(0.0, {5: rec, 6: filler})
    finally:
        wa.select = saved
    return {"registered": reg.get(5), "called": rec.called, "scan_calls": (rec.nr, rec.nw)}


def loop_search():
    """The loop-level statement on the REAL wasyncore.poll / poll2 / readwrite, for every
    readable()/writable()/accepting combination and every kernel answer the kernel
    hypotheses allow (select: sub-lists of the lists asked; poll: revents within the
    registered mask plus POLLERR/POLLHUP/POLLNVAL, only for registered descriptors):
    handle_read_event only if readable() was true at scan time, handle_write_event only if
    writable() was true on a non-accepting object, handle_expt_event (poll2) only if
    readable().  -> (number of turns run, list of violations as replay dicts)"""
    import waitress.wasyncore as wa

    IN, PRI, OUT, ERR, HUP, NVAL = _pollbits()
    n = 0
    bad = []

    def judge(loop, r, w, acc, asked, answer, called):
        v = []
        if "read" in called and not r:
            v.append("handle_read_event dispatched although readable() was False")
        if "write" in called and not (w and not acc):
            v.append("handle_write_event dispatched although writable() was False or the object is accepting")
        if loop == "poll2" and "expt" in called and not r:
            v.append("handle_expt_event dispatched although readable() was False")
        for text in v:
            bad.append({"loop": loop, "readable": bool(r), "writable": bool(w), "accepting": bool(acc),
                        "asked_or_registered": asked, "kernel_answer": answer, "handlers_called": list(called),
                        "what": text, "failing_input_found": True})

    for r, w, acc in itertools.product([0, 1], repeat=3):
        # select variant: learn the asked lists first, then every sub-answer
        probe = _run_select_turn(wa, r, w, acc, (0, 0, 0))
        a = probe["asked"]
        if a:
            for ans in itertools.product([0, 1], repeat=3):
                if (ans[0] and not a["r"]) or (ans[1] and not a["w"]) or (ans[2] and not a["e"]):
                    continue
                got = _run_select_turn(wa, r, w, acc, ans)
                n += 1
                judge("poll", r, w, acc, {k: bool(x) for k, x in a.items()}, list(ans), got["called"])
        # poll variant
        probe = _run_poll2_turn(wa, r, w, acc, 0)
        mask = probe["registered"]
        if mask is not None:
            for word in itertools.product([0, 1], repeat=6):
                rev = sum(b for b, on in zip(_pollbits(), word) if on)
                if rev == 0 or (rev & (IN | PRI | OUT)) & ~mask:
                    continue
                got = _run_poll2_turn(wa, r, w, acc, rev)
                n += 1
                judge("poll2", r, w, acc, {"mask": mask, "POLLIN": bool(mask & IN), "POLLPRI": bool(mask & PRI),
                                           "POLLOUT": bool(mask & OUT)}, rev, got["called"])
    return n, bad


def case_hash(cfg, cmds):
    return hashlib.sha1((repr(cfg.as_dict()) + "|" + ";".join(cmds)).encode()).hexdigest()
