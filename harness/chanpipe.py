"""C04 harness: pipelines on the REAL HTTPChannel under the deterministic
scheduler (harness/chan_world.py), the map from a real trace to the choices and
labels of the narrow model coq/Model/ChanPipe.v, the property's monitors on
the real trace, and the `ast` shape audit of the methods the model represents.

Nothing here edits chan_world.py: PipeWorld subclasses World and adds
  * notes  write_soon <len>  and  send_continue <thread>  (entry of the two methods)
  * an observer that snapshots the channel's shared state before every
    scheduled operation (used to compare the abstract state after every step).
"""
import ast
import hashlib
import logging
import os

from harness.chan_world import World, CHAN_FD
from harness.sched import RandomPolicy, PCTPolicy, explore

logging.disable(logging.CRITICAL)

CONT = b"HTTP/1.1 100 Continue\r\n\r\n"

# ----------------------------------------------------------------------------
# scenarios


class Req:
    """One request of a pipeline.  expect: `Expect: 100-continue` with a body
    that is sent separately from the head; close: `Connection: close`;
    chunks: the body chunks the application returns (Content-Length is set)."""

    def __init__(self, path, expect=False, body=b"", close=False, chunks=None):
        self.path = path
        self.expect = expect
        self.body = body
        self.close = close
        self.chunks = [path.encode() * 3] if chunks is None else list(chunks)

    def head(self):
        if self.body or self.expect:
            h = "POST %s HTTP/1.1\r\nHost: x\r\nContent-Length: %d\r\n" % (self.path, len(self.body))
        else:
            h = "GET %s HTTP/1.1\r\nHost: x\r\n" % self.path
        if self.expect:
            h += "Expect: 100-continue\r\n"
        if self.close:
            h += "Connection: close\r\n"
        return (h + "\r\n").encode()

    def bytes(self):
        return self.head() + self.body

    def key(self):
        return (self.path, self.expect, self.body, self.close, tuple(self.chunks))

    def to_json(self):
        return {"path": self.path, "expect": self.expect, "body": self.body.hex(), "close": self.close,
                "chunks": [c.hex() for c in self.chunks]}

    @staticmethod
    def from_json(d):
        return Req(d["path"], d["expect"], bytes.fromhex(d["body"]), d["close"], [bytes.fromhex(c) for c in d["chunks"]])


class Scenario:
    """reqs: list of Req; cuts: byte offsets at which the client's stream is cut
    into separate send() calls; send_plan: what the kernel accepts per send();
    eof: the client closes after its last send."""

    def __init__(self, reqs, cuts=(), send_plan=(), lookahead=0, n_workers=1, send_bytes=1, sndbuf=1 << 16,
                 eof=False, max_steps=1500):
        self.reqs = list(reqs)
        self.cuts = sorted(set(cuts))
        self.send_plan = list(send_plan)
        self.lookahead = lookahead
        self.n_workers = n_workers
        self.send_bytes = send_bytes
        self.sndbuf = sndbuf
        self.eof = eof
        self.max_steps = max_steps

    def stream(self):
        return b"".join(r.bytes() for r in self.reqs)

    def client_script(self):
        s = self.stream()
        cuts = [c for c in self.cuts if 0 < c < len(s)]
        pts = [0] + cuts + [len(s)]
        script = [("send", s[a:b]) for a, b in zip(pts, pts[1:]) if b > a]
        if self.eof:
            script.append(("close",))
        return script

    def item_bounds(self):
        """End offsets of the model's items in the byte stream, in order."""
        out = []
        pos = 0
        for r in self.reqs:
            if r.expect and r.body:
                out.append(pos + len(r.head()))
                out.append(pos + len(r.bytes()))
            else:
                out.append(pos + len(r.bytes()))
            pos += len(r.bytes())
        return out

    def app(self):
        table = {r.path: r for r in self.reqs}

        def app(environ, start_response):
            r = table[environ["PATH_INFO"]]
            start_response("200 OK", [("Content-Length", str(sum(len(c) for c in r.chunks)))])
            return list(r.chunks)
        return app

    def to_json(self):
        return {"reqs": [r.to_json() for r in self.reqs], "cuts": self.cuts, "send_plan": self.send_plan,
                "lookahead": self.lookahead, "n_workers": self.n_workers, "send_bytes": self.send_bytes,
                "sndbuf": self.sndbuf, "eof": self.eof, "max_steps": self.max_steps}

    @staticmethod
    def from_json(d):
        return Scenario([Req.from_json(r) for r in d["reqs"]], d["cuts"], d["send_plan"], d["lookahead"],
                        d["n_workers"], d["send_bytes"], d["sndbuf"], d["eof"], d.get("max_steps", 1500))

    def has_late_expect(self):
        """The static input class of finding F18: an expecting request that is not the first of the pipeline."""
        return any(r.expect for r in self.reqs[1:])


class PipeWorld(World):
    def __init__(self, scn, schedule=(), policy=None, granularity="attrs", snapshots=True):
        World.__init__(self, scn.app(), scn.client_script(), schedule=schedule, policy=policy,
                       adj_kw={"channel_request_lookahead": scn.lookahead, "send_bytes": scn.send_bytes},
                       n_workers=scn.n_workers, send_plan=scn.send_plan, granularity=granularity,
                       max_steps=scn.max_steps, sndbuf=scn.sndbuf)
        self.scn = scn
        if snapshots:
            self.sched.observer = self._observe

    def _make_channel_class(self):
        base = World._make_channel_class(self)
        world = self

        class PipeChannel(base):
            def write_soon(self, data):
                world.sched.note("write_soon", len(data))
                return base.write_soon(self, data)

            def send_continue(self, *a, **kw):
                me = world.sched.me()
                world.sched.note("send_continue", me.name if me else "-")
                return base.send_continue(self, *a, **kw)

        return PipeChannel

    def snapshot(self):
        ch = self.channel
        if ch is None:
            return None
        g = lambda n: object.__getattribute__(ch, n)

        def owner(lock):
            o = lock.owner
            return o.name if o is not None else None
        return {
            "rq": len(g("requests")),
            "tot": g("total_outbufs_len"),
            "obs": [b.__len__() for b in g("outbufs")],
            "conn": bool(g("connected")),
            "wc": bool(g("will_close")),
            "cwf": bool(g("close_when_flushed")),
            "q": len(self.dispatcher.queue),
            "rl": owner(g("requests_lock")),
            "ol": owner(g("outbuf_lock").lock),
            "dl": owner(self.dispatcher.lock),
            "wire": len(self.wire),
        }

    def _observe(self, sched, thread, op):
        return self.snapshot()

    def quiescent_state(self):
        # called by World.run right after the scheduler stopped and BEFORE the threads are unwound: keep
        # the state of that moment (since 72e39ad service() catches BaseException, hence also the
        # harness's ThreadKilled, and goes on writing an error response during tear-down)
        if getattr(self, "end_snapshot", None) is None:
            try:
                self.end_snapshot = self.snapshot()
            except Exception:
                self.end_snapshot = None
        return World.quiescent_state(self)


# ----------------------------------------------------------------------------
# the oracle: the response to each request when it is sent alone

_ALONE = {}


def response_alone(req):
    k = req.key()
    if k not in _ALONE:
        w = PipeWorld(Scenario([req]), snapshots=False, granularity="locks")
        w.run()
        wire = w.wire
        if req.expect:
            if not wire.startswith(CONT):
                raise RuntimeError("oracle: no interim response for a lone expecting request")
            wire = wire[len(CONT):]
        if not wire.startswith(b"HTTP/1.1 200 OK\r\n") or not wire.endswith(b"".join(req.chunks)):
            raise RuntimeError("oracle: unexpected lone response %r" % wire[:80])
        _ALONE[k] = wire
    return _ALONE[k]


# ----------------------------------------------------------------------------
# the property's monitor on a real run


def check_wire(scn, wire):
    """-> (ok, n_complete, n_interim, why).  The wire must be the concatenation
    of the responses of a prefix of the pipeline, in order, the last one
    possibly cut short; an interim `100 Continue` may appear only whole, at
    most once, and only directly before the response of the expecting request
    it belongs to (after every earlier response)."""
    exp = [response_alone(r) for r in scn.reqs]
    pos = 0
    ncont = 0
    done = 0
    for i, e in enumerate(exp):
        if wire[pos:pos + len(CONT)] == CONT:
            if not scn.reqs[i].expect:
                return False, done, ncont, "interim response before the response to request %d (%s), which does not expect one" % (
                    i, scn.reqs[i].path)
            pos += len(CONT)
            ncont += 1
        rest = wire[pos:]
        if rest[:len(e)] == e:
            pos += len(e)
            done += 1
            if scn.reqs[i].close:
                break
            continue
        if e.startswith(rest) or (scn.reqs[i].expect and ncont == 0 and CONT.startswith(rest)):
            return True, done, ncont, "partial"
        return False, done, ncont, "after %d whole responses the wire continues with %r, expected %r" % (
            done, rest[:60], e[:60])
    rest = wire[pos:]
    if rest:
        return False, done, ncont, "%d bytes after the last expected response: %r" % (len(rest), rest[:60])
    return True, done, ncont, "complete"


def monitor(world):
    """The executable C04 statement on one real run.  -> list of (key, text)."""
    scn = world.scn
    bad = []
    ev = world.sched.events
    paths = [r.path for r in scn.reqs]
    ok, done, ncont, why = check_wire(scn, world.wire)
    if not ok:
        bad.append(("wire", "C04_wire: " + why))
    calls = [e[2] for e in ev if e[1] == "app_call"]
    starts = [e[2] for e in ev if e[1] == "service_start"]
    if calls != paths[:len(calls)]:
        bad.append(("once", "C04_once: application calls %r are not a prefix of the arrival order %r" % (calls, paths)))
    if starts != paths[:len(starts)]:
        bad.append(("once-start", "C04_once: service() starts %r are not a prefix of the arrival order %r" % (starts, paths)))
    # never mixed: the write_soon calls of one request lie between its app_call and the next app_call
    cur = None
    seen = []
    for e in ev:
        if e[1] == "app_call":
            cur = (e[0], e[2])
            seen.append(e[2])
        elif e[1] == "write_soon" and cur is not None and e[0] != cur[0]:
            bad.append(("mixed", "C04_one_at_a_time: %s writes output while %s serves %s" % (e[0], cur[0], cur[1])))
            break
    # one entry: the dispatcher queue never holds the channel twice
    for snap in world.sched.snaps.values():
        if snap is not None and snap["q"] > 1:
            bad.append(("entry", "C04_one_entry: the dispatcher queue holds the channel %d times" % snap["q"]))
            break
    # exactly once at quiescence
    fin = world.final
    quiet = world.verdict in ("blocked", "finished") and not world.sched.overrun
    if quiet and fin["connected"] and fin["in_map"] and not fin["will_close"] and not fin["close_when_flushed"]:
        sent_all = not world.sock.rx
        client_done = all(t.done for t in world.sched.threads if t.name == "client")
        if sent_all and client_done and not any(r.close for r in scn.reqs):
            if calls != paths:
                bad.append(("lost", "C04_once: quiescent, connection open, but only %r of %r were executed" % (calls, paths)))
            elif ok and done != len(paths):
                bad.append(("lost-output", "C04_wire: quiescent, connection open, %d of %d responses complete on the wire" % (done, len(paths))))
    return bad


def worker_send_continue(world):
    """A worker thread entered send_continue() (the class of executions C04_wire_partial excludes)."""
    return any(e[1] == "send_continue" and e[2] != "io" for e in world.sched.events)


def f18_class(world):
    """The narrow dynamic class of finding F18: a worker-side send_continue() whose critical
    section (entry .. release of outbuf_lock) overlaps in time an UNLOCKED _flush_some of the I/O
    thread (handle_write read `requests == []` .. the read of close_when_flushed that follows
    the flush).  Only then can two threads be inside _flush_some on the same buffers."""
    ev = world.sched.events
    ch = world.channel
    if ch is None:
        return False
    ob = object.__getattribute__(ch, "outbuf_lock").lock.name
    # worker windows
    wwin = []
    open_w = {}
    for i, (th, kind, detail) in enumerate(ev):
        if kind == "send_continue" and detail != "io":
            open_w[th] = i
        elif kind == "release" and detail == ob and th in open_w:
            wwin.append((open_w.pop(th), i))
        elif kind in ("end", "crash") and th in open_w:
            wwin.append((open_w.pop(th), i))
    for th, i in open_w.items():
        wwin.append((i, len(ev)))
    if not wwin:
        return False
    # I/O windows: R:requests directly followed (in the I/O thread's own sequence of modelled
    # operations) by R:outbufs is the unlocked choice of handle_write
    io = [(i, e) for i, e in enumerate(ev) if e[0] == "io" and (
        e[1] in ("R:requests", "R:outbufs", "R:close_when_flushed", "R:total_outbufs_len", "try_acquire", "acquire",
                 "sock_send", "W:total_outbufs_len", "W:will_close", "R:will_close", "R:connected", "select", "release"))]
    iwin = []
    k = 0
    while k + 1 < len(io):
        if io[k][1][1] == "R:requests" and io[k + 1][1][1] == "R:outbufs" and k > 0 and io[k - 1][1][1] == "R:connected":
            start = io[k][0]
            m = k + 1
            while m < len(io) and io[m][1][1] != "R:close_when_flushed":
                m += 1
            end = io[m][0] if m < len(io) else len(ev)
            iwin.append((start, end))
            k = m
        else:
            k += 1
    return any(a < d and c < b for a, b in wwin for c, d in iwin)


# ----------------------------------------------------------------------------
# real trace -> model tokens and expected labels

ATTRS = {"requests", "total_outbufs_len", "connected", "will_close", "close_when_flushed", "outbufs"}
FILTERED_ATTRS = {"request", "sent_continue", "last_activity", "current_outbuf_count"}


def model_params(scn, unlocked=False):
    """unlocked=True selects the pre-8bcf05e shape of handle_write (the model keeps it for the F18 witness)."""
    return "%d,%d,%d,%d,%d" % (scn.lookahead, scn.send_bytes, len(CONT), scn.n_workers, 1 if unlocked else 0)


def model_script(scn, world):
    """Descriptors of the requests: expect flag, close flag and the sizes of the
    write_soon calls of each task (the latter read off the trace: what the task
    writes is C03's business)."""
    sizes = {}
    cur = None
    for e in world.sched.events:
        if e[1] == "app_call":
            cur = e[2]
            sizes.setdefault(cur, [])
        elif e[1] == "write_soon" and cur is not None and e[2] > 0:
            sizes[cur].append(e[2])
    out = []
    for r in scn.reqs:
        ws = sizes.get(r.path)
        if ws is None:
            # never executed in this run: sizes from the lone run (header + chunks)
            alone = response_alone(r)
            body = sum(len(c) for c in r.chunks)
            ws = [len(alone) - body] + [len(c) for c in r.chunks if c]
        out.append("%d%d%d:%s" % (1 if r.expect else 0, 1 if r.close else 0, 1 if (r.expect and not r.body) else 0,
                                  ".".join(map(str, ws)) if ws else "-"))
    return "/".join(out) if out else "-"


def trace_tokens(world):
    """-> list of (event index, token, expected label, snapshot after) for the
    operations the model represents, in trace order."""
    scn = world.scn
    ev = world.sched.events
    snaps = world.sched.snaps
    ch = world.channel
    g = lambda n: object.__getattribute__(ch, n)
    lock_names = {g("requests_lock").name: "rq", g("outbuf_lock").lock.name: "ob", world.dispatcher.lock.name: "dl"}
    cv_names = {g("outbuf_lock").name: "ob", world.dispatcher.queue_cv.name: "dl"}
    bounds = scn.item_bounds()
    pos = 0
    sched_idx = sorted(snaps.keys())
    import bisect

    def snap_after(i):
        j = bisect.bisect_right(sched_idx, i)
        if j < len(sched_idx):
            return snaps[sched_idx[j]]
        return getattr(world, "end_snapshot", None)

    out = []
    gone = False
    for i, (th, kind, detail) in enumerate(ev):
        if i not in snaps:
            continue            # a note, not a scheduled operation
        if kind == "client:close":
            gone = True
        if kind == "sock_send" and gone:
            break               # send() fails with EPIPE from here on: socket errors are C13's, not modelled
        if th == "io":
            t = "i"
        elif th.startswith("waitress-"):
            t = "w" + th.split("-")[1]
        else:
            continue
        env = "-"
        lab = None
        if kind in ("acquire", "reacquire"):
            if detail not in lock_names:
                continue
            lab = "A:" + lock_names[detail]
        elif kind == "try_acquire":
            if detail not in lock_names:
                continue
            free = snaps[i][{"rq": "rl", "ob": "ol", "dl": "dl"}[lock_names[detail]]] is None
            lab = "T:%s:%d" % (lock_names[detail], 1 if free else 0)
        elif kind == "release":
            if detail not in lock_names:
                continue
            lab = "Rl:" + lock_names[detail]
        elif kind == "wait":
            if detail not in cv_names:
                continue
            lab = "Wt"
        elif kind == "wake":
            lab = "Wk"
        elif kind == "notify":
            if detail[0] not in cv_names:
                continue
            lab = "N:" + cv_names[detail[0]]
        elif kind.startswith("R:") or kind.startswith("W:"):
            a = kind[2:]
            if a == "request":
                out.append((i, "%s:q" % t, "R:request", snap_after(i)))
                continue
            if a in FILTERED_ATTRS:
                continue
            if a not in ATTRS:
                lab = "?" + kind
            else:
                lab = kind
        elif kind == "sock_send":
            n = 0
            if i + 1 < len(ev) and ev[i + 1][1] == "wire" and ev[i + 1][0] == th and (i + 1) not in snaps:
                n = len(ev[i + 1][2]) // 2
            env = "n%d.%d" % (detail, n)
            lab = "S:%d:%d" % (detail, n)
        elif kind == "sock_recv":
            lab = "Rv"
            if i + 1 < len(ev) and ev[i + 1][1] == "recv" and (i + 1) not in snaps:
                d = len(ev[i + 1][2]) // 2
                k = sum(1 for b in bounds if pos < b <= pos + d)
                frag = (pos + d) not in bounds
                pos += d
                env = "r%d.%d" % (k, 1 if frag else 0)
            else:
                env = "e"
        elif kind == "select":
            lab = "Sel"
            rr, ww = [], []
            if i + 1 < len(ev) and ev[i + 1][1] == "selected":
                rr, ww = ev[i + 1][2]
            env = "s%d%d" % (1 if CHAN_FD in rr else 0, 1 if CHAN_FD in ww else 0)
        elif kind == "pull_trigger":
            lab = "Tr"
        elif kind in ("begin", "thread_start", "join", "sleep"):
            continue
        else:
            lab = "?" + kind
        out.append((i, "%s:%s" % (t, env), lab, snap_after(i)))
    return out


def _owner_name(s):
    if s == "-":
        return None
    if s == "io":
        return "io"
    return "waitress-" + s[1:]


def validate(world, runner):
    """Drive the extracted model with the choices read off the real trace and
    compare, after every step, the label and the abstract state.
    -> (n_steps_checked, mismatch or None, flags) where flags is the model's
    verdict string (wire once one entry quiescent) after the last step and
    `allok` tells whether every visited model state satisfied all of them."""
    toks = trace_tokens(world)
    scn = world.scn
    if not toks:
        return 0, None, {"allok": True, "wire_ok": True, "rest_ok": True}
    line = "val %s %s %s" % (model_params(scn), model_script(scn, world), " ".join(t for _, t, _, _ in toks))
    ans = runner.query([line])[0]
    fields = ans.split("|")
    if len(fields) != len(toks):
        return 0, {"why": "runner answered %d fields for %d tokens: %s" % (len(fields), len(toks), ans[:200])}, {}
    allok = True
    wire_ok = True
    rest_ok = True
    io_blocking_ob = False
    pcs = set()
    states = set()
    kv = {"ok": "11111", "wsc": "0"}
    for n, ((i, tok, lab, snap), f) in enumerate(zip(toks, fields)):
        if f == "skip":
            continue
        if f == "X":
            return n, {"why": "model: step not enabled", "event": i, "token": tok, "real": list(world.sched.events[i])}, {}
        mlab, _, st = f.partition(";")
        if mlab != lab:
            return n, {"why": "label", "event": i, "token": tok, "real": lab, "model": mlab}, {}
        kv = dict(x.split("=", 1) for x in st.split(";"))
        pcs.update(kv["pc"].split(","))
        states.add(hashlib.sha1(("%s|%s" % (mlab, st)).encode()).hexdigest()[:16])
        if tok.startswith("i:"):
            if lab == "A:ob":
                io_blocking_ob = True
            elif lab == "Rl:ob":
                io_blocking_ob = False
        if snap is not None:
            m = {
                "rq": 0 if kv["rq"] == "-" else len(kv["rq"].split(".")),
                "tot": int(kv["tot"]),
                "obs": [int(x) for x in kv["obs"].split(".") if x],
                "conn": kv["conn"] == "1", "wc": kv["wc"] == "1", "cwf": kv["cwf"] == "1",
                "q": int(kv["q"]),
                "rl": _owner_name(kv["rl"]), "ol": _owner_name(kv["ol"]), "dl": _owner_name(kv["dl"]),
                "wire": int(kv["wire"]),
            }
            diff = {k: (snap[k], m[k]) for k in m if snap[k] != m[k]}
            if "obs" in diff and not any(m["obs"]) and (io_blocking_ob or not m["conn"]):
                # handle_close(): OverflowableBuffer.close() leaves a bytes-stage buffer's length
                # unchanged; the model empties every buffer (their content is discarded either way)
                del diff["obs"]
            if diff:
                return n, {"why": "state", "event": i, "token": tok, "label": lab, "real_vs_model": {k: list(map(str, v)) for k, v in diff.items()}}, {}
        ok = kv["ok"]
        if ok[0] != "1":
            wire_ok = False
        if ok != "11111":
            allok = False
        if ok[1:] != "1111":
            rest_ok = False
    return len(toks), None, {"allok": allok, "wire_ok": wire_ok, "last": kv["ok"], "wsc": kv["wsc"] == "1",
                             "rest_ok": rest_ok, "pcs": pcs, "states": states}


# ----------------------------------------------------------------------------
# shape audit

AUDIT_METHODS = ["readable", "writable", "handle_read", "received", "send_continue", "handle_write",
                 "_flush_exception", "_flush_some_if_lockable", "_flush_some", "handle_close", "write_soon",
                 "_flush_outbufs_below_high_watermark", "service"]
AUDIT_ATTRS = ATTRS | FILTERED_ATTRS
AUDIT_CALLS = {"send_continue", "_flush_some", "_flush_some_if_lockable", "_flush_exception", "handle_close",
               "_flush_outbufs_below_high_watermark", "add_task", "pull_trigger", "notify", "wait", "acquire", "release",
               "send", "recv", "received", "append", "pop", "get", "skip", "close"}


class _Sig(ast.NodeVisitor):
    """Linearises a method into the sequence of lock scopes, shared-attribute
    reads/writes, flag tests and calls the model's steps stand for."""

    def __init__(self):
        self.out = []

    def emit(self, s):
        self.out.append(s)

    def visit_With(self, node):
        names = []
        for it in node.items:
            e = it.context_expr
            if isinstance(e, ast.Attribute) and isinstance(e.value, ast.Name) and e.value.id == "self":
                names.append(e.attr)
            else:
                names.append("?")
        self.emit("with(%s){" % ",".join(names))
        for s in node.body:
            self.visit(s)
        self.emit("}")

    def visit_If(self, node):
        self.emit("if(")
        self.visit(node.test)
        self.emit("){")
        for s in node.body:
            self.visit(s)
        self.emit("}")
        if node.orelse:
            self.emit("else{")
            for s in node.orelse:
                self.visit(s)
            self.emit("}")

    def visit_While(self, node):
        self.emit("while(")
        self.visit(node.test)
        self.emit("){")
        for s in node.body:
            self.visit(s)
        self.emit("}")
        if node.orelse:
            self.emit("else{")
            for s in node.orelse:
                self.visit(s)
            self.emit("}")

    def visit_For(self, node):
        self.emit("for(")
        self.visit(node.iter)
        self.emit("){")
        for s in node.body:
            self.visit(s)
        self.emit("}")

    def visit_Try(self, node):
        self.emit("try{")
        for s in node.body:
            self.visit(s)
        self.emit("}")
        for h in node.handlers:
            self.emit("except(%s){" % (ast.unparse(h.type) if h.type else ""))
            for s in h.body:
                self.visit(s)
            self.emit("}")
        if node.finalbody:
            self.emit("finally{")
            for s in node.finalbody:
                self.visit(s)
            self.emit("}")

    def visit_BoolOp(self, node):
        self.emit("and(" if isinstance(node.op, ast.And) else "or(")
        for v in node.values:
            self.visit(v)
            self.emit(",")
        self.emit(")")

    def visit_UnaryOp(self, node):
        if isinstance(node.op, ast.Not):
            self.emit("not")
        self.visit(node.operand)

    def visit_Compare(self, node):
        self.visit(node.left)
        for op, c in zip(node.ops, node.comparators):
            self.emit(type(op).__name__)
            self.visit(c)

    def visit_Return(self, node):
        if node.value is not None:
            self.visit(node.value)
        self.emit("return")

    def visit_Raise(self, node):
        self.emit("raise(%s)" % (ast.unparse(node.exc) if node.exc else ""))

    def visit_Break(self, node):
        self.emit("break")

    def visit_Assign(self, node):
        self.visit(node.value)
        for t in node.targets:
            self._target(t)

    def visit_AugAssign(self, node):
        self.visit(node.value)
        t = node.target
        if isinstance(t, ast.Attribute) and isinstance(t.value, ast.Name) and t.value.id == "self" and t.attr in AUDIT_ATTRS:
            self.emit("R:" + t.attr)
            self.emit("W:" + t.attr)
        else:
            self.generic_visit(t)

    def _target(self, t):
        if isinstance(t, ast.Attribute):
            if isinstance(t.value, ast.Name) and t.value.id == "self" and t.attr in AUDIT_ATTRS:
                self.emit("W:" + t.attr)
                return
            self.visit(t.value)
            self.emit("." + t.attr + "=")
        elif isinstance(t, (ast.Tuple, ast.List)):
            for x in t.elts:
                self._target(x)
        elif isinstance(t, ast.Subscript):
            self.visit(t.value)

    def visit_Attribute(self, node):
        if isinstance(node.value, ast.Name) and node.value.id == "self" and node.attr in AUDIT_ATTRS:
            self.emit("R:" + node.attr)
        else:
            self.visit(node.value)
            if node.attr in ("expect_continue", "headers_finished", "completed", "empty", "error", "close_on_finish",
                             "send_bytes", "channel_request_lookahead", "outbuf_high_watermark"):
                self.emit("." + node.attr)

    def visit_Call(self, node):
        f = node.func
        for a in node.args:
            if isinstance(f, ast.Attribute) and f.attr == "_flush_exception" and isinstance(a, ast.Name):
                self.emit("flush")
            else:
                self.visit(a)
        for k in node.keywords:
            self.emit("%s=%s" % (k.arg, ast.unparse(k.value)))
        if isinstance(f, ast.Attribute):
            self.visit(f.value)
            if f.attr in AUDIT_CALLS or f.attr == "service":
                self.emit(f.attr + "()")
        elif isinstance(f, ast.Name):
            if f.id == "len":
                self.emit("len()")
            elif self.flush_param is not None and f.id == self.flush_param:
                self.emit("flush()")

    # the callable handed to _flush_exception: its parameter there, and whatever LOCAL name handle_write
    # (or any caller) gives it -- the token is "flush" whatever the local is called (cosmetic renames of
    # function-local names must not change the signature)
    flush_param = None

    def visit_Name(self, node):
        if self.flush_param is not None and node.id == self.flush_param:
            self.emit("flush")

    def visit_Constant(self, node):
        if node.value in (True, False, None, 0, 1):
            self.emit(repr(node.value))


def shape_signature(src_path):
    """-> {method: signature string} for HTTPChannel's audited methods."""
    tree = ast.parse(open(src_path).read())
    sigs = {}
    for cls in tree.body:
        if isinstance(cls, ast.ClassDef) and cls.name == "HTTPChannel":
            for fn in cls.body:
                if isinstance(fn, ast.FunctionDef) and fn.name in AUDIT_METHODS:
                    v = _Sig()
                    if fn.name == "_flush_exception" and len(fn.args.args) > 1:
                        v.flush_param = fn.args.args[1].arg
                    for s in fn.body:
                        if isinstance(s, ast.Expr) and isinstance(s.value, ast.Constant) and isinstance(s.value.value, str):
                            continue
                        v.visit(s)
                    sigs[fn.name] = " ".join(v.out)
    return sigs


def dispatcher_signature(src_path):
    tree = ast.parse(open(src_path).read())
    sigs = {}
    for cls in tree.body:
        if isinstance(cls, ast.ClassDef) and cls.name == "ThreadedTaskDispatcher":
            for fn in cls.body:
                if isinstance(fn, ast.FunctionDef) and fn.name in ("handler_thread", "add_task"):
                    v = _DSig()
                    for s in fn.body:
                        v.visit(s)
                    sigs[fn.name] = " ".join(v.out)
    return sigs


class _DSig(_Sig):
    def visit_Attribute(self, node):
        if isinstance(node.value, ast.Name) and node.value.id == "self" and node.attr in ("queue", "stop_count", "lock", "queue_cv"):
            self.emit("R:" + node.attr)
        else:
            self.visit(node.value)

    def visit_Call(self, node):
        f = node.func
        for a in node.args:
            self.visit(a)
        if isinstance(f, ast.Attribute):
            self.visit(f.value)
            if f.attr in ("wait", "notify", "popleft", "append", "service", "discard"):
                self.emit(f.attr + "()")


def sig_hash(sigs):
    return {k: hashlib.sha1(v.encode()).hexdigest()[:12] for k, v in sigs.items()}


# ----------------------------------------------------------------------------
# scenario generator (all randomness from the rng handed in)


def gen_scenario(rng, max_reqs=4):
    n = rng.randint(1, max_reqs)
    reqs = []
    for i in range(n):
        path = "/" + "abcdefgh"[i]
        k = rng.random()
        chunks = [path.encode() * rng.randint(1, 12) for _ in range(rng.randint(0, 3))]
        if k < 0.3:
            body = b"x" * rng.randint(1, 9) if rng.random() < 0.85 else b""
            reqs.append(Req(path, expect=True, body=body, chunks=chunks, close=rng.random() < 0.1))
        elif k < 0.42:
            reqs.append(Req(path, body=b"y" * rng.randint(1, 9), chunks=chunks, close=rng.random() < 0.1))
        else:
            reqs.append(Req(path, chunks=chunks, close=rng.random() < 0.12))
    scn0 = Scenario(reqs)
    total = len(scn0.stream())
    bounds = scn0.item_bounds()
    cuts = []
    pos = 0
    for r in reqs:
        if r.expect and r.body and rng.random() < 0.7:
            cuts.append(pos + len(r.head()))        # the body travels separately from the head
        pos += len(r.bytes())
    for _ in range(rng.randint(0, 2)):
        cuts.append(rng.choice(bounds) if rng.random() < 0.6 else rng.randint(1, max(1, total - 1)))
    plan = [rng.choice([0, 1, 5, 30, 100, 1 << 20]) for _ in range(rng.randint(0, 6))]
    return Scenario(reqs, cuts=cuts, send_plan=plan, lookahead=rng.choice([0, 0, 1, 2]), n_workers=rng.choice([1, 2, 3]),
                    send_bytes=rng.choice([1, 1, 1, 50, 18000]), sndbuf=rng.choice([1 << 16, 64, 200]),
                    eof=rng.random() < 0.15)


def scenario_dist(scns):
    d = {"requests": {}, "expecting": 0, "late_expecting": 0, "close": 0, "lookahead": {}, "workers": {}, "eof": 0,
         "partial_send_plans": 0}
    for s in scns:
        d["requests"][len(s.reqs)] = d["requests"].get(len(s.reqs), 0) + 1
        d["expecting"] += any(r.expect for r in s.reqs)
        d["late_expecting"] += s.has_late_expect()
        d["close"] += any(r.close for r in s.reqs)
        d["lookahead"][s.lookahead] = d["lookahead"].get(s.lookahead, 0) + 1
        d["workers"][s.n_workers] = d["workers"].get(s.n_workers, 0) + 1
        d["eof"] += s.eof
        d["partial_send_plans"] += any(p < (1 << 20) for p in s.send_plan)
    return d


# ----------------------------------------------------------------------------
# The shape the model was written against (shape_signature / dispatcher_signature of the
# pinned tree).  Which model steps stand for which part is listed in the header of
# coq/Model/ChanPipe.v.  Any edit that adds or removes an access of a shared attribute, moves a
# statement across a `with` boundary, changes a flag test or a call among the audited ones
# changes these strings.

EXPECTED_SHAPE = {'_flush_exception': 'if( flush ){ try{ do_close=do_close flush() False return } except(OSError){ if( ){ } '
                     'True W:will_close False True return } except(Exception){ True W:will_close False True '
                     'return } } False False return',
 '_flush_outbufs_below_high_watermark': 'if( R:total_outbufs_len Gt .outbuf_high_watermark ){ '
                                        'with(outbuf_lock){ if( not R:connected ){ return } do_close=False '
                                        '_flush_exception() if( ){ pull_trigger() wait() return } while( '
                                        'and( R:connected , R:total_outbufs_len Gt .outbuf_high_watermark , '
                                        ') ){ pull_trigger() wait() } } }',
 '_flush_some': '0 False while( True ){ R:outbufs 0 while( Gt 0 ){ get() do_close=do_close send() if( ){ '
                'True skip() R:total_outbufs_len W:total_outbufs_len } else{ True break } } else{ if( '
                'R:outbufs len() Gt 1 ){ 0 R:outbufs pop() try{ close() } except(Exception){ } } else{ True '
                '} } if( ){ break } } if( ){ W:last_activity True return } False return',
 '_flush_some_if_lockable': 'if( False acquire() ){ try{ do_close=do_close _flush_some() if( '
                            'R:total_outbufs_len LtE .outbuf_high_watermark ){ notify() } } finally{ '
                            'release() } }',
 'handle_close': 'with(outbuf_lock){ for( R:outbufs ){ try{ close() } except(Exception){ } } 0 '
                 'W:total_outbufs_len False W:connected notify() } close()',
 'handle_read': 'try{ recv() } except(OSError){ if( ){ } handle_close() return } if( ){ W:last_activity '
                'received() } else{ False W:connected }',
 'handle_write': 'if( not R:requests ){ } else{ if( or( R:total_outbufs_len GtE .send_bytes , '
                 'R:total_outbufs_len Gt .outbuf_high_watermark , ) ){ } else{ None } } flush '
                 '_flush_exception() if( and( R:close_when_flushed , not R:total_outbufs_len , ) ){ False '
                 'W:close_when_flushed True W:will_close } if( R:will_close ){ handle_close() }',
 'readable': 'not or( R:will_close , R:close_when_flushed , R:requests len() Gt .channel_request_lookahead , '
             'R:total_outbufs_len , ) return',
 'received': 'if( not ){ False return } with(requests_lock){ if( or( R:will_close , R:close_when_flushed , ) '
             '){ False return } while( ){ if( R:request Is None ){ W:request } R:request received() if( and( '
             'R:request .expect_continue , R:request .headers_finished , not R:requests , not '
             'R:sent_continue , ) ){ send_continue() } if( R:request .completed ){ False W:sent_continue if( '
             'not R:request .empty ){ R:request R:requests append() if( R:requests len() Eq 1 ){ add_task() '
             '} } None W:request } if( GtE len() ){ break } } } True return',
 'send_continue': 'False R:request .expect_continue= len() with(outbuf_lock){ R:outbufs 1 append() '
                  'R:current_outbuf_count W:current_outbuf_count R:total_outbufs_len W:total_outbufs_len '
                  'True W:sent_continue do_close=do_close _flush_exception() }',
 'service': 'R:requests 0 if( .error ){ } else{ } try{ if( and( R:connected , not R:will_close , ) ){ '
            'service() } else{ True .close_on_finish= } } except(ClientDisconnected){ True .close_on_finish= '
            '} except(BaseException){ if( not ){ if( ){ } else{ } .error= .version= None .command= try{ } except(KeyError){ '
            '} try{ service() } except(ClientDisconnected){ True .close_on_finish= } } else{ True '
            '.close_on_finish= } } if( .close_on_finish ){ with(requests_lock){ True W:close_when_flushed '
            'for( R:requests ){ close() } W:requests } } else{ if( R:requests len() Gt 1 ){ '
            '_flush_outbufs_below_high_watermark() } if( R:current_outbuf_count Gt 0 ){ '
            '.outbuf_high_watermark W:current_outbuf_count } close() with(requests_lock){ 0 R:requests pop() '
            'if( and( R:connected , R:requests , ) ){ add_task() } else{ if( and( R:connected , R:request '
            'IsNot None , R:request .expect_continue , R:request .headers_finished , not R:sent_continue , ) '
            '){ do_close=False send_continue() } } } } if( R:connected ){ pull_trigger() } W:last_activity',
 'writable': 'or( R:total_outbufs_len Gt 0 , R:will_close , R:close_when_flushed , ) return',
 'write_soon': 'if( not R:connected ){ raise(ClientDisconnected) } if( ){ with(outbuf_lock){ '
               '_flush_outbufs_below_high_watermark() if( not R:connected ){ raise(ClientDisconnected) } '
               'len() if( ){ R:outbufs append() R:outbufs append() 0 W:current_outbuf_count } else{ if( '
               'R:current_outbuf_count GtE .outbuf_high_watermark ){ R:outbufs append() 0 '
               'W:current_outbuf_count } R:outbufs 1 append() R:current_outbuf_count W:current_outbuf_count '
               '} R:total_outbufs_len W:total_outbufs_len if( R:total_outbufs_len GtE .send_bytes ){ '
               'do_close=False _flush_exception() if( or( , not , R:total_outbufs_len GtE .send_bytes , ) ){ '
               'pull_trigger() } } } return } 0 return'}

EXPECTED_DISPATCHER_SHAPE = {'add_task': 'with(lock){ R:queue append() R:queue_cv notify() R:queue R:stop_count if( Gt ){ } }',
 'handler_thread': 'while( True ){ with(lock){ while( and( not R:queue , R:stop_count Eq 0 , ) ){ 1 '
                   'R:queue_cv wait() 1 } if( R:stop_count Gt 0 ){ 1 1 discard() notify() break } R:queue '
                   'popleft() } try{ service() } except(BaseException){ } }'}


# A schedule (found by seeded random search, RandomPolicy(Random(0), stay=0.9)) under which the scenario
# checks.C04.f18_scenario() showed finding F18 on the tree before 8bcf05e: the worker's send_continue() and the
# I/O thread's unlocked _flush_some sent the same 151 bytes.  On the repaired tree the same choices are clean
# (the I/O thread's try-acquire fails); the check re-runs them every time as a regression.
F18_CHOICES = [0, 0, 0, 0, 2, 2, 1, 1, 1, 0, 0, 0, 0, 0, 0, 0, 0, 0, 0, 0, 0, 0, 0, 0, 0, 0, 0, 0, 0, 0, 0, 0, 0, 0, 0, 0, 0, 1, 0, 0, 1, 1, 1, 1, 1, 1, 1, 1, 1, 1, 1, 1, 1, 1, 0, 0, 0, 0, 0, 0, 0, 0, 0, 0, 0, 0, 0, 0, 0, 0, 0, 0, 0, 0, 0, 0, 0, 0, 1, 1, 1, 1, 1, 1, 1, 1, 1, 1, 1, 1, 1, 1, 1, 1, 1, 1, 0, 0, 0, 0, 0, 0, 0, 0, 0, 0, 0, 0, 0, 0, 0, 0, 0, 0, 0, 0, 0, 0, 0, 0, 0, 0, 0, 0, 1, 1, 0, 0, 0, 0, 0, 0, 0, 0, 0, 0, 0, 0, 1, 1, 1, 1, 1, 1, 1, 1, 1, 1, 1, 1, 0, 0, 0, 0, 0, 0]


# ----------------------------------------------------------------------------
# Output buffers that CHANGE REPRESENTATION under partial sends (added for the second wave of seeded
# changes: C04-w2m2 breaks C04_wire through buffers.FileBasedBuffer.__init__'s migration copy).
#
# An OverflowableBuffer goes  bytes -> BytesIO -> temporary file  as it grows (STRBUF_LIMIT, adj.outbuf_overflow)
# and HTTPChannel.write_soon rotates to a fresh buffer at adj.outbuf_high_watermark.  With the default limits
# (8192 / 1 MiB / 16 MiB) none of the scenarios above ever leaves the bytes stage.  A BufScenario shrinks
# the three limits (STRBUF_LIMIT is a module constant of waitress.buffers: it is replaced for the duration
# of the run and restored) and uses send plans that accept a few bytes and then nothing, so that the READ
# POSITION of a buffer is non-zero when it migrates.  The oracle is unchanged (the lone response under the
# default limits): the wire monitor then sees dropped / duplicated / reordered bytes.
#
# Model/ChanPipe.v abstracts a buffer as a length and does not model the high-watermark wait (ASSUMPTIONS
# of checks/C04.py: back-pressure is C12's), so these runs are judged by the MONITOR ONLY; they are not
# replayed on the extracted model.


class BufScenario(Scenario):
    def __init__(self, reqs, cuts=(), send_plan=(), lookahead=0, n_workers=1, send_bytes=1, sndbuf=1 << 16,
                 eof=False, max_steps=40000, strbuf_limit=64, overflow=200, high_watermark=16777216, granularity="locks"):
        Scenario.__init__(self, reqs, cuts, send_plan, lookahead, n_workers, send_bytes, sndbuf, eof, max_steps)
        self.strbuf_limit = strbuf_limit
        self.overflow = overflow
        self.high_watermark = high_watermark
        self.granularity = granularity

    def to_json(self):
        d = Scenario.to_json(self)
        d["buf"] = {"strbuf_limit": self.strbuf_limit, "overflow": self.overflow, "high_watermark": self.high_watermark,
                    "granularity": self.granularity}
        return d

    @staticmethod
    def from_json(d):
        b = d["buf"]
        return BufScenario([Req.from_json(r) for r in d["reqs"]], d["cuts"], d["send_plan"], d["lookahead"], d["n_workers"],
                           d["send_bytes"], d["sndbuf"], d["eof"], max(40000, d.get("max_steps", 40000)), b["strbuf_limit"], b["overflow"],
                           b["high_watermark"], b.get("granularity", "locks"))


class FairPolicy:
    """The I/O thread busy-polls while a worker holds outbuf_lock, while the kernel accepts nothing, or while
    0 < total_outbufs_len < send_bytes with a request in service (writable() is true, handle_write does not
    flush); a policy that keeps preferring it never lets anybody else run (an unfair schedule, never quiescent).
    Lets the inner policy decide unless the chosen thread went through `spin` select() calls in a row
    with nobody else running in between although somebody else is enabled: then the next enabled thread
    runs one step.  The decisions are recorded in Scheduler.choices as always: replay is exact.

    STALL VERDICT.  A raw step budget is not evidence of a stall (a trickling socket under a schedule that
    favours the polling I/O thread legitimately needs thousands of steps).  When `world` is set (a PipeWorld
    with snapshots) the policy looks, every 64 decisions, at the last `window` scheduled operations and
    declares a stall only if ALL of the following hold over that window:
      * the abstract state (requests, total_outbufs_len, every buffer length, connected / will_close /
        close_when_flushed, dispatcher queue, bytes on the wire) did not change,
      * no progress event was recorded (wire, recv, app_call, service_start/_end, write_soon, send_continue,
        add_task, close, map_del, a client step, a condition wait/wake),
      * the I/O thread completed at least `rounds` full poll rounds (select() calls),
      * every thread that is runnable now was scheduled at least `rounds` times (so nobody who could change
        the state was starved).
    It then records the justification in world.stall and ends the run (Scheduler.max_steps := now).  A run that
    exhausts max_steps WITHOUT this justification is `inconclusive`, counted, and not a violation."""

    PROGRESS = frozenset({"wire", "recv", "app_call", "service_start", "service_end", "write_soon", "send_continue", "add_task",
                          "close", "map_del", "decide", "client:send", "client:close", "client:stall", "client:resume",
                          "client:wait_wire", "wait", "wake", "reacquire", "thread_start", "begin", "end", "crash"})

    def __init__(self, inner=None, spin=3, window=900, rounds=12):
        self.inner = inner
        self.spin = spin
        self.world = None
        self.window = window
        self.rounds = rounds

    @staticmethod
    def _sig(snap):
        return None if snap is None else (snap["rq"], snap["tot"], tuple(snap["obs"]), snap["conn"], snap["wc"], snap["cwf"],
                                          snap["q"], snap["wire"])

    def check_stall(self, sched, enabled):
        w = self.world
        idx = sorted(sched.snaps)            # event indices of the scheduled operations
        if len(idx) < self.window:
            return None
        first = idx[-self.window]
        ev = sched.events
        sig0 = self._sig(sched.snaps[first])
        if sig0 is None or self._sig(w.snapshot()) != sig0:
            return None
        per_thread = {}
        selects = 0
        for k in range(first, len(ev)):
            th, kind, _ = ev[k]
            if kind in self.PROGRESS:
                return None
            if k in sched.snaps:
                if self._sig(sched.snaps[k]) != sig0:
                    return None
                per_thread[th] = per_thread.get(th, 0) + 1
                if kind == "select":
                    selects += 1
        if selects < self.rounds:
            return None
        for t in enabled:
            if per_thread.get(t.name, 0) < self.rounds:
                return None
        return {"window_operations": self.window, "io_poll_rounds_in_window": selects,
                "operations_per_thread_in_window": per_thread, "runnable_now": [t.name for t in enabled],
                "blocked_now": [list(map(str, b)) for b in sched.blocked() if b[0] not in [t.name for t in enabled]],
                "unchanged_state": {"requests": sig0[0], "total_outbufs_len": sig0[1], "outbuf_lengths": list(sig0[2]), "connected": sig0[3],
                                    "will_close": sig0[4], "close_when_flushed": sig0[5], "queue": sig0[6], "wire_bytes": sig0[7]},
                "at_step": sched.step_no}

    def __call__(self, sched, enabled, cont):
        if self.world is not None and sched.step_no % 64 == 0 and getattr(self.world, "stall", None) is None and sched.snaps:
            st = self.check_stall(sched, enabled)
            if st is not None:
                self.world.stall = st
                sched.max_steps = sched.step_no      # Scheduler.run stops before the next operation
        idx = (cont if cont is not None else 0) if self.inner is None else self.inner(sched, enabled, cont) % len(enabled)
        if len(enabled) > 1:
            name = enabled[idx].name
            n = 0
            ev = sched.events
            for k in range(len(ev) - 1, max(-1, len(ev) - 400), -1):
                if ev[k][0] != name:
                    break
                if ev[k][1] == "select":
                    n += 1
                    if n >= self.spin:
                        return (idx + 1) % len(enabled)
        return idx


def stall_verdict(world):
    """-> (key, text) for a JUSTIFIED stall, ("inconclusive", text) when the step budget ran out without one, None otherwise."""
    st = getattr(world, "stall", None)
    if st is not None:
        return ("stalled", "the connection is stalled: over the last %d scheduled operations (%d full poll rounds of the I/O thread, every "
                "runnable thread %r scheduled at least %d times, blocked: %r) nothing changed: %r and no progress event; %d steps in"
                % (st["window_operations"], st["io_poll_rounds_in_window"], st["runnable_now"],
                   min([st["operations_per_thread_in_window"].get(t, 0) for t in st["runnable_now"]] or [0]), st["blocked_now"],
                   st["unchanged_state"], st["at_step"]))
    if world.verdict == "overrun":
        return ("inconclusive", "step budget of %d exhausted without a justified stall (state still changing or a thread starved)" % world.scn.max_steps)
    return None


class BufWorld(PipeWorld):
    """PipeWorld with small buffer limits; records every change of representation of an output buffer
    (kind, read position of the old file, unread bytes) in self.migrations."""

    def __init__(self, scn, schedule=(), policy=None):
        PipeWorld.__init__(self, scn, schedule=schedule, policy=FairPolicy(policy), granularity=scn.granularity, snapshots=True)
        self.adj_kw.update({"outbuf_overflow": scn.overflow, "outbuf_high_watermark": scn.high_watermark})
        self.stall = None
        self.sched.policy.world = self
        self.migrations = []
        self.rotations = 0

    def run(self):
        import waitress.buffers as wbuffers
        import waitress.channel as wchannel
        from harness.fake_threading import patched
        world = self

        class CountingBuffer(wbuffers.OverflowableBuffer):
            def __init__(self, overflow):
                wbuffers.OverflowableBuffer.__init__(self, overflow)
                world.rotations += 1

            def _note(self, kind):
                old = self.buf
                pos = None
                if old is not None:
                    try:
                        pos = old.getfile().tell()
                    except Exception:
                        pos = None
                world.migrations.append((kind, pos, old.__len__() if old is not None else len(self.strbuf)))

            def _set_small_buffer(self):
                self._note("bytes->BytesIO" if self.buf is None else "file->BytesIO")
                return wbuffers.OverflowableBuffer._set_small_buffer(self)

            def _set_large_buffer(self):
                self._note("bytes->tempfile" if self.buf is None else "BytesIO->tempfile")
                return wbuffers.OverflowableBuffer._set_large_buffer(self)

        with patched(wbuffers, STRBUF_LIMIT=self.scn.strbuf_limit), patched(wchannel, OverflowableBuffer=CountingBuffer):
            return PipeWorld.run(self)


def buf_monitor(world):
    """monitor() plus: the channel never calls send() with an empty chunk (a buffer that claims unsent bytes
    but yields none has lost them), and a JUSTIFIED stall (FairPolicy.check_stall: nothing changes over a
    window in which every runnable thread ran; a bare step-budget overrun is inconclusive, not a violation)."""
    bad = monitor(world)
    ev = world.sched.events
    empty = [i for i, e in enumerate(ev) if e[1] == "sock_send" and e[2] == 0]
    if empty:
        bad.append(("empty-send", "C04_wire: send() called %d times with an EMPTY chunk while total_outbufs_len > 0: an output buffer "
                    "reports unsent bytes that it cannot produce (bytes lost inside the buffer layer); %d bytes on the wire"
                    % (len(empty), len(world.wire))))
    sv = stall_verdict(world)
    if sv is not None and sv[0] == "stalled":
        bad.append(sv)
    return bad


def buf_directed():
    """Responses of several writes that overflow a partly sent buffer."""
    out = []
    big = [bytes([65 + i]) * n for i, n in enumerate([50, 60, 120, 90, 40])]       # 360 bytes in 5 writes
    a = Req("/a", chunks=big)
    b = Req("/b", chunks=[b"small"])
    # the head (> STRBUF_LIMIT) puts the buffer in its BytesIO stage; 7 bytes leave; nothing more is accepted while
    # the task appends up to outbuf_overflow: BytesIO -> tempfile with read position 7
    out.append(("buf-partial-then-overflow", BufScenario([a, b], send_plan=[7] + [0] * 6)))
    out.append(("buf-partial-then-overflow-2w", BufScenario([a, b], send_plan=[7] + [0] * 6, n_workers=2, lookahead=1)))
    out.append(("buf-overflow-unsent", BufScenario([a, b], send_plan=[0] * 7)))                      # read position 0 (the case unit tests build)
    out.append(("buf-trickle", BufScenario([a, b], send_plan=[3, 0, 5, 0, 11, 0, 2, 0, 30, 0], sndbuf=64)))
    out.append(("buf-rotate", BufScenario([a, b], send_plan=[7] + [0] * 4, high_watermark=150, sndbuf=64)))
    out.append(("buf-rotate-backpressure", BufScenario([a, b], send_plan=[9, 0, 0, 4, 0], high_watermark=100, overflow=80, sndbuf=32)))
    c = Req("/c", chunks=[b"c" * 300, b"d" * 10])        # one write beyond outbuf_overflow: bytes -> tempfile directly
    out.append(("buf-one-big-write", BufScenario([c, b], send_plan=[5, 0, 0])))
    out.append(("buf-big-strbuf", BufScenario([a, b], send_plan=[7] + [0] * 6, strbuf_limit=8192, overflow=250)))  # bytes stage -> tempfile
    out.append(("buf-eof", BufScenario([a, b], send_plan=[7] + [0] * 6, eof=True)))
    # three responses of several writes queued in three buffers (service() forces a fresh buffer per request) before
    # anything leaves: appends must go to the LAST buffer, the flush must take them in order
    q = [Req("/" + ch, chunks=[ch.encode() * 30, ch.upper().encode() * 45, ch.encode() * 20]) for ch in "xyz"]
    out.append(("buf-three-queued", BufScenario(q, send_plan=[0] * 14, lookahead=2)))
    out.append(("buf-three-queued-trickle", BufScenario(q, send_plan=[4] + [0] * 9 + [9, 0, 0, 13], lookahead=2, n_workers=2, sndbuf=64, overflow=120)))
    # regression for a FALSE stall verdict of an earlier version of this harness (raw 2500-step budget): three responses trickle
    # through a 32-byte send buffer with send_bytes = high_watermark = 100; while 0 < total_outbufs_len < send_bytes and a request
    # is in service the I/O thread polls without flushing (writable() true, handle_write declines), which costs many steps
    # under schedules that favour it -- and then completes (1321 bytes)
    s3 = [Req("/a", chunks=[b"1" * 50, b"2" * 50, b"3" * 333, b"4" * 20]), Req("/b", chunks=[b"5" * 10]),
          Req("/c", chunks=[b"6", b"7" * 20, b"8" * 200, b"9" * 333, b"0" * 20])]
    out.append(("buf-slow-quiescence", BufScenario(s3, send_plan=[7, 0, 64, 20, 0, 1048576, 1, 0, 7, 64, 64, 0], send_bytes=100, sndbuf=32,
                                                   strbuf_limit=16, overflow=200, high_watermark=100, granularity="attrs")))
    e = Req("/e", expect=True, body=b"12345", chunks=big)
    out.append(("buf-expect", BufScenario([b, e], cuts=[len(b.bytes()) + len(e.head())], send_plan=[20, 0, 6, 0, 0, 0], lookahead=1, n_workers=2)))
    return out


def gen_buf_scenario(rng):
    n = rng.choice([1, 2, 2, 3, 3, 4])
    reqs = []
    for i in range(n):
        path = "/" + "abcd"[i]
        if i == 0 or rng.random() < 0.5:
            chunks = [bytes([48 + rng.randrange(70)]) * rng.choice([1, 20, 50, 64, 90, 130, 200, 333]) for _ in range(rng.randint(2, 7))]
        else:
            chunks = [path.encode() * rng.randint(1, 5)]
        if rng.random() < 0.15:
            reqs.append(Req(path, expect=True, body=b"x" * rng.randint(1, 6), chunks=chunks))
        else:
            reqs.append(Req(path, chunks=chunks, close=rng.random() < 0.08))
    cuts = []
    pos = 0
    for r in reqs:
        if r.expect and r.body:
            cuts.append(pos + len(r.head()))
        pos += len(r.bytes())
    plan = []
    for _ in range(rng.randint(2, 12)):
        k = rng.random()
        plan.append(0 if k < 0.55 else rng.choice([1, 3, 7, 20, 64, 150]) if k < 0.95 else (1 << 20))
    if rng.random() < 0.7:
        plan[0] = rng.choice([1, 3, 7, 20])          # something leaves first: the read position is non-zero
    return BufScenario(reqs, cuts=cuts, send_plan=plan, lookahead=rng.choice([0, 1, 2]), n_workers=rng.choice([1, 2]),
                       send_bytes=rng.choice([1, 1, 1, 100]), sndbuf=rng.choice([32, 64, 200, 1 << 16]), eof=rng.random() < 0.1,
                       strbuf_limit=rng.choice([16, 64, 64, 256, 8192]), overflow=rng.choice([80, 200, 200, 500]),
                       high_watermark=rng.choice([100, 300, 1000, 16777216, 16777216]),
                       granularity=rng.choice(["locks", "locks", "locks", "attrs"]))


# ----------------------------------------------------------------------------
# Request streams whose parsing depends on HOW THE BYTES ARRIVE (added for the third wave of seeded changes:
# C04-w3m2 makes ChunkedReceiver.received mis-count the bytes consumed when the final CR LF of a chunked body is
# split between two reads; the next pipelined request loses its first byte and `ET /second` is executed).
#
# A SegScenario is a pipeline that mixes body-less, Content-Length and chunked requests (chunk extensions,
# trailer fields) delivered under an explicit segmentation (`cuts`: the offsets at which the client's stream is
# cut into separate send()s; the scripted socket hands the server one piece per recv()).  The application echoes
# what it was called with (method, path, body) and the world records the calls, so a request that reaches the
# application differently from how the client sent it changes both the call record and the wire.  The oracle is
# the lone run: each request alone on a fresh connection, delivered whole.
#
# Model/ChanPipe.v abstracts parsing (a request is an id; `received` consumes whole items), so these runs are
# judged by the MONITOR ONLY (monitor() + the call record); they are not replayed on the extracted model.


class SReq:
    """framing: "none" | "cl" | "chunked"; sizes: the chunk sizes the body is cut into (chunked);
    ext: chunk extension text appended to every chunk-size line; trailer: trailer field lines after the last chunk."""
    expect = False

    def __init__(self, path, method="GET", framing="none", body=b"", sizes=(), ext="", trailer=(), close=False):
        self.path, self.method, self.framing, self.body = path, method, framing, bytes(body)
        self.sizes, self.ext, self.trailer, self.close = list(sizes), ext, list(trailer), close

    def head(self):
        h = "%s %s HTTP/1.1\r\nHost: x\r\n" % (self.method, self.path)
        if self.framing == "cl":
            h += "Content-Length: %d\r\n" % len(self.body)
        elif self.framing == "chunked":
            h += "Transfer-Encoding: chunked\r\n"
        if self.close:
            h += "Connection: close\r\n"
        return (h + "\r\n").encode()

    def payload(self):
        if self.framing == "cl":
            return self.body
        if self.framing != "chunked":
            return b""
        out = b""
        pos = 0
        sizes = list(self.sizes) or ([len(self.body)] if self.body else [])
        for n in sizes:
            part = self.body[pos:pos + n]
            pos += len(part)
            if part:
                out += ("%x%s\r\n" % (len(part), self.ext)).encode() + part + b"\r\n"
        if pos < len(self.body):
            part = self.body[pos:]
            out += ("%x%s\r\n" % (len(part), self.ext)).encode() + part + b"\r\n"
        out += b"0\r\n" + b"".join(t.encode() + b"\r\n" for t in self.trailer) + b"\r\n"
        return out

    def bytes(self):
        return self.head() + self.payload()

    def expected_call(self):
        return [self.method, self.path, (self.body if self.framing != "none" else b"").hex()]

    def key(self):
        return ("seg", self.path, self.method, self.framing, self.body, tuple(self.sizes), self.ext, tuple(self.trailer), self.close)

    def to_json(self):
        return {"path": self.path, "method": self.method, "framing": self.framing, "body": self.body.hex(), "sizes": self.sizes,
                "ext": self.ext, "trailer": self.trailer, "close": self.close}

    @staticmethod
    def from_json(d):
        return SReq(d["path"], d["method"], d["framing"], bytes.fromhex(d["body"]), d["sizes"], d["ext"], d["trailer"], d["close"])


class SegScenario(Scenario):
    def __init__(self, reqs, cuts=(), lookahead=0, n_workers=1, send_plan=(), eof=False, max_steps=40000, seg_kind="?"):
        Scenario.__init__(self, reqs, cuts, send_plan, lookahead, n_workers, 1, 1 << 16, eof, max_steps)
        self.seg_kind = seg_kind

    def app(self):  # replaced per world by SegWorld (it records the calls)
        return None

    def to_json(self):
        d = Scenario.to_json(self)
        d["seg"] = {"kind": self.seg_kind, "pieces": len([c for c in self.cuts if 0 < c < len(self.stream())]) + 1}
        return d

    @staticmethod
    def from_json(d):
        return SegScenario([SReq.from_json(r) for r in d["reqs"]], d["cuts"], d["lookahead"], d["n_workers"], d["send_plan"],
                           d["eof"], max(40000, d.get("max_steps", 40000)), d.get("seg", {}).get("kind", "?"))

    def final_crlf_cuts(self):
        """Cut positions that fall between the CR and the LF that end a chunked request which is followed by
        another request (the class C04-w3m2 needs)."""
        out = []
        pos = 0
        for i, r in enumerate(self.reqs):
            pos += len(r.bytes())
            if r.framing == "chunked" and i + 1 < len(self.reqs) and (pos - 1) in self.cuts:
                out.append(pos - 1)
        return out


class SegWorld(PipeWorld):
    def __init__(self, scn, schedule=(), policy=None, granularity="locks"):
        PipeWorld.__init__(self, scn, schedule=schedule, policy=FairPolicy(policy), granularity=granularity, snapshots=True)
        self.stall = None
        self.sched.policy.world = self
        self.calls = []
        world = self

        def app(environ, start_response):
            body = environ["wsgi.input"].read()
            rec = [environ["REQUEST_METHOD"], environ["PATH_INFO"], body.hex()]
            world.calls.append(rec)
            out = ("%s %s %d:" % (rec[0], rec[1], len(body))).encode() + body
            start_response("200 OK", [("Content-Length", str(len(out)))])
            return [out[:7], out[7:]] if len(out) > 7 else [out]
        self.app_fn = app


def seg_response_alone(req):
    k = req.key()
    if k not in _ALONE:
        w = SegWorld(SegScenario([req]))
        w.run()
        if w.calls != [req.expected_call()] or not w.wire.startswith(b"HTTP/1.1 200 OK\r\n"):
            raise RuntimeError("oracle: the lone request %r was not executed as sent: calls %r wire %r" % (req.to_json(), w.calls, w.wire[:80]))
        _ALONE[k] = w.wire
    return _ALONE[k]


def seg_monitor(world):
    """monitor() with the lone-run oracle of the SReq requests, plus: the application was called with exactly
    the (method, path, body) of a prefix of the pipeline, in order."""
    scn = world.scn
    for r in scn.reqs:
        seg_response_alone(r)          # fills the oracle cache check_wire() reads
    bad = monitor(world)
    exp = [r.expected_call() for r in scn.reqs]
    if world.calls != exp[:len(world.calls)]:
        k = next((i for i, c in enumerate(world.calls) if i >= len(exp) or c != exp[i]), len(exp))
        got = world.calls[k] if k < len(world.calls) else None
        bad.append(("foreign-request", "C04_once / never mixed: application call %d is %r; the client sent %r (all calls: %r)" % (
            k, got and [got[0], got[1], bytes.fromhex(got[2])], exp[k][:2] + [bytes.fromhex(exp[k][2])] if k < len(exp) else None,
            [c[:2] for c in world.calls])))
    sv = stall_verdict(world)
    if sv is not None and sv[0] == "stalled":
        bad.append(sv)
    return bad


def cuts_of(pieces_):
    out = []
    pos = 0
    for p in pieces_[:-1]:
        pos += len(p)
        out.append(pos)
    return out


def seg_pipelines():
    """Directed pipelines mixing the three framings."""
    ch = lambda p, body, **kw: SReq(p, kw.pop("method", "POST"), "chunked", body, **kw)
    out = []
    out.append(("chunked-then-get", [ch("/first", b"hello"), SReq("/second")]))
    out.append(("chunked-ext-trailer-get", [ch("/a", b"abcdefghij", sizes=[3, 7], ext=";x=1"), ch("/b", b"wxyz", trailer=["X-T: v"], method="PUT"),
                                            SReq("/c", "DELETE")]))
    out.append(("cl-chunked-bodyless", [SReq("/p", "POST", "cl", b"12345"), ch("/q", b"0123456789abcdef", sizes=[1, 15], method="PUT"), SReq("/r", "OPTIONS")]))
    out.append(("get-chunked-cl-get", [SReq("/g"), ch("/h", b"HH", sizes=[1, 1]), SReq("/i", "POST", "cl", b"body-i"), SReq("/j")]))
    out.append(("chunked-empty-body-then-chunked", [ch("/e", b""), ch("/f", b"ff", ext=';n="q"'), SReq("/k", "POST", "cl", b"")]))
    out.append(("two-chunked-close", [ch("/m", b"mmmm"), ch("/n", b"nn", close=True)]))
    return out


def gen_seg_pipeline(rng, max_reqs=4):
    n = rng.randint(2, max_reqs)
    reqs = []
    for i in range(n):
        path = "/" + "abcdefgh"[i] + ("" if rng.random() < 0.7 else "/x%d" % rng.randint(0, 9))
        k = rng.random()
        if k < 0.45:
            body = bytes(rng.choice(b"abcxyz0159") for _ in range(rng.choice([0, 1, 2, 5, 9, 17, 30])))
            sizes = []
            left = len(body)
            while left > 0:
                s = rng.randint(1, max(1, left))
                sizes.append(s)
                left -= s
            reqs.append(SReq(path, rng.choice(["POST", "PUT", "PATCH"]), "chunked", body, sizes=sizes,
                             ext=rng.choice(["", "", ";a", ";a=b", ';q="v w"']),
                             trailer=rng.choice([[], [], [], ["X-Trailer: t"], ["A: 1", "B: 2"]])))
        elif k < 0.7:
            reqs.append(SReq(path, rng.choice(["POST", "PUT"]), "cl", bytes(rng.choice(b"abcxyz0159\r\n") for _ in range(rng.choice([0, 1, 4, 11, 26])))))
        else:
            reqs.append(SReq(path, rng.choice(["GET", "GET", "DELETE", "OPTIONS"])))
    if rng.random() < 0.1:
        reqs[-1].close = True
    return reqs


# ----------------------------------------------------------------------------
# CONFIGURATION KNOBS, FAILING APPLICATIONS and the INACTIVITY REAPER (added for the fourth wave of seeded
# changes: C04-w4m1 lets Task.service swallow an application OSError after the head of a Content-Length
# response without marking the connection for closing when log_socket_errors is off, so the next pipelined
# response follows a body shorter than announced; C04-w4m2 lets BaseWSGIServer.maintenance reap a channel
# that has a request in service).
#
# A FaultScenario is a pipeline of FReq requests whose application may raise (OSError subclasses and other
# exceptions) before start_response, after start_response before any output, after the head, in mid-body or
# after the last chunk, from its iterator or through the write() callable, with Content-Length / chunked /
# close-delimited (HTTP/1.0) responses, crossed with log_socket_errors, expose_tracebacks, lookahead and the
# number of workers.  A request may also be SLOW: while it is in service the fake clock advances past
# channel_timeout and the poll loop wakes up (a select timeout) with the REAL BaseWSGIServer.maintenance run
# from a listener object in the socket map on every poll turn, as the real listening socket does.
#
# The oracle is the CLIENT-SIDE READING of the wire (client_parse: status line, then Content-Length / chunked /
# EOF framing, as a client would) against the lone runs (each request alone on a fresh connection under the same
# adjustments): every response the client can delimit must be, byte for byte, the lone response of the next
# request in order; a response cut short must be the last thing on the wire and the connection must be closed;
# a response that is cut short or EOF-delimited in its lone run must close the connection there too; after a
# response whose lone run closed the connection nothing follows and no later request is executed; with no
# failing request, a reading client and no socket fault every request is executed once, answered completely,
# and the connection stays open.  Monitor only: Model/ChanPipe.v has no application failures, no adjustments
# besides lookahead / send_bytes, and no maintenance (ASSUMPTIONS of checks/C04.py).

FAULT_EXC = {"OSError": OSError, "ConnectionResetError": ConnectionResetError, "FileNotFoundError": FileNotFoundError,
             "TimeoutError": TimeoutError, "BrokenPipeError": BrokenPipeError, "ValueError": ValueError, "KeyError": KeyError,
             "RuntimeError": RuntimeError}
LISTEN_FD = 3


class FReq:
    """resp: "cl" | "chunked" (HTTP/1.1, no Content-Length, several chunks) | "eof" (HTTP/1.0 request, no
    Content-Length: close-delimited); fault: None or [at, exception name, via] with at = "before-start" |
    "after-start" | k (raise instead of producing chunk k; k == len(chunks): after the last one) and
    via = "iter" | "write"; slow: None or [ticks, seconds per tick]."""
    expect = False
    body = b""

    def __init__(self, path, resp="cl", chunks=None, fault=None, slow=None, close=False):
        self.path, self.resp, self.fault, self.slow, self.close = path, resp, fault, slow, close
        self.chunks = [path.encode() * 4, path.encode().upper() * 3] if chunks is None else list(chunks)

    def bytes(self):
        h = "GET %s HTTP/%s\r\nHost: x\r\n" % (self.path, "1.0" if self.resp == "eof" else "1.1")
        if self.close:
            h += "Connection: close\r\n"
        return (h + "\r\n").encode()

    head = bytes

    def key(self):
        return ("fault", self.path, self.resp, tuple(self.chunks), json_dumps(self.fault), json_dumps(self.slow), self.close)

    def to_json(self):
        return {"path": self.path, "resp": self.resp, "chunks": [c.hex() for c in self.chunks], "fault": self.fault, "slow": self.slow,
                "close": self.close}

    @staticmethod
    def from_json(d):
        return FReq(d["path"], d["resp"], [bytes.fromhex(c) for c in d["chunks"]], d["fault"], d["slow"], d["close"])


def json_dumps(x):
    import json
    return json.dumps(x, sort_keys=True)


class FaultScenario(Scenario):
    def __init__(self, reqs, cuts=(), send_plan=(), lookahead=0, n_workers=1, send_bytes=1, sndbuf=1 << 16, eof=False,
                 max_steps=40000, log_socket_errors=True, expose_tracebacks=False, maint=False, channel_timeout=120, granularity="locks"):
        Scenario.__init__(self, reqs, cuts, send_plan, lookahead, n_workers, send_bytes, sndbuf, eof, max_steps)
        self.log_socket_errors, self.expose_tracebacks = log_socket_errors, expose_tracebacks
        self.maint, self.channel_timeout, self.granularity = maint, channel_timeout, granularity

    def app(self):
        return None

    def cfg(self):
        return {"log_socket_errors": self.log_socket_errors, "expose_tracebacks": self.expose_tracebacks, "maint": self.maint,
                "channel_timeout": self.channel_timeout, "granularity": self.granularity}

    def to_json(self):
        d = Scenario.to_json(self)
        d["fault_cfg"] = self.cfg()
        return d

    @staticmethod
    def from_json(d):
        c = d["fault_cfg"]
        return FaultScenario([FReq.from_json(r) for r in d["reqs"]], d["cuts"], d["send_plan"], d["lookahead"], d["n_workers"],
                             d["send_bytes"], d["sndbuf"], d["eof"], max(40000, d.get("max_steps", 40000)), c["log_socket_errors"],
                             c["expose_tracebacks"], c["maint"], c["channel_timeout"], c.get("granularity", "locks"))

    def healthy(self):
        return (not self.eof and not any(r.fault or r.close or r.resp == "eof" for r in self.reqs)
                and not any(isinstance(p, (list, tuple)) for p in self.send_plan))


class _ReaperListener:
    """Stands in for the listening BaseWSGIServer in the socket map: readable() runs the REAL
    BaseWSGIServer.maintenance over the world's active_channels with the fake clock's time, on every poll turn."""
    accepting = True
    connected = False

    def __init__(self, world):
        self.w = world
        self.runs = 0

    def readable(self):
        from waitress.server import BaseWSGIServer
        w = self.w
        if w.tracing:
            self.runs += 1
            before = [object.__getattribute__(c, "will_close") for c in w.server.active_channels.values()]
            BaseWSGIServer.maintenance(w.server, w.ftime.time())
            after = [object.__getattribute__(c, "will_close") for c in w.server.active_channels.values()]
            if before != after:
                w.sched.note("reaped", w.ftime.time())
        return False

    def writable(self):
        return False

    def handle_read_event(self):  # pragma: no cover
        pass

    handle_write_event = handle_expt_event = handle_read_event

    def handle_error(self):  # pragma: no cover
        pass

    def handle_close(self):  # pragma: no cover
        pass


class FaultWorld(PipeWorld):
    def __init__(self, scn, schedule=(), policy=None):
        PipeWorld.__init__(self, scn, schedule=schedule, policy=FairPolicy(policy), granularity=scn.granularity, snapshots=True)
        self.adj_kw.update({"log_socket_errors": scn.log_socket_errors, "expose_tracebacks": scn.expose_tracebacks,
                            "channel_timeout": scn.channel_timeout})
        self.stall = None
        self.sched.policy.world = self
        self.calls = []
        self.raised = []
        self.ticks = 0
        self.listener = _ReaperListener(self) if scn.maint else None
        table = {r.path: r for r in scn.reqs}
        world = self
        from harness.sched import Op

        def fail(r):
            world.raised.append([r.path, r.fault[1]])
            world.sched.note("app_raise", [r.path, r.fault[0], r.fault[1]])
            raise FAULT_EXC[r.fault[1]]("injected by the application for %s" % r.path)

        def app(environ, start_response):
            r = table[environ["PATH_INFO"]]
            world.calls.append(r.path)
            if r.slow:
                # a slow application: time passes, the poll loop's select() times out and the loop takes a turn
                for _ in range(r.slow[0]):
                    world.sched.yield_(Op("clock:tick", r.slow[1]))
                    world.sched.clock += r.slow[1]
                    world.ticks += 1
                    world.trigger.pulled = True
                    world.sched.yield_(Op("app:slow", r.path, enabled=lambda: not world.trigger.pulled))
            at, via = (r.fault[0], r.fault[2]) if r.fault else (None, "iter")
            if at == "before-start":
                fail(r)
            headers = [("Content-Type", "text/plain")]
            if r.resp == "cl":
                headers.append(("Content-Length", str(sum(len(c) for c in r.chunks))))
            write = start_response("200 OK", headers)
            if at == "after-start":
                fail(r)
            if via == "write":
                for i, c in enumerate(r.chunks):
                    if at == i:
                        fail(r)
                    write(c)
                if at == len(r.chunks):
                    fail(r)
                return []

            def gen():
                for i, c in enumerate(r.chunks):
                    if at == i:
                        fail(r)
                    yield c
                if at == len(r.chunks):
                    fail(r)
            return gen()
        self.app_fn = app

    def _io_main(self):
        if self.listener is not None:
            self.map[LISTEN_FD] = self.listener
        return PipeWorld._io_main(self)


def client_parse(wire):
    """Read the wire as an HTTP client would.  -> list of {"raw", "complete", "framing", "status"}; the last
    element may be incomplete; framing "eof" consumes everything to the end."""
    out = []
    pos = 0
    while pos < len(wire):
        end = wire.find(b"\r\n\r\n", pos)
        if end < 0:
            out.append({"raw": wire[pos:], "complete": False, "framing": "head", "status": None})
            break
        head = wire[pos:end + 4]
        lines = head[:-4].split(b"\r\n")
        status = lines[0]
        hd = {}
        for ln in lines[1:]:
            k, _, v = ln.partition(b":")
            hd[k.strip().lower()] = v.strip()
        body_start = end + 4
        if not status.startswith(b"HTTP/1."):
            out.append({"raw": wire[pos:], "complete": False, "framing": "garbage", "status": status[:40]})
            break
        if b"chunked" in hd.get(b"transfer-encoding", b"").lower():
            p = body_start
            ok = False
            while True:
                le = wire.find(b"\r\n", p)
                if le < 0:
                    break
                try:
                    n = int(wire[p:le].split(b";")[0], 16)
                except ValueError:
                    break
                if n == 0:
                    te = wire.find(b"\r\n", le + 2)          # no trailers are ever sent: the final CRLF
                    if te == le + 2:
                        p = te + 2
                        ok = True
                    break
                if le + 2 + n + 2 > len(wire) or wire[le + 2 + n:le + 2 + n + 2] != b"\r\n":
                    break
                p = le + 2 + n + 2
            if ok:
                out.append({"raw": wire[pos:p], "complete": True, "framing": "chunked", "status": status})
                pos = p
                continue
            out.append({"raw": wire[pos:], "complete": False, "framing": "chunked", "status": status})
            break
        if b"content-length" in hd:
            n = int(hd[b"content-length"])
            if body_start + n <= len(wire):
                out.append({"raw": wire[pos:body_start + n], "complete": True, "framing": "cl", "status": status})
                pos = body_start + n
                continue
            out.append({"raw": wire[pos:], "complete": False, "framing": "cl", "status": status})
            break
        out.append({"raw": wire[pos:], "complete": False, "framing": "eof", "status": status})
        break
    return out


_LONE_FAULT = {}


def _nodate(b):
    """The Date header follows the (fake) clock, which a slow request advances: not part of the comparison."""
    import re
    return re.sub(rb"\r\nDate: [^\r]*\r\n", b"\r\nDate: -\r\n", b)


def fault_lone(req, scn):
    """The lone run of one request under the scenario's adjustments (no maintenance, default schedule, whole
    delivery).  -> {"wire", "closed", "parsed", "calls"}"""
    k = (req.key(), scn.log_socket_errors, scn.expose_tracebacks)
    if k not in _LONE_FAULT:
        r1 = FReq.from_json(dict(req.to_json(), slow=None))
        w = FaultWorld(FaultScenario([r1], log_socket_errors=scn.log_socket_errors, expose_tracebacks=scn.expose_tracebacks))
        w.run()
        fin = w.final
        _LONE_FAULT[k] = {"wire": w.wire, "closed": bool(w.sock.closed or not fin["connected"] or not fin["in_map"]),
                          "parsed": client_parse(w.wire), "calls": list(w.calls), "verdict": w.verdict}
    return _LONE_FAULT[k]


def fault_monitor(world):
    """-> list of (key, text).  See the section comment: the client-side reading of the wire against the lone runs."""
    scn = world.scn
    bad = []
    lones = [fault_lone(r, scn) for r in scn.reqs]
    paths = [r.path for r in scn.reqs]
    # the lone runs themselves: a response the client cannot delimit, or that is cut short, must end its connection
    for r, L in zip(scn.reqs, lones):
        p = L["parsed"]
        if len(p) != 1 and L["wire"]:
            bad.append(("lone-shape", "lone run of %s: the client reads %d responses: %r" % (r.path, len(p), L["wire"][:80])))
        elif p and not p[0]["complete"] and not L["closed"]:
            bad.append(("short-response-kept-open", "lone run of %s (fault %r, log_socket_errors=%s): the response is %s (%d bytes on the wire, "
                        "framing %s) and the connection is NOT closed: whatever is sent next on this connection is read by the client as "
                        "the rest of this response" % (r.path, r.fault, scn.log_socket_errors,
                                                       "close-delimited" if p[0]["framing"] == "eof" else "cut short", len(L["wire"]), p[0]["framing"])))
        _ALONE[r.key()] = L["wire"]
    quiet = world.verdict in ("blocked", "finished") and not world.sched.overrun
    fin = world.final
    closed = bool(world.sock.closed or not fin["connected"] or not fin["in_map"])
    parsed = client_parse(world.wire)
    ends_at = None             # index of the response after which the connection must be closed
    for k, pr in enumerate(parsed):
        if k >= len(lones):
            bad.append(("extra-response", "the client reads %d responses for %d requests; extra: %r" % (len(parsed), len(lones), pr["raw"][:60])))
            break
        L = lones[k]
        if pr["complete"]:
            if _nodate(pr["raw"]) != _nodate(L["wire"]):
                what = "bytes of a later response lie inside its announced length" if (
                    L["wire"] and pr["raw"].startswith(L["wire"]) and len(pr["raw"]) > len(L["wire"])) else "differs"
                bad.append(("response-mismatch", "response %d (%s) as the client delimits it (%s framing, %d bytes) is not the lone response of "
                            "that request (%d bytes): %s; client reads ...%r, lone response ends ...%r"
                            % (k, paths[k], pr["framing"], len(pr["raw"]), len(L["wire"]), what, pr["raw"][-50:], L["wire"][-50:])))
                break
        else:
            if k != len(parsed) - 1:     # cannot happen by construction of client_parse; kept as a guard
                bad.append(("short-not-last", "response %d cut short but not last" % k))
            if quiet:
                if _nodate(pr["raw"]) != _nodate(L["wire"]):
                    bad.append(("short-mismatch", "response %d (%s) is cut short / undelimited on the wire (%d bytes, framing %s) and is not the "
                                "lone response of that request (%d bytes)" % (k, paths[k], len(pr["raw"]), pr["framing"], len(L["wire"]))))
                elif not closed and world.sock.client_reading and not world.sock.rx:
                    bad.append(("short-kept-open", "response %d (%s) is cut short / close-delimited and the connection is still open at quiescence" % (k, paths[k])))
            break
        if L["closed"]:
            ends_at = k
            if k != len(parsed) - 1:
                bad.append(("after-close", "response %d (%s) closes the connection in its lone run, yet %d more bytes follow it on the wire"
                            % (k, paths[k], sum(len(x["raw"]) for x in parsed[k + 1:]))))
            break
    # what was executed
    first_closing = next((i for i, L in enumerate(lones) if L["closed"]), None)
    allowed = paths if first_closing is None else paths[:first_closing + 1]
    if world.calls != allowed[:len(world.calls)]:
        bad.append(("calls", "application calls %r are not a prefix of %r (the pipeline up to the first request whose lone run closes the connection)"
                    % (world.calls, allowed)))
    if quiet and scn.healthy() and world.sock.client_reading and not world.sock.client_gone and first_closing is None:
        done = sum(1 for x in parsed if x["complete"])
        if world.calls != paths or done != len(paths) or closed:
            bad.append(("healthy-lost", "healthy client (reading, no socket fault, no failing request, no Connection: close), quiescent: executed %r of %r, "
                        "%d of %d responses complete on the wire, connection %s (will_close=%s, maintenance ran %d times, clock advanced by %ss)"
                        % (world.calls, paths, done, len(paths), "CLOSED" if closed else "open", fin["will_close"],
                           world.listener.runs if world.listener else 0, world.sched.clock - 1000.0)))
    # never mixed / one queue entry (the schedule-dependent clauses), from the common monitor
    for key, text in monitor(world):
        if key in ("mixed", "entry", "once", "once-start"):
            bad.append((key, text))
    sv = stall_verdict(world)
    if sv is not None and sv[0] == "stalled":
        bad.append(sv)
    return bad


def fault_directed():
    out = []
    ok = lambda p, **kw: FReq(p, **kw)
    # the class of C04-w4m1: OSError after the head of a Content-Length response, socket errors not logged
    for lse in (True, False):
        for exc in ("OSError", "ConnectionResetError", "ValueError"):
            for via in ("iter", "write"):
                out.append(("cl-fault-mid-%s-%s-lse%d" % (exc, via, lse), FaultScenario(
                    [FReq("/a", fault=[1, exc, via]), ok("/b"), ok("/c")], log_socket_errors=lse, lookahead=1, n_workers=2)))
    for at in ("before-start", "after-start", 0, 1, 2):
        for lse, exp in ((True, False), (False, True), (False, False)):
            out.append(("fault-%s-lse%d-exp%d" % (at, lse, exp), FaultScenario(
                [ok("/a"), FReq("/b", fault=[at, "FileNotFoundError", "iter"]), ok("/c")], log_socket_errors=lse, expose_tracebacks=exp,
                lookahead=(0, 1, 5)[len(out) % 3])))
    for resp in ("chunked", "eof"):
        for at in ("after-start", 1, 2):
            out.append(("%s-fault-%s" % (resp, at), FaultScenario(
                [ok("/a"), FReq("/b", resp=resp, fault=[at, "TimeoutError", "iter"]), ok("/c")], log_socket_errors=False, lookahead=1)))
        out.append(("%s-no-fault" % resp, FaultScenario([ok("/a"), FReq("/b", resp=resp), ok("/c"), ok("/d")], lookahead=5, n_workers=2)))
    out.append(("no-fault-lse0", FaultScenario([ok("/a"), ok("/b"), ok("/c"), ok("/d")], log_socket_errors=False, lookahead=5, n_workers=2)))
    out.append(("fault-last", FaultScenario([ok("/a"), FReq("/b", fault=[1, "BrokenPipeError", "write"])], log_socket_errors=False)))
    out.append(("fault-partial-sends", FaultScenario([FReq("/a", fault=[1, "OSError", "iter"]), ok("/b")], log_socket_errors=False,
                                                     send_plan=[9, 0, 30, 0], sndbuf=64, lookahead=1)))
    return out


def maint_directed():
    """A slow request in service past channel_timeout with the real maintenance() running on every poll turn."""
    out = []
    ok = lambda p, **kw: FReq(p, **kw)
    for la in (0, 1, 5):
        for nw in (1, 2):
            out.append(("slow-middle-la%d-w%d" % (la, nw), FaultScenario(
                [ok("/one"), FReq("/slow", slow=[3, 50.0]), ok("/three")], lookahead=la, n_workers=nw, maint=True, channel_timeout=120)))
    out.append(("slow-first", FaultScenario([FReq("/slow", slow=[2, 200.0]), ok("/two"), ok("/three"), ok("/four")], lookahead=1, maint=True, channel_timeout=120)))
    out.append(("slow-chunked", FaultScenario([ok("/one"), FReq("/slow", resp="chunked", slow=[4, 40.0]), ok("/three")], lookahead=5, n_workers=2,
                                              maint=True, channel_timeout=100)))
    out.append(("slow-short-timeout", FaultScenario([ok("/one"), FReq("/slow", slow=[1, 2.0]), ok("/three")], lookahead=1, maint=True, channel_timeout=1)))
    out.append(("two-slow", FaultScenario([FReq("/s1", slow=[2, 90.0]), FReq("/s2", slow=[2, 90.0]), ok("/three")], lookahead=5, n_workers=2,
                                          maint=True, channel_timeout=120)))
    out.append(("slow-not-overdue", FaultScenario([ok("/one"), FReq("/slow", slow=[2, 10.0]), ok("/three")], lookahead=1, maint=True, channel_timeout=120)))
    return out


def gen_fault_scenario(rng):
    n = rng.randint(2, 4)
    reqs = []
    maint = rng.random() < 0.3
    for i in range(n):
        path = "/" + "abcd"[i]
        resp = rng.choice(["cl", "cl", "cl", "chunked", "eof"])
        chunks = [bytes([97 + rng.randrange(26)]) * rng.choice([1, 5, 12, 40]) for _ in range(rng.randint(2, 4))]
        fault = None
        slow = None
        if not maint and rng.random() < 0.35:
            at = rng.choice(["before-start", "after-start"] + list(range(len(chunks) + 1)))
            fault = [at, rng.choice(sorted(FAULT_EXC)), rng.choice(["iter", "iter", "write"])]
        if maint and rng.random() < 0.5:
            slow = [rng.randint(1, 3), rng.choice([2.0, 60.0, 130.0])]
            resp = rng.choice(["cl", "chunked"])
        reqs.append(FReq(path, resp=resp if not maint or resp != "eof" else "cl", chunks=chunks, fault=fault, slow=slow,
                         close=(not maint and rng.random() < 0.06)))
    plan = [rng.choice([0, 5, 30, 1 << 20]) for _ in range(rng.randint(0, 4))] if rng.random() < 0.4 else []
    return FaultScenario(reqs, send_plan=plan, lookahead=rng.choice([0, 1, 5]), n_workers=rng.choice([1, 2]),
                         send_bytes=rng.choice([1, 1, 1, 60]), sndbuf=rng.choice([64, 1 << 16]),
                         log_socket_errors=rng.random() < 0.5, expose_tracebacks=rng.random() < 0.4, maint=maint,
                         channel_timeout=rng.choice([1, 100, 120]), granularity=rng.choice(["locks", "locks", "locks", "attrs"]))


# re-synchronised after /repo fixes b1d94ba and 1a765e6: service() reads getattr(task.request, 'path', None) in its two log
# lines and wraps the ladder's `task.service()  # must not fail` in one more handler (except BaseException: log;
# task.close_on_finish = True).  Neither touches a shared channel attribute, a lock or a call on a shared object; the
# worker now reaches the tail of service() where it used to leave it with the exception (C09_escape states the new flow).
EXPECTED_SHAPE['service'] = (
    ('R:requests 0 if( .error ){ } else{ } try{ if( and( R:connected , not R:will_close , ) ){ service() } else{ True '
     '.close_on_finish= } } except(ClientDisconnected){ None True .close_on_finish= } except(BaseException){ None if( '
     'not ){ if( ){ } else{ } .error= .version= None .command= try{ } except(KeyError){ } try{ service() } '
     'except(ClientDisconnected){ True .close_on_finish= } except(BaseException){ True .close_on_finish= } } else{ True '
     '.close_on_finish= } } if( .close_on_finish ){ with(requests_lock){ True W:close_when_flushed for( R:requests ){ '
     'close() } W:requests } } else{ if( R:requests len() Gt 1 ){ _flush_outbufs_below_high_watermark() } if( '
     'R:current_outbuf_count Gt 0 ){ .outbuf_high_watermark W:current_outbuf_count } close() with(requests_lock){ 0 '
     'R:requests pop() if( and( R:connected , R:requests , ) ){ add_task() } else{ if( and( R:connected , R:request '
     'IsNot None , R:request .expect_continue , R:request .headers_finished , not R:sent_continue , ) ){ do_close=False '
     'send_continue() } } } } if( R:connected ){ pull_trigger() } W:last_activity')
)
