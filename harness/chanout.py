"""K-chanout: the REAL HTTPChannel.write_soon / _flush_some (one thread, no scheduler) over real
OverflowableBuffer / ReadOnlyFileBasedBuffer objects and a scripted socket, side by side with the
extracted Model/ChanOut.v, compared after EVERY operation (bytes the socket accepted during the
operation, how _flush_some ended, its return value, total_outbufs_len, current_outbuf_count, kind and
length of every element of outbufs); plus the specification judged directly on the real run (what the
socket accepted followed by what a final drain yields is exactly what was written, in order; no empty
chunk is offered to send(); total_outbufs_len equals the sum of the buffers' lengths after every
operation; the last buffer is a writable OverflowableBuffer).

A case is JSON-able:
    {"cfg": [strbuf_limit, outbuf_overflow, outbuf_high_watermark, send_bytes, sendbuf_len],
     "ops": [["w", hex, answers] | ["f", contenthex, pos, size|None, answers] | ["x", answers]
             | ["c", answers]  (send_continue()), ...]}
    answers: list of ints (the socket accepts min(k, len(chunk)) bytes) and "R" (socket.send raises
    EHOSTUNREACH, an errno dispatcher.send re-raises); when the answers are used up the socket accepts
    nothing (EWOULDBLOCK).

write_soon is only issued while the backlog is not above the high watermark (otherwise the real
method would wait on outbuf_lock for another thread); the generator respects that, and the harness
refuses (verdict "would-wait") instead of hanging if a case does not.
"""
import errno
import io

from lib.vcommon import hexb


class WouldWait(Exception):
    pass


class _Cond:
    """outbuf_lock for a single thread: wait() would block for ever"""

    def __enter__(self):
        return self

    def __exit__(self, *a):
        return False

    def acquire(self, *a, **k):
        return True

    def release(self):
        pass

    def wait(self, *a, **k):
        raise WouldWait()

    def notify(self, *a, **k):
        pass

    notify_all = notify


class _Sock:
    def __init__(self, sendbuf_len):
        self.sendbuf_len = sendbuf_len
        self.answers = []
        self.wire = b""
        self.all_wire = b""
        self.chunks = []

    def setblocking(self, x):
        pass

    def fileno(self):
        return 42

    def getpeername(self):
        return ("127.0.0.1", 1234)

    def getsockopt(self, level, option):
        return self.sendbuf_len

    def send(self, data):
        self.chunks.append(len(data))
        a = self.answers.pop(0) if self.answers else 0
        if a == "R":
            raise OSError(errno.EHOSTUNREACH, "injected")
        n = min(a, len(data))
        if n == 0:
            raise OSError(errno.EWOULDBLOCK, "would block")
        self.wire += data[:n]
        self.all_wire += data[:n]
        return n

    def recv(self, n):
        return b""

    def close(self):
        pass


class _Server:
    def __init__(self, adj):
        self.adj = adj
        self.active_channels = {}
        self.pulled = 0

    def add_task(self, ch):
        pass

    def pull_trigger(self):
        self.pulled += 1


class _Logger:
    def __getattr__(self, name):
        return lambda *a, **k: None


def state_s(wb, ch):
    bufs = []
    for b in ch.outbufs:
        kind = "R" if isinstance(b, wb.ReadOnlyFileBasedBuffer) else "O"
        bufs.append("%s%d" % (kind, b.__len__()))
    return "total=%d cur=%d bufs=%s" % (ch.total_outbufs_len, ch.current_outbuf_count, ",".join(bufs))


def show(b):
    import hashlib
    if len(b) <= 64:
        return hexb(b)
    return "#%d:%s" % (len(b), hashlib.md5(b).hexdigest())


CONTINUE = b"HTTP/1.1 100 Continue\r\n\r\n"


class _Req:
    """the partially received request send_continue() marks"""
    expect_continue = True


def written_of(op):
    if op[0] == "c":
        return CONTINUE
    if op[0] == "w":
        return bytes.fromhex(op[1]) if op[1] != "-" else b""
    if op[0] == "f":
        content = bytes.fromhex(op[1]) if op[1] != "-" else b""
        avail = content[op[2]:]
        return avail if op[3] is None else avail[:op[3]]
    return b""


def run_real(case):
    """-> (rows, problems): rows[i] is the line for op i in the model's format; problems are the
    specification's complaints about the real run"""
    import waitress.buffers as wb
    import waitress.channel as wc
    from waitress.adjustments import Adjustments

    limit, ovf, hw, send_bytes, sendbuf_len = case["cfg"]
    saved = wb.STRBUF_LIMIT
    rows = []
    problems = []
    try:
        wb.STRBUF_LIMIT = limit
        import warnings
        with warnings.catch_warnings():
            warnings.simplefilter("ignore")
            adj = Adjustments(outbuf_overflow=ovf, outbuf_high_watermark=hw, send_bytes=send_bytes)
        sock = _Sock(sendbuf_len)
        srv = _Server(adj)
        ch = wc.HTTPChannel(srv, sock, ("127.0.0.1", 1234), adj, map={})
        ch.outbuf_lock = _Cond()
        ch.logger = _Logger()
        rets = []
        orig_flush = ch._flush_some

        def rec_flush(*a, **k):
            r = orig_flush(*a, **k)
            rets.append(r)
            return r
        ch._flush_some = rec_flush
        expected = b""
        maxw = [0]
        ncont = [0]
        for i, op in enumerate(case["ops"]):
            sock.answers = list(op[-1])
            sock.wire = b""
            sock.chunks = []
            del rets[:]
            stop = "done"
            try:
                if op[0] == "w":
                    data = bytes.fromhex(op[1]) if op[1] != "-" else b""
                    if ch.total_outbufs_len > hw and data:
                        rows.append("would-wait")
                        break
                    ch.write_soon(data)
                    expected += data
                elif op[0] == "f":
                    content = bytes.fromhex(op[1]) if op[1] != "-" else b""
                    f = io.BytesIO(content)
                    f.seek(op[2])
                    rb = wb.ReadOnlyFileBasedBuffer(f)
                    rb.prepare(op[3])
                    if ch.total_outbufs_len > hw:
                        rows.append("would-wait")
                        break
                    ch.write_soon(rb)
                    expected += written_of(op)
                elif op[0] == "x":
                    try:
                        ch._flush_some()
                    except OSError:
                        stop = "sockraised"
                elif op[0] == "c":
                    ch.request = _Req()
                    ch.send_continue(do_close=False)
                    expected += CONTINUE
                else:
                    raise ValueError(op)
            except WouldWait:
                rows.append("would-wait")
                break
            except Exception as e:  # noqa
                stop = "escaped:%s" % type(e).__name__
            ret = rets[-1] if rets else (len(sock.wire) > 0 if stop == "sockraised" or op[0] != "x" else False)
            if op[0] != "x" and not rets:
                ret = len(sock.wire) > 0
            rows.append("wire=%s stop=%s ret=%d %s" % (show(sock.wire), stop, 1 if ret else 0, state_s(wb, ch)))
            # the specification, on the real objects
            if any(n == 0 for n in sock.chunks):
                problems.append((i, "an empty chunk was offered to send()"))
            tot = sum(b.__len__() for b in ch.outbufs)
            if tot != ch.total_outbufs_len:
                problems.append((i, "total_outbufs_len is %d, the buffers hold %d bytes" % (ch.total_outbufs_len, tot)))
            if not ch.outbufs or not isinstance(ch.outbufs[-1], wb.OverflowableBuffer):
                problems.append((i, "the last output buffer is not a writable OverflowableBuffer"))
            # per-buffer bound (C12_buffer_rotation_bound): W = the largest byte string written so far
            if op[0] == "w":
                maxw[0] = max(maxw[0], len(data))
            if op[0] == "c":
                ncont[0] += 1           # an interim response is appended without looking at the watermark
            bound = max(hw - 1, 0) + maxw[0] + len(CONTINUE) * ncont[0]
            for b in ch.outbufs:
                if isinstance(b, wb.OverflowableBuffer) and b.__len__() > bound:
                    problems.append((i, "an OverflowableBuffer holds %d bytes, more than max(high_watermark-1,0)+W = %d" % (b.__len__(), bound)))
            if not (0 <= ch.current_outbuf_count <= bound):
                problems.append((i, "current_outbuf_count is %d, outside 0..%d" % (ch.current_outbuf_count, bound)))
            if not expected.startswith(sock.all_wire):
                problems.append((i, "the socket accepted %s, which is not a prefix of what was written (%s)" % (show(sock.all_wire), show(expected))))
            if stop.startswith("escaped"):
                problems.append((i, "an exception escaped: " + stop))
        else:
            # final drain: everything still queued must come out, in order
            sock.answers = [1 << 30] * (len(expected) + 4 * len(ch.outbufs) + 8)
            try:
                for _ in range(4):
                    ch._flush_some()
            except Exception as e:  # noqa
                problems.append((len(case["ops"]), "final drain raised %s" % type(e).__name__))
            if sock.all_wire != expected:
                problems.append((len(case["ops"]), "after a final drain the socket holds %s, written was %s" % (show(sock.all_wire), show(expected))))
            if ch.total_outbufs_len != 0:
                problems.append((len(case["ops"]), "after a final drain total_outbufs_len is %d" % ch.total_outbufs_len))
        for b in ch.outbufs:
            try:
                b.close()
            except Exception:
                pass
    finally:
        wb.STRBUF_LIMIT = saved
    return rows, problems


def ans_s(a):
    return ",".join(str(x) for x in a) if a else "-"


def model_line(case):
    parts = ["case %d %d %d %d %d" % tuple(case["cfg"])]
    for op in case["ops"]:
        if op[0] == "w":
            parts.append("w %s %s" % (op[1], ans_s(op[2])))
        elif op[0] == "f":
            parts.append("f %s %d %s %s" % (op[1], op[2], "none" if op[3] is None else op[3], ans_s(op[4])))
        elif op[0] == "c":
            parts.append("c %s" % ans_s(op[1]))
        else:
            parts.append("x %s" % ans_s(op[1]))
    return " ; ".join(parts)


def compare(rows, answer):
    """-> None or (op index, model row, real row)"""
    model = [p.strip() for p in answer.split(" | ")] if answer else []
    for i, r in enumerate(rows):
        if r == "would-wait":
            return None
        if i >= len(model):
            return (i, "<nothing>", r)
        m = model[i]
        if m != r:
            return (i, m, r)
    return None


# ------------------------------------------------------------------ generation

def gen_answers(rng, n_hint, sendbuf_len):
    n = rng.choice([0, 1, 2, 3, 5, 8])
    out = []
    for _ in range(n):
        r = rng.random()
        if r < 0.06:
            out.append("R")
        elif r < 0.16:
            out.append(0)
        elif r < 0.6:
            out.append(rng.choice([1, 1, 2, 3, sendbuf_len, max(1, sendbuf_len - 1), sendbuf_len + 1]))
        else:
            out.append(rng.choice([4, 7, 16, 64, 1 << 20]))
    return out


def gen_bytes(rng, limit, ovf, hw, counter):
    sizes = [1, 1, 2, max(1, limit - 1), limit, limit + 1, max(1, ovf - 1), ovf, ovf + 1, max(1, hw), hw + 1, 3, 5]
    n = max(1, rng.choice(sizes))
    n = min(n, 300)
    out = bytes((counter[0] + i) % 251 + 1 for i in range(n))
    counter[0] += n
    return out


def gen_case(rng, big=False):
    limit = rng.choice([1, 2, 3, 4, 8] if not big else [8192])
    ovf = rng.choice([1, 2, 5, 6, 10, 20] if not big else [20000, 1048576])
    hw = rng.choice([0, 1, 4, 9, 30, 1000] if not big else [16777216, 50000])
    send_bytes = rng.choice([1, 1, 5, 18, 100, 10000] if not big else [1, 18000])
    sendbuf_len = rng.choice([1, 2, 3, 7, 64] if not big else [4096, 65536])
    ops = []
    counter = [rng.randrange(200)]
    total = 0          # upper bound on the backlog, to respect the high-watermark precondition
    nops = rng.randint(2, 14)
    for _ in range(nops):
        r = rng.random()
        if total > hw or r < 0.3:
            a = gen_answers(rng, total, sendbuf_len)
            if total > hw and rng.random() < 0.7:
                a = [1 << 20] * (total + 6)      # make room
            ops.append(["x", a])
            if a and all(isinstance(x, int) and x >= (1 << 20) for x in a) and len(a) >= total + 2:
                total = 0
        elif r < 0.36:
            a = gen_answers(rng, total, sendbuf_len)
            ops.append(["c", a])
            total += len(CONTINUE)
        elif r < 0.46:
            if big:
                content = bytes((counter[0] + i) % 251 + 1 for i in range(rng.choice([0, 1, 5000, 70000])))
            else:
                content = bytes((counter[0] + i) % 251 + 1 for i in range(rng.choice([0, 1, 2, 5, 9, 30])))
            counter[0] += len(content)
            pos = rng.randint(0, len(content))
            size = rng.choice([None, None, 0, 1, 3, len(content), len(content) + 5])
            a = gen_answers(rng, total, sendbuf_len)
            ops.append(["f", hexb(content), pos, size, a])
            avail = len(content) - pos
            total += avail if size is None else min(avail, size)
        else:
            if big:
                data = bytes((counter[0] + i) % 251 + 1 for i in range(rng.choice([1, 100, 8191, 8192, 8193, 20000, 70000])))
                counter[0] += len(data)
            else:
                data = gen_bytes(rng, limit, ovf, hw, counter)
            if rng.random() < 0.04:
                data = b""
            a = gen_answers(rng, total, sendbuf_len)
            ops.append(["w", hexb(data), a])
            total += len(data)
        # the flush inside write_soon may have reduced the backlog; `total` stays an upper bound
    return {"cfg": [limit, ovf, hw, send_bytes, sendbuf_len], "ops": ops}


def case_stats(case, stats):
    for op in case["ops"]:
        stats["ops_" + op[0]] = stats.get("ops_" + op[0], 0) + 1
        for a in op[-1]:
            k = "answer_R" if a == "R" else ("answer_0" if a == 0 else "answer_pos")
            stats[k] = stats.get(k, 0) + 1


def shrink(case, fails):
    """greedy removal of operations / answers while `fails(case)` stays true"""
    cur = case
    changed = True
    while changed:
        changed = False
        for i in range(len(cur["ops"])):
            c2 = {"cfg": cur["cfg"], "ops": cur["ops"][:i] + cur["ops"][i + 1:]}
            try:
                if c2["ops"] and fails(c2):
                    cur = c2
                    changed = True
                    break
            except Exception:
                pass
    return cur


def run_slice(ctx, n_cases, label, want_continue=False):
    """K-chanout + S-chanout on n_cases generated histories, for the checks that cite the byte-level
    theorems (C12: per-buffer bound, C19: placement of the interim response).  Reports violations
    through ctx.report, returns the statistics dict."""
    import hashlib
    import json
    st = {"cases": 0, "ops_compared": 0, "disagreements": 0, "spec_problems": 0, "with_several_buffers": 0,
          "continue_ops": 0, "continue_behind_file": 0, "dist": {}}
    runner = ctx.runner("chanout", "ExtChanout.v")
    if runner is None:
        ctx.oblige("extracted ChanOut model runner builds", False, "see notes")
        return st
    cases = [gen_case(ctx.rng, big=(i % 20 == 19)) for i in range(n_cases)]
    if want_continue:
        # directed: a deferred interim response while a file-wrapper response is still queued
        for k in range(max(20, n_cases // 20)):
            content = bytes((k + i) % 251 + 1 for i in range(ctx.rng.choice([1, 5, 30, 200])))
            ops = [["w", hexb(b"HEAD%d" % k), []], ["f", hexb(content), 0, None, gen_answers(ctx.rng, 0, 3)],
                   ["c", gen_answers(ctx.rng, 0, 3)], ["w", hexb(b"NEXT"), gen_answers(ctx.rng, 0, 3)], ["x", [1 << 20] * 400]]
            cases.append({"cfg": [ctx.rng.choice([1, 3, 8]), ctx.rng.choice([2, 6, 20]), ctx.rng.choice([4, 30, 1000]),
                                  ctx.rng.choice([1, 18, 10000]), ctx.rng.choice([1, 3, 64])], "ops": ops})
    answers = runner.query([model_line(c) for c in cases])
    bad = []
    for c, a in zip(cases, answers):
        rows, problems = run_real(c)
        st["cases"] += 1
        st["ops_compared"] += len(rows)
        case_stats(c, st["dist"])
        if any(r.startswith("wire=") and r.count(",") >= 1 for r in rows):
            st["with_several_buffers"] += 1
        kinds = [op[0] for op in c["ops"]]
        st["continue_ops"] += kinds.count("c")
        for i, k in enumerate(kinds):
            if k == "c" and i < len(rows) and i > 0 and rows[i - 1].startswith("wire=") and ",R" in rows[i - 1].split("bufs=")[-1]:
                st["continue_behind_file"] += 1
        d = compare(rows, a)
        if d is not None:
            st["disagreements"] += 1
            bad.append(("model", c, d))
        if problems:
            st["spec_problems"] += 1
            bad.append(("spec", c, problems[0]))
    for kind, c, d in sorted(bad, key=lambda t: (t[0] != "spec", len(json.dumps(t[1]))))[:2]:
        def still(c2, kind=kind):
            rows2, pr2 = run_real(c2)
            return bool(pr2) if kind == "spec" else compare(rows2, runner.query([model_line(c2)])[0]) is not None
        c_min = shrink(c, still)
        rows2, pr2 = run_real(c_min)
        d2 = pr2[0] if kind == "spec" and pr2 else (compare(rows2, runner.query([model_line(c_min)])[0]) or d)
        what = ("%s: output queue of the real channel (write_soon / send_continue / _flush_some): operation %d: %s" % (label, d2[0] + 1, d2[1])
                if kind == "spec" else
                "%s: the real write_soon / send_continue / _flush_some and Model/ChanOut.v disagree at operation %d: model %s | real %s"
                % (label, d2[0] + 1, d2[1], d2[2]))
        ctx.report("chanout:%s:%s" % (kind, hashlib.sha1(json.dumps(c_min, sort_keys=True).encode()).hexdigest()[:8]), what,
                   {"kind": "chanout", "case": c_min, "against": kind, "observed": d2[1] if kind == "spec" else d2[2],
                    "expected": "socket bytes ++ queued bytes = written bytes in order (the interim response once, in place); counters exact; buffers bounded"
                    if kind == "spec" else d2[1], "failing_input_found": kind == "spec"})
    return st


def replay_case(data):
    """shared replay of a {"kind": "chanout"} replay dict -> exit status"""
    import json
    import os
    from lib import vcommon
    rows, problems = run_real(data["case"])
    for op, r in zip(data["case"]["ops"], rows):
        print("  %-40s -> %s" % (json.dumps(op)[:40], r))
    print("specification now: %r" % (problems,))
    d = None
    rp = os.path.join(vcommon.VERIF, "ocaml", "chanout", "runner")
    if os.path.exists(rp):
        d = compare(rows, vcommon.Runner(rp).query([model_line(data["case"])])[0])
        print("model comparison now: %r" % (d,))
    return 1 if (problems or d) else 0
