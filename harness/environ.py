"""K-env: the real WSGITask.get_environment() over the real HTTPRequestParser
against the extracted model (ocaml/environ/runner, `env`), and the search: the
extracted Pep3333 specification (`spec`) computed from the raw request bytes by
an independent reference splitter against the real environ."""
import hashlib
import re
import sys

from harness import gen_http
from harness import parser_h as H
from lib.vcommon import hexb

MH, MB = 262144, 1073741824

# ---------------------------------------------------------------------------
# configurations

PREFIXES = ["", "/p", "/p/q"]
SCHEMES = ["http", "https"]
SERVER_NAMES = ["localhost", "waitress.invalid", "srv\xe9"]
IDENTS = ["waitress", "w/1.0 (\xfc)", "x"]   # ident "" / None is turned into None by Adjustments (str_iftruthy): outside C07's configurations
# (channel.addr, tag)
PEERS = [(("127.0.0.1", 39830), "tcp4"), (("::1", 80, 0, 0), "tcp6"), (("localhost", None), "unix"),
         (("10.0.0.7", 0), "tcp4")]
PORTS = [80, 8080, 65535, "/run/waitress.sock"]


def gen_config(rng):
    peer, ptag = rng.choice(PEERS)
    if ptag == "unix":
        port = "/run/waitress.sock"
    else:
        port = rng.choice(PORTS[:3])
    return {"prefix": rng.choice(PREFIXES), "scheme": rng.choice(SCHEMES), "server_name": rng.choice(SERVER_NAMES),
            "ident": rng.choice(IDENTS), "peer": peer, "peer_kind": ptag, "port": port}


def cfg_words(cfg):
    """the model's view of a configuration (env command)"""
    port = cfg["port"]
    pw = ("i%d" % port) if isinstance(port, int) else ("s" + hexb(port.encode("latin-1")))
    peer = cfg["peer"]
    if peer[1] is None:
        peerw = "u"
    else:
        peerw = "t%s:%d" % (hexb(peer[0].encode("latin-1")), peer[1])
    return [hexb(cfg["scheme"].encode("latin-1")), hexb(cfg["prefix"].encode("latin-1")),
            hexb(cfg["server_name"].encode("latin-1")), pw, hexb(cfg["ident"].encode("latin-1")), peerw]


def model_env_cmd(cfg, chunks, mh=MH, mb=MB):
    return "env %d %d %s %s" % (mh, mb, " ".join(cfg_words(cfg)), " ".join(hexb(c) for c in chunks))


# ---------------------------------------------------------------------------
# the real code


class _Adj:
    """the attributes of Adjustments read by the parser and by get_environment"""
    inbuf_overflow = 524288
    log_socket_errors = True

    def __init__(self, cfg, mh=MH, mb=MB, inbuf_overflow=None):
        from waitress.adjustments import slash_fixed_str
        self.max_request_header_size = mh
        self.max_request_body_size = mb
        self.url_scheme = cfg["scheme"]
        # the configuration machinery normalises url_prefix; go through it
        self.url_prefix = slash_fixed_str(cfg["prefix"])
        self.ident = cfg["ident"]
        self.server_name = cfg["server_name"]
        if inbuf_overflow is not None:
            self.inbuf_overflow = inbuf_overflow


class _Server:
    def __init__(self, adj, cfg):
        self.adj = adj
        self.server_name = adj.server_name
        self.effective_port = cfg["port"]


class _Channel:
    closed_when_done = False
    creation_time = 0

    def __init__(self, server, addr):
        self.server = server
        self.adj = server.adj
        self.addr = addr

    def check_client_disconnected(self):
        return False


def real_parse(adj, chunks):
    """-> (parser | None, status) offering the chunks the way a caller does"""
    from waitress.parser import HTTPRequestParser

    p = HTTPRequestParser(adj)
    for data in chunks:
        while True:
            try:
                n = p.received(data)
            except Exception as e:
                return None, "escapes"
            if p.completed or n >= len(data) or n <= 0:
                break
            data = data[n:]
        if p.completed:
            break
    if not p.completed:
        return p, "incomplete"
    if p.empty:
        return p, "empty"
    if p.error:
        return p, "err=" + H.err_tag(p.error)
    return p, "ok"


def str_val(s):
    if all(ord(c) < 256 for c in s):
        return "s" + hexb(s.encode("latin-1"))
    return "u" + ",".join(str(ord(c)) for c in s)


def value_str(k, v, channel):
    from waitress.buffers import ReadOnlyFileBasedBuffer

    if k == "wsgi.input":
        data = v.read()
        more = v.read()
        if more:
            return "?second-read-nonempty"
        return "i" + hexb(data)
    if isinstance(v, str):
        return str_val(v)
    if isinstance(v, bool):
        return "b1" if v else "b0"
    if isinstance(v, tuple) and v == (1, 0):
        return "t10"
    if v is sys.stderr:
        return "stderr"
    if v is ReadOnlyFileBasedBuffer:
        return "fw"
    if getattr(v, "__self__", None) is channel and getattr(v, "__name__", "") == "check_client_disconnected":
        return "cd"
    return "?" + type(v).__name__


def real_environ(cfg, chunks, inbuf_overflow=None):
    """-> (status, [(key, valuestr)] in dict order)"""
    from waitress.task import WSGITask

    adj = _Adj(cfg, inbuf_overflow=inbuf_overflow)
    p, status = real_parse(adj, chunks)
    if status != "ok":
        return status, None
    ch = _Channel(_Server(adj, cfg), cfg["peer"])
    task = WSGITask(ch, p)
    try:
        env = task.get_environment()
    except Exception as e:
        return "environ-raises:" + type(e).__name__, None
    if task.get_environment() is not env:
        return "environ-not-cached", None
    items = []
    for k, v in env.items():
        if not isinstance(k, str):
            items.append(("?", "?nonstr-key"))
            continue
        items.append((k, value_str(k, v, ch)))
    p.close()
    return "ok", items


def real_environ_via_channel(cfg, chunks):
    """the same through the real HTTPChannel.received (first completed request)"""
    from waitress.adjustments import Adjustments
    from waitress.channel import HTTPChannel
    from waitress.task import WSGITask

    adj = Adjustments(max_request_header_size=MH, max_request_body_size=MB, url_prefix=cfg["prefix"],
                      url_scheme=cfg["scheme"], ident=cfg["ident"], server_name=cfg["server_name"])
    sock = H._Sock()
    srv = H._Server(adj)
    srv.server_name = adj.server_name
    srv.effective_port = cfg["port"]
    ch = HTTPChannel(srv, sock, cfg["peer"], adj, map={})
    for d in chunks:
        try:
            ch.received(d)
        except Exception:
            return "escapes", None
        if ch.requests:
            break
    if not ch.requests:
        return "norequest", None
    p = ch.requests[0]
    if p.error:
        return "err=" + H.err_tag(p.error), None
    task = WSGITask(ch, p)
    env = task.get_environment()
    items = [(k, value_str(k, v, ch)) for k, v in env.items()]
    return "ok", items


def items_line(items):
    return "env " + " ".join("%s=%s" % (hexb(k.encode("latin-1", "replace")), v) for k, v in items)


OBJ = {"stderr": "obj", "fw": "obj", "cd": "obj"}


def items_as_spec(items, drop=()):
    out = []
    for k, v in items:
        if k in drop:
            continue
        out.append("%s=%s" % (hexb(k.encode("latin-1", "replace")), OBJ.get(v, v)))
    return sorted(out)


# ---------------------------------------------------------------------------
# reference splitter: raw bytes of ONE message -> the request as the
# specification wants it.  Deliberately simple and written without looking at
# waitress.parser.

TOKEN = rb"[!#$%&'*+\-.^_`|~0-9A-Za-z]+"
RE_REQLINE = re.compile(rb"([!#$%&'*+\-.^_`|~0-9A-Z]+) ([\x21-\x7e]+)(?: HTTP/([0-9]\.[0-9]))?\Z")
RE_FIELD = re.compile(rb"(" + TOKEN + rb"):([\t \x21-\x7e\x80-\xff]*)\Z")
RE_CHUNK_SIZE = re.compile(rb"([0-9A-Fa-f]+)(;[^\r\n]*)?\Z")


class NotCanonical(Exception):
    pass


def ref_split(msg):
    """-> dict(method, target, version, fields, chunked, body) or raises NotCanonical(reason)"""
    while msg.startswith(b"\r\n"):
        msg = msg[2:]                      # RFC 9112 2.2: empty lines before the request line
    if b"\r\n\r\n" not in msg:
        raise NotCanonical("no-head-end")
    head, rest = msg.split(b"\r\n\r\n", 1)
    lines = head.split(b"\r\n")
    m = RE_REQLINE.match(lines[0])
    if not m:
        raise NotCanonical("request-line")
    method, target, version = m.group(1), m.group(2), m.group(3) or b""
    fields = []
    for line in lines[1:]:
        if b"\r" in line or b"\n" in line:
            raise NotCanonical("bare-cr-lf")
        if line[:1] in (b" ", b"\t"):
            if not fields:
                raise NotCanonical("fold-first")
            n, v = fields[-1]
            fields[-1] = (n, v + line)      # obs-fold: the CRLF is removed, the white space stays
            continue
        fm = RE_FIELD.match(line)
        if not fm:
            raise NotCanonical("field-line")
        fields.append((fm.group(1), fm.group(2)))
    def vals(name):
        return [v.strip(b" \t") for n, v in fields if n.lower() == name]
    chunked = False
    if version == b"1.1":
        codings = [c.strip(b" \t").lower() for v in vals(b"transfer-encoding") for c in v.split(b",")]
        codings = [c for c in codings if c]
        if codings:
            if codings != [b"chunked"]:
                raise NotCanonical("transfer-coding")
            chunked = True
    if chunked:
        body = b""
        pos = 0
        while True:
            e = rest.find(b"\r\n", pos)
            if e < 0:
                raise NotCanonical("chunk-truncated")
            cm = RE_CHUNK_SIZE.match(rest[pos:e])
            if not cm:
                raise NotCanonical("chunk-size")
            size = int(cm.group(1), 16)
            pos = e + 2
            if size == 0:
                break
            if len(rest) < pos + size + 2 or rest[pos + size:pos + size + 2] != b"\r\n":
                raise NotCanonical("chunk-data")
            body += rest[pos:pos + size]
            pos += size + 2
        if rest[pos:pos + 2] != b"\r\n" and b"\r\n\r\n" not in rest[pos:]:
            raise NotCanonical("trailer-truncated")
    else:
        cls = vals(b"content-length")
        if len(cls) > 1:
            raise NotCanonical("content-length-dup")
        if cls:
            if not re.fullmatch(rb"[0-9]+", cls[0]):
                raise NotCanonical("content-length")
            n = int(cls[0])
            if len(rest) < n:
                raise NotCanonical("body-truncated")
            body = rest[:n]
        else:
            body = b""
    return {"method": method, "target": target, "version": version, "fields": fields, "chunked": chunked,
            "body": body}


def spec_cmd(cfg, rq):
    peer = cfg["peer"]
    words = ["spec", hexb(cfg["prefix"].encode("latin-1")), hexb(cfg["server_name"].encode("latin-1")),
             hexb(str(cfg["port"]).encode("latin-1")), hexb(cfg["ident"].encode("latin-1")),
             hexb(peer[0].encode("latin-1")), hexb(str(peer[1]).encode("latin-1")),
             hexb(cfg["scheme"].encode("latin-1")),
             hexb(rq["method"]), hexb(rq["target"]), hexb(rq["version"]), "1" if rq["chunked"] else "0",
             hexb(rq["body"])]
    for n, v in rq["fields"]:
        words.append(hexb(n))
        words.append(hexb(v))
    return " ".join(words)


# ---------------------------------------------------------------------------
# generators

ALIAS_NAMES = [b"X-Foo", b"x-foo", b"X_Foo", b"X-FOO", b"x_foo", b"X-Foo-Bar", b"X_Foo-Bar", b"X-Foo_Bar"]
CGI_NAMES = [b"Remote-Addr", b"Remote_Addr", b"Remote-Host", b"Remote-Port", b"Server-Name", b"Server_Name",
             b"Server-Port", b"Server-Software", b"Server-Protocol", b"Script-Name", b"Script_Name", b"Path-Info",
             b"Path_Info", b"Query-String", b"Request-Method", b"Request-Uri", b"Http-Host", b"Http_Host",
             b"HTTP-X-Foo", b"Content-Type", b"Content_Type", b"content-type", b"Content-Length-X",
             b"wsgi.input", b"wsgi.url-scheme", b"wsgi.url_scheme", b"waitress.client-disconnected",
             b"Wsgi.Version", b"Proxy", b"Host", b"host", b"Cookie", b"Accept", b"Transfer_Encoding", b"Te",
             b"Connection", b"Expect", b"X.Y", b"!#$%&'*+.^`|~9", b"a", b"-", b"--", b"A-"]
VALUES = [b"a", b"a b", b"\xe9t\xe9", b"", b"a,b", b" padded\t", b"\t \tx \t", b"x\x0b", b"\xa0x\xa0", b"\x85",
          b"a\tb", b"1, 2", b"\xff\xfe", b"q=\"a, b\"", b"a" * 70, b"~", b" ", b"\t", b"x  y", b"\xdf\xb5"]
FOLDED = [b"a\r\n\tb", b"a\r\n b", b"\r\n x", b"a \r\n  b\t", b"a\r\n \r\n b"]
METHODS = [b"GET", b"GET", b"POST", b"PUT", b"HEAD", b"OPTIONS", b"DELETE", b"M-SEARCH", b"P0ST", b"!#$%&'*+-.^_`|~",
           b"X", b"CONNECT"]
TARGETS = [b"/", b"/a/b", b"/a%20b?x=1&y=%zz", b"*", b"http://example.com:80/p?q#f", b"//x/y?z", b"/%41%2f%2F/",
           b"h:1", b"/a#frag", b"/?", b"https://h/", b"/p", b"/p/", b"/p/q", b"/p/q/", b"/p/q/r", b"/pq", b"/p/qr",
           b"//p", b"//p/q", b"///p//q", b"/p//q", b"/%70", b"/%70/q", b"/p%2Fq", b"/p%2fq/r", b"/p?x=/p/q",
           b"/p#/q", b"/P", b"/p/Q", b"/%", b"/%4", b"/%4g", b"/%g4", b"/%%41", b"/%2541", b"/a%00b", b"/%e9",
           b"/%E9%ff", b"/%2F%2fp", b"%2F", b"%2Fp/q", b"/a?b?c#d#e", b"/a#b?c", b"/?#", b"/#?", b"http://h",
           b"http://h?q", b"http://h#f", b"HTTP://H/P", b"http://h//p/q", b"http://u:pw@h:80/p/q?x#y", b"http:/p/q",
           b"http:p", b"1http://h/p", b"a+b-c.d://h/p/q", b"a_b://h/p", b"://h/p", b"/:", b"/a:b", b"a:b:c", b":",
           b"/p/q%3Fx", b"/p;x=1/q", b"/~u/", b"/.%2e/", b"/a%2", b"?x", b"#f", b"p/q", b"p", b"//", b"///",
           b"/%c3%a9", b"/p/q?\x7e", b"//a#b?c", b"//p/q#x?y", b"//p?a#b", b"//#", b"//?", b"//p/q?a?b#c#d", b"http://[::1]/p", b"http://[/p", b"/[", b"example.com:443"]
VERSIONS = [b" HTTP/1.1"] * 7 + [b" HTTP/1.0"] * 3 + [b"", b" HTTP/2.0", b" HTTP/0.9", b" HTTP/1.2"]
TARGET_ALPHA = b"/%pPqQ2fF4?#:@.a;=&+~-_"


def rnd_token(rng):
    alpha = b"abXYZ-_.09!~"
    return bytes(rng.choice(alpha) for _ in range(rng.randint(1, 8)))


def rnd_target(rng):
    n = rng.randint(1, 14)
    t = bytes(rng.choice(TARGET_ALPHA) for _ in range(n))
    r = rng.random()
    if r < 0.5:
        t = b"/" + t
    elif r < 0.6:
        t = b"http://h" + rng.choice([b"", b"/", b":8", b"?"]) + t
    return t


def rnd_value(rng):
    alpha = b"ab, \t\xe9\xff;=\"\xa0z"
    v = bytes(rng.choice(alpha) for _ in range(rng.randint(0, 12)))
    if rng.random() < 0.04:
        i = rng.randint(0, len(v))
        v = v[:i] + rng.choice([b"\x0b", b"\x7f", b"\x00", b"\x1f"]) + v[i:]
    return v


def gen_fields(rng):
    """a header list exercising the naming rules; -> (list of (name, raw value), tags)"""
    fields = []
    tags = set()
    n = rng.choice([0, 1, 2, 3, 4, 6, 9])
    for _ in range(n):
        r = rng.random()
        if r < 0.35:
            name = rng.choice(ALIAS_NAMES); tags.add("alias")
        elif r < 0.75:
            name = rng.choice(CGI_NAMES); tags.add("cgi-name")
        else:
            name = rnd_token(rng); tags.add("random-name")
        if b"_" in name:
            tags.add("underscore")
        r = rng.random()
        if r < 0.6:
            value = rng.choice(VALUES)
        elif r < 0.7:
            value = rng.choice(FOLDED); tags.add("folded")
        else:
            value = rnd_value(rng)
        if any(c >= 0x80 for c in value):
            tags.add("obs-text")
        if not value.strip(b" \t"):
            tags.add("empty-value")
        fields.append((name, value))
        if rng.random() < 0.3:
            # a repeat under the same or an aliasing name
            alt = rng.choice([name, name.lower(), name.upper(), name.replace(b"-", b"_"), name.replace(b"_", b"-")])
            fields.append((alt, rng.choice(VALUES)))
            tags.add("repeat")
    return fields, tags


def gen_request(rng):
    """-> (message bytes, tags) : one complete message built from a structured header list"""
    tags = {}
    method = rng.choice(METHODS)
    target = rng.choice(TARGETS) if rng.random() < 0.7 else rnd_target(rng)
    version = rng.choice(VERSIONS)
    fields, ftags = gen_fields(rng)
    framing = rng.choice(["none", "none", "cl", "cl", "cl-zeros", "chunked", "chunked", "cl0", "cl+te", "te10"])
    if framing in ("chunked", "cl+te") and version != b" HTTP/1.1":
        framing = "cl"
    body = gen_http.rnd_body(rng, rng.choice([0, 1, 2, 5, 17, 40, 200]))
    payload = b""
    # drop generated framing headers, the framing below decides
    fields = [(n, v) for n, v in fields if n.lower().replace(b"_", b"-") not in (b"content-length", b"transfer-encoding")
              or rng.random() < 0.1]
    fr = []
    if framing == "cl":
        fr.append((rng.choice([b"Content-Length", b"content-length", b"CONTENT-LENGTH"]), b"%d" % len(body)))
        payload = body
    elif framing == "cl-zeros":
        fr.append((b"Content-Length", b"0" * rng.randint(1, 3) + b"%d" % len(body)))
        payload = body
    elif framing == "cl0":
        fr.append((b"Content-Length", rng.choice([b"0", b"00"])))
    elif framing == "chunked":
        fr.append((rng.choice([b"Transfer-Encoding", b"transfer-encoding"]), rng.choice(gen_http.TE_VARIANTS[:6])))
        payload = gen_http.chunked_body(rng, body)
    elif framing == "cl+te":
        fr.append((b"Content-Length", b"%d" % rng.choice([len(body), 3, 0])))
        fr.append((b"Transfer-Encoding", b"chunked"))
        payload = gen_http.chunked_body(rng, body)
    elif framing == "te10":
        fr.append((b"Transfer-Encoding", b"chunked"))
        fr.append((b"Content-Length", b"%d" % len(body)))
        payload = body
        if version == b" HTTP/1.1":
            version = b" HTTP/1.0"
    for f in fr:
        fields.insert(rng.randint(0, len(fields)), f)
    if rng.random() < 0.15:
        # an underscore alias of a framing header next to the real one
        fields.insert(rng.randint(0, len(fields)),
                      (rng.choice([b"Content_Length", b"Transfer_Encoding", b"content_length"]),
                       rng.choice([b"999", b"chunked", b"0"])))
        ftags.add("framing-alias")
    head = method + b" " + target + version + b"\r\n"
    for n, v in fields:
        head += n + b":" + rng.choice([b" ", b"", b"  ", b"\t", b" \t "]) + v + rng.choice([b"", b"", b" ", b"\t "]) + b"\r\n"
    head += b"\r\n"
    tags["framing"] = framing
    tags["version"] = version.strip().decode() or "none"
    tags["fields"] = sorted(ftags)
    tags["nfields"] = len(fields)
    return head + payload, tags


def build_cases(rng, n_own, n_http):
    """-> list of (source, message, tags)"""
    cases = []
    for _ in range(n_own):
        m, t = gen_request(rng)
        cases.append(("own", m, t))
    for i in range(n_http):
        mut = rng.choice(gen_http.MUTATIONS) if i % 4 == 3 else None
        m, t = gen_http.gen_message(rng, mut)
        t = dict(t)
        t["fields"] = []
        cases.append(("gen_http" + ("+mut" if mut else ""), m, t))
    return cases


def fixed_cases():
    """hand-picked boundary messages, every run"""
    out = []
    def msg(first, fields, payload=b""):
        return first + b"\r\n" + b"".join(n + b": " + v + b"\r\n" for n, v in fields) + b"\r\n" + payload
    out.append(msg(b"GET /p/q HTTP/1.1", [(b"Host", b"h"), (b"X-Foo", b"1"), (b"x-foo", b"2"), (b"X_Foo", b"3")]))
    out.append(msg(b"GET / HTTP/1.1", [(b"Remote-Addr", b"6.6.6.6"), (b"Server-Name", b"evil"), (b"Http-Host", b"x"),
                                        (b"Script_Name", b"/x"), (b"wsgi.input", b"y"),
                                        (b"waitress.client-disconnected", b"z")]))
    out.append(msg(b"POST //p//q?a=b#c HTTP/1.1", [(b"Content-Length", b"005")], b"hello"))
    out.append(msg(b"POST /p HTTP/1.1", [(b"Transfer-Encoding", b"chunked"), (b"Content-Length", b"3")],
                   b"5\r\nhello\r\n0\r\n\r\n"))
    out.append(msg(b"POST /p/ HTTP/1.1", [(b"Transfer-Encoding", b"chunked")], b"0\r\n\r\n"))
    out.append(msg(b"POST /p/q/r HTTP/1.0", [(b"Transfer-Encoding", b"chunked"), (b"Content-Length", b"2")], b"ab"))
    out.append(msg(b"GET http://example.com:80/p/q/%7Euser?x=%41#f", [(b"X", b"\xe9\xff")]))
    out.append(msg(b"\xdf\xb5 / HTTP/1.1", []))
    out.append(msg(b"GET /%zz%4 HTTP/9.9", [(b"Content-Type", b"a"), (b"CONTENT-LENGTH", b"0")]))
    big = b"z" * 70000
    out.append(msg(b"PUT /big HTTP/1.1", [(b"Content-Length", b"%d" % len(big))], big))
    out.append(msg(b"PUT /big HTTP/1.1", [(b"Transfer-Encoding", b"chunked")],
                   b"%x\r\n" % len(big) + big + b"\r\n0\r\n\r\n"))
    return out


def case_hash(status, line):
    return hashlib.sha1((status + "|" + (line or "")).encode()).hexdigest()


# ---------------------------------------------------------------------------
# the property's own statement applied to a real environ, with no reference
# parse needed (so it also covers accepted requests outside the canonical class)


def direct_violations(cfg, items):
    """-> list of short strings, empty when the serialised real environ
    (a) contains only latin-1 strings, (b) has CONTENT_LENGTH == number of bytes
    wsgi.input yielded (no CONTENT_LENGTH: nothing to read), (c) carries the
    server's own values under the server-defined keys, (d) has no key with an
    underscore-free image of a '_' name ... (not decidable here) """
    out = []
    d = {}
    for k, v in items:
        if k in d:
            out.append("duplicate key %s" % k)
        d[k] = v
        if v.startswith("u"):
            out.append("%s is not a latin-1 string" % k)
        if v.startswith("?"):
            out.append("%s has an unexpected type %s" % (k, v))
    inp = d.get("wsgi.input", "?")
    nbytes = 0 if inp == "i-" else (len(inp) - 1) // 2
    cl = d.get("CONTENT_LENGTH")
    if cl is None:
        if nbytes:
            out.append("no CONTENT_LENGTH but wsgi.input yields %d bytes" % nbytes)
    else:
        try:
            n = int(bytes.fromhex(cl[1:]) if cl != "s-" else b"x")
        except ValueError:
            n = None
        if n != nbytes:
            out.append("CONTENT_LENGTH %s but wsgi.input yields %d bytes" % (cl, nbytes))
    peer = cfg["peer"]
    want = {"REMOTE_ADDR": peer[0], "REMOTE_HOST": peer[0], "REMOTE_PORT": str(peer[1]),
            "SERVER_NAME": cfg["server_name"], "SERVER_PORT": str(cfg["port"]), "SERVER_SOFTWARE": cfg["ident"],
            "SCRIPT_NAME": cfg["prefix"], "wsgi.url_scheme": cfg["scheme"]}
    for k, v in want.items():
        if d.get(k) != str_val(v):
            out.append("%s is %s, the server's value is %r" % (k, d.get(k), v))
    for k, v in (("wsgi.version", "t10"), ("wsgi.errors", "stderr"), ("wsgi.multithread", "b1"),
                 ("wsgi.multiprocess", "b0"), ("wsgi.run_once", "b0"), ("wsgi.file_wrapper", "fw"),
                 ("wsgi.input_terminated", "b1"), ("waitress.client_disconnected", "cd")):
        if d.get(k) != v:
            out.append("%s is %s" % (k, d.get(k)))
    return out
