"""C11 harness: the real HTTPChannel (+ real dispatcher + real poll loop, harness/chan_world.py)
under the deterministic scheduler, observed at the granularity of Model/ChanClose.v.

CloseWorld      World with (a) a context stack per logical thread (which channel methods is it
                inside), (b) EVERY write will_close/close_when_flushed := True and
                connected := False noted as `decide <kind>` with the kind derived from the
                context, (c) `requests` kept in a list subclass that notes what is done to it
                (append/pop/len/bool/getitem/iter), (d) a snapshot of the abstract state
                (will_close, close_when_flushed, connected, request ids, owner of
                requests_lock, entries in the dispatcher queue) before every labelled operation.
abstract()      real trace -> the model's choice tokens (ocaml/chanclose/driver.ml), each with
                the abstract state observed after it and the labels observed in its block.
validate()      runs the extracted model on the tokens and compares states and labels.
labels_of()     real trace -> label sequence for the monitors (any granularity).
py_monitor()    the monitor of Model/ChanClose.v, in Python (the extracted one is used too).
shape_audit()   ast signature of the modelled methods against SIGNATURE below.
"""
import ast
import errno
import logging
import os
import re

from harness.chan_world import World, SHARED, CHAN_FD, simple_app, ScriptSock
from harness.sched import Op, RandomPolicy, PCTPolicy, explore

logging.disable(logging.CRITICAL)

WRAPPED = ("service", "received", "handle_read", "handle_write", "handle_close", "readable", "writable",
           "write_soon", "_flush_outbufs_below_high_watermark", "send_continue", "_flush_exception",
           "_flush_some", "_flush_some_if_lockable", "cancel")

COVERED = {"worker_close", "flushed", "maint", "handle_close", "eof", "cancel_wc", "cancel_conn",
           "flush_err_io", "flush_err_w", "oracle_undelimited"}
UNCOVERED = set()


class TracedList(list):
    """self.requests; behaves as a list, notes the operations the channel performs on it."""
    __slots__ = ("_w",)

    def _note(self, op, detail=None):
        w = self._w
        if w.tracing and w.sched.me() is not None:
            w.sched.note("lst", (op, detail))

    def append(self, x):
        w = self._w
        rid = w.req_ids.get(id(x))
        if rid is None:
            rid = len(w.req_objs)
            w.req_ids[id(x)] = rid
            w.req_objs.append(x)
        self._note("append", (rid, bool(getattr(x, "error", None))))
        list.append(self, x)

    def pop(self, i=-1):
        self._note("pop")
        return list.pop(self, i)

    def __len__(self):
        self._note("len")
        return list.__len__(self)

    def __bool__(self):
        self._note("bool")
        return list.__len__(self) > 0

    def __getitem__(self, i):
        x = list.__getitem__(self, i)
        self._note("getitem", self._w.req_ids.get(id(x)))
        return x

    def __iter__(self):
        self._note("iter")
        return list.__iter__(self)


LISTEN_FD = 3

# WHICH SOCKET ERRORS ARE A CLOSE DECISION (the specification the conformance K-errno enforces;
# Model/ChanClose.v: the environment's flush outcomes FOk / FDisc / FErr and recv outcomes REof / RErr)
#   EWOULDBLOCK (= EAGAIN)      send: nothing was sent, no decision (FOk).  recv: handle_read's
#                               `except OSError` -> handle_close (RErr)
#   a SILENT DISCONNECT errno   send with do_close=True (every flush of the I/O thread): handle_close,
#   (wasyncore._DISCONNECTED)   send returns 0 (FDisc); send with do_close=False (every flush of a worker):
#                               swallowed, send returns 0, NO decision (FOk).  recv: handle_close inside
#                               dispatcher.recv, b"" returned, then connected := False (REof)
#   every other errno           send: raised, caught by _flush_exception: will_close := True on the
#                               thread that flushed (FErr).  recv: handle_close (RErr)
# The set is part of the specification: it is written here, audited against the source (ast and
# run-time value, shape_audit) and NOT read from waitress by the conformance.
EXPECTED_DISCONNECTED_NAMES = frozenset({"ECONNRESET", "ENOTCONN", "ESHUTDOWN", "ECONNABORTED", "EPIPE", "EBADF"})
EXPECTED_DISCONNECTED = frozenset(getattr(errno, n) for n in EXPECTED_DISCONNECTED_NAMES)
NETWORK_ERRNOS = tuple(getattr(errno, n) for n in (
    "ETIMEDOUT", "EHOSTUNREACH", "ENETUNREACH", "ENETDOWN", "ENETRESET", "ECONNREFUSED", "EHOSTDOWN") if hasattr(errno, n))
WOULDBLOCK = frozenset({errno.EWOULDBLOCK, errno.EAGAIN})


def errno_name(e):
    return errno.errorcode.get(e, str(e))


def pick_errno(rng):
    """An errno for an injected fault: all of errno.errorcode is in range; the members of the
    CURRENT wasyncore._DISCONNECTED (read at run time, so that a widened set is exercised with
    its new members) and the network errnos nearest to them are always well represented."""
    r = rng.random()
    if r < 0.3:
        return rng.choice(NETWORK_ERRNOS)
    if r < 0.6:
        try:
            from waitress import wasyncore
            cur = sorted(wasyncore._DISCONNECTED)
        except Exception:  # pragma: no cover
            cur = sorted(EXPECTED_DISCONNECTED)
        return rng.choice(cur)
    return rng.choice(sorted(errno.errorcode))


class FaultSock(ScriptSock):
    """ScriptSock that notes the errno the 'kernel' answered with (the class of a World's socket is
    switched to this one: no state of its own)."""

    def send(self, data):
        try:
            return ScriptSock.send(self, data)
        except OSError as e:
            self.w.sched.note("send_err", e.errno)
            raise

    def recv(self, n):
        try:
            return ScriptSock.recv(self, n)
        except OSError as e:
            self.w.sched.note("recv_err", e.errno)
            raise


def errno_conformance(events):
    """K-errno: every socket error the scripted kernel answered with is followed, on the thread that
    made the call, by exactly the close decision the specification above prescribes.
    -> list of dicts (problems)."""
    by_thread = {}
    for i, (t, kind, d) in enumerate(events):
        by_thread.setdefault(t, []).append(i)
    problems = []
    for t, idxs in by_thread.items():
        for k, i in enumerate(idxs):
            kind, e = events[i][1], events[i][2]
            if kind not in ("send_err", "recv_err"):
                continue
            # ... the decisions this thread takes until the method that made the call and handles its
            # outcome (_flush_exception for a send, handle_read for a recv) returns
            decs = []
            cut = False
            depth = 0
            closer = "_flush_exception" if kind == "send_err" else "handle_read"
            for j in idxs[k + 1:]:
                k2, d2 = events[j][1], events[j][2]
                if k2 == "enter":
                    depth += 1
                elif k2 == "exit":
                    if depth > 0:
                        depth -= 1
                    elif d2 == closer:
                        break
                elif k2 == "decide":
                    decs.append(d2[0])
            else:
                cut = True       # the run ended inside that method
            is_io = (t == "io")
            if kind == "send_err":
                if e in WOULDBLOCK:
                    want = []
                elif e in EXPECTED_DISCONNECTED:
                    want = ["handle_close"] if is_io else []
                else:
                    want = ["flush_err_io" if is_io else "flush_err_w"]
                got = [x for x in decs if x in ("handle_close", "flush_err_io", "flush_err_w", "handle_close_by_worker")]
            else:
                want = ["handle_close", "eof"] if e in EXPECTED_DISCONNECTED else ["handle_close"]
                got = [x for x in decs if x in ("handle_close", "eof")]
            if want:
                got = got[:len(want)]    # what the same method decides afterwards (handle_write going on
                                         # to handle_close) is not this error's decision
            if got != want and not (cut and got == want[:len(got)]):
                problems.append({"event": i, "thread": t, "call": kind[:4], "errno": e, "errno_name": errno_name(e),
                                 "expected_decisions": want, "observed_decisions": got})
    return problems


class MaintListener:
    """Stands in for the listening BaseWSGIServer in the socket map: its readable() runs the REAL
    BaseWSGIServer.maintenance (server.py) over the world's active_channels, as the real listener
    does from its own readable() in the same `for fd, obj in map.items()` loop.  `due` says in
    which poll turns (None: every turn).  channel_timeout is whatever the scenario's adj says;
    the fake clock does not advance, so a negative timeout means "every idle channel is overdue"."""
    accepting = True
    connected = False

    def __init__(self, world, due):
        self.w = world
        self.due = due
        self.turn = 0

    def readable(self):
        from waitress.server import BaseWSGIServer
        w = self.w
        k = self.turn
        self.turn += 1
        if w.tracing and (self.due is None or k in self.due):
            st = w._ctx()
            st.append(["maintenance", 0])
            w.sched.note("enter", "maintenance")
            try:
                BaseWSGIServer.maintenance(w.server, w.ftime.time())
            finally:
                st.pop()
                w.sched.note("exit", "maintenance")
        return False

    def writable(self):
        return False

    def handle_read_event(self):  # pragma: no cover
        pass

    handle_write_event = handle_expt_event = handle_read_event

    def handle_error(self):  # pragma: no cover
        pass

    def handle_close(self):  # pragma: no cover
        pass


class CloseWorld(World):
    def __init__(self, *a, **k):
        k.setdefault("max_steps", 1500)
        self.maint = k.pop("maint", False)
        World.__init__(self, *a, **k)
        self.sock.__class__ = FaultSock
        self.req_ids = {}
        self.req_objs = []
        self.sched.observer = self._observe
        self.final_snap = None

    def _client_main(self):
        """World's client, plus the step ("shutdown",): the thread then plays the thread that stops
        the server: the REAL ThreadedTaskDispatcher.shutdown(cancel_pending=True), which calls the
        channel's cancel() for every entry still queued."""
        for step in self.client_script:
            kind = step[0]
            if kind == "send":
                self.sched.yield_(Op("client:send", len(step[1])))
                self.sock.rx.append(bytes(step[1]))
            elif kind == "close":
                self.sched.yield_(Op("client:close", None))
                self.sock.client_gone = True
            elif kind == "stall":
                self.sched.yield_(Op("client:stall", None))
                self.sock.client_reading = False
            elif kind == "resume":
                self.sched.yield_(Op("client:resume", None))
                self.sock.client_reading = True
            elif kind == "wait_wire":
                n = step[1]
                self.sched.yield_(Op("client:wait_wire", n, enabled=lambda n=n: len(self.wire) >= n))
            elif kind == "shutdown":
                self.sched.yield_(Op("client:shutdown", None))
                self.sched.note("enter", "shutdown")
                try:
                    self.dispatcher.shutdown(cancel_pending=True, timeout=step[1])
                finally:
                    self.sched.note("exit", "shutdown")
            else:  # pragma: no cover
                raise ValueError(step)

    # -- context stack of the running logical thread
    def _ctx(self):
        me = self.sched.me()
        if me is None:
            return []
        return me.local.setdefault("ctx", [])

    def _snapshot(self):
        ch = self.channel
        if ch is None:
            return None
        g = lambda n: object.__getattribute__(ch, n)
        try:
            reqs = g("requests")
        except AttributeError:
            return None
        ids = []
        for r in list.__iter__(reqs):
            ids.append("%d%s" % (self.req_ids.get(id(r), -1), "e" if getattr(r, "error", None) else ""))
        lk = g("requests_lock")
        owner = lk.owner.name if lk.owner is not None else None
        q = sum(1 for t in self.dispatcher.queue if t is ch)
        return {"wc": bool(g("will_close")), "cwf": bool(g("close_when_flushed")), "conn": bool(g("connected")),
                "reqs": ids, "rlock": owner, "queue": q, "tol": g("total_outbufs_len"),
                "inmap": CHAN_FD in self.map}

    def _observe(self, sched, t, op):
        return self._snapshot()

    def quiescent_state(self):
        self.final_snap = self._snapshot()
        ch = self.channel
        g = lambda n: object.__getattribute__(ch, n)
        return {
            "blocked": getattr(self, "blocked_at_end", None) or self.sched.blocked(),
            "total_outbufs_len": g("total_outbufs_len") if ch else None,
            "requests": list.__len__(g("requests")) if ch else None,
            "will_close": g("will_close") if ch else None,
            "close_when_flushed": g("close_when_flushed") if ch else None,
            "connected": g("connected") if ch else None,
            "in_map": CHAN_FD in self.map,
            "trigger_pulled": self.trigger.pulled,
            "queue": len(self.dispatcher.queue),
        }

    def _decide_kind(self, name, ctx, me):
        is_io = (me is None) or me.name == "io"
        names = [c[0] for c in ctx]
        top = names[-1] if names else None
        if name == "close_when_flushed":
            return "worker_close"
        if name == "will_close":
            if top == "cancel":
                return "cancel_wc"
            if "_flush_exception" in names:
                return "flush_err_io" if is_io else "flush_err_w"
            if top == "handle_write":
                return "flushed"
            return "maint"
        # connected := False
        if top == "cancel":
            return "cancel_conn"
        if top == "handle_close":
            fr = ctx[-1]
            fr[1] += 1
            if fr[1] > 1:
                return None          # wasyncore.dispatcher.close(): the same decision again
            return "handle_close" if is_io else "handle_close_by_worker"
        if top == "handle_read":
            return "eof"
        return "other_conn"

    def _make_channel_class(self):
        from waitress.channel import HTTPChannel
        world = self
        if self.maint is not False:
            # (called by World.run after the trigger has been put into the map and before the
            # channel is created: the listener precedes the channel, as in a real server)
            self.map[LISTEN_FD] = MaintListener(self, None if self.maint is True else set(self.maint))

        def wrap(name):
            orig = getattr(HTTPChannel, name)

            def f(self, *a, **k):
                st = world._ctx()
                st.append([name, 0])
                world.sched.note("enter", name)
                if name == "write_soon" and a and isinstance(a[0], (bytes, bytearray)):
                    world.sched.note("wsoon", bytes(a[0]))     # the response stream, for the wire oracle
                try:
                    return orig(self, *a, **k)
                finally:
                    st.pop()
                    world.sched.note("exit", name)
            f.__name__ = name
            return f

        class TracedChannel(HTTPChannel):
            def del_channel(self, map=None):
                me = world.sched.me()
                world.sched.note("map_del", me.name if me else "-")
                return HTTPChannel.del_channel(self, map)

            def __setattr__(self, name, value):
                if name == "requests" and not isinstance(value, TracedList):
                    tl = TracedList(value)
                    tl._w = world
                    value = tl
                if world.tracing and name in SHARED:
                    me = world.sched.me()
                    if world.granularity == "attrs" and me is not None:
                        world.sched.yield_(Op("W:" + name, None))
                    if (name in ("will_close", "close_when_flushed") and value is True) or (
                            name == "connected" and value is False):
                        kind = world._decide_kind(name, world._ctx(), me)
                        if kind is not None:
                            world.sched.note("decide", (kind, me.name if me else "-"))
                object.__setattr__(self, name, value)

            def __getattribute__(self, name):
                if name in SHARED and world.tracing and world.granularity == "attrs" \
                        and world.sched.me() is not None:
                    world.sched.yield_(Op("R:" + name, None))
                return object.__getattribute__(self, name)

        for n in WRAPPED:
            setattr(TracedChannel, n, wrap(n))
        svc = TracedChannel.service

        def service(self):
            world.sched.note("service_start", None)
            try:
                return svc(self)
            finally:
                world.sched.note("service_end", None)
        TracedChannel.service = service
        return TracedChannel


# ----------------------------------------------------------------------------------------
# real trace -> labels (for the monitors; works at both granularities)

def response_due(out):
    """THE WIRE ORACLE for "a close decision is due": `out` is everything one service() invocation handed
    to write_soon (the response as it goes to the wire).  -> None if the response is delimited exactly
    as it announces and announces no close; otherwise the reason why the connection cannot be kept.
    (Requests in the scenarios are GET/POST: no HEAD.)"""
    if not out:
        return None
    i = out.find(b"\r\n\r\n")
    if i < 0:
        return "response head not completed"
    lines = out[:i].decode("latin-1").split("\r\n")
    parts = lines[0].split(" ", 2)
    status = parts[1] if len(parts) > 1 else ""
    hdr = {}
    for l in lines[1:]:
        k, _, v = l.partition(":")
        hdr.setdefault(k.strip().lower(), []).append(v.strip())
    body = out[i + 4:]
    if any("close" in [x.strip().lower() for x in v.split(",")] for v in hdr.get("connection", [])):
        return "Connection: close announced"
    if status[:1] == "1" or status in ("204", "304"):
        return "body after a %s head" % status if body else None
    if any("chunked" in v.lower() for v in hdr.get("transfer-encoding", [])):
        return None if body.endswith(b"0\r\n\r\n") else "chunked body not terminated"
    if "content-length" in hdr:
        try:
            n = int(hdr["content-length"][-1])
        except ValueError:
            return "unreadable Content-Length"
        return None if len(body) == n else "Content-Length %d announced, %d body bytes written" % (n, len(body))
    return "response delimited by closing the connection"


def oracle_points(events):
    """-> {event index: reason}: right after the last byte a service() invocation produced, when the wire
    oracle says that a close decision is due for that response."""
    cur = {}
    pts = {}
    for i, (t, kind, d) in enumerate(events):
        if kind == "service_start":
            cur[t] = [b"", None]
        elif kind == "wsoon" and t in cur:
            cur[t][0] += d
            cur[t][1] = i
        elif kind == "service_end" and t in cur:
            out, last = cur.pop(t)
            why = response_due(out)
            if why is not None and last is not None:
                pts[last] = why
    return pts


def labels_of(events, oracle=False):
    """-> list of label strings in the syntax of ocaml/chanclose/driver.ml: dec:<kind>,
    start:<sid>, app:<sid>:<rid or 0>, end:<sid>.  Service ids count service_start events.
    oracle=True: the points where the wire oracle says a close decision is due are labelled
    dec:oracle_undelimited -- a decision of the SPECIFICATION ("a response that could not be delimited");
    the monitor then requires that no service() entered after it calls the application, whether or
    not the code took a decision of its own."""
    out = []
    cur = {}
    nsvc = 0
    pts = oracle_points(events) if oracle else {}
    for i, (t, kind, d) in enumerate(events):
        if i in pts:
            out.append("dec:oracle_undelimited")
        if kind == "decide":
            out.append("dec:%s" % d[0])
        elif kind == "service_start":
            cur[t] = nsvc
            out.append("start:%d" % nsvc)
            nsvc += 1
        elif kind == "service_end":
            if t in cur:
                out.append("end:%d" % cur.pop(t))
        elif kind == "app_call":
            if t in cur:
                out.append("app:%d:0" % cur[t])
            else:
                out.append("app:999999:0")
    return out


def py_monitor(labels, good):
    """The monitor of Model/ChanClose.v.  -> (ok, info) ; info names the decisions seen before
    the offending service started."""
    dec = []
    late = {}
    for l in labels:
        p = l.split(":")
        if p[0] == "dec":
            if p[1] in good:
                dec.append(p[1])
        elif p[0] == "start":
            if dec:
                late[p[1]] = list(dec)
        elif p[0] == "app":
            if p[1] in late:
                return False, {"service": int(p[1]), "decisions_before_start": late[p[1]]}
    return True, None


# ----------------------------------------------------------------------------------------
# real trace (granularity "attrs") -> model tokens

class MapError(Exception):
    pass


def abstract(world):
    """-> list of steps: dict(i=index of the trigger event, tok=token, labels=[...observed in the
    block...], after=snapshot after the block).  Raises MapError when an observed operation
    of a modelled method has no counterpart in the model."""
    ev = world.sched.events
    snaps = world.sched.snaps
    ops = sorted(i for i in snaps if i < len(ev))
    nxt_op = {}
    for a, b in zip(ops, ops[1:]):
        nxt_op[a] = b
    dlock = world.dispatcher.lock.name
    qcv = world.dispatcher.queue_cv.name
    rlock = object.__getattribute__(world.channel, "requests_lock").name if world.channel else None

    # context stack at every event, and per-thread lists of indices
    stacks = {}
    ctx_at = [None] * len(ev)
    by_thread = {}
    for i, (t, kind, d) in enumerate(ev):
        st = stacks.setdefault(t, [])
        if kind == "exit" and st and st[-1] == d:
            st.pop()
        ctx_at[i] = tuple(st)
        if kind == "enter":
            st.append(d)
        by_thread.setdefault(t, []).append(i)
    pos_in_thread = {}
    for t, l in by_thread.items():
        for k, i in enumerate(l):
            pos_in_thread[i] = k

    def block(i):
        j = nxt_op.get(i, len(ev))
        return ev[i + 1:j]

    def after(i):
        j = nxt_op.get(i)
        if j is None:
            return world.final_snap
        return snaps[j]

    def following(i):
        """events of the same thread after i (index, event)"""
        t = ev[i][0]
        l = by_thread[t]
        for k in range(pos_in_thread[i] + 1, len(l)):
            yield l[k], ev[l[k]]

    def lst_op(i):
        """the list operation performed on self.requests in the block of event i (the attribute
        load R:requests may be an earlier event: `self.requests.append(self.request)`)"""
        for (t, kind, d) in block(i):
            if kind == "lst":
                return d
        return None

    def is_op(i):
        return i in snaps

    steps = []
    svc_no = [0]
    cur_svc = {}
    cur_req = {}

    def emit(i, tok):
        labs = []
        t = ev[i][0]
        for (t2, kind, d) in block(i):
            if kind == "decide":
                labs.append("dec:%s" % d[0])
            elif kind == "service_start":
                cur_svc[t2] = svc_no[0]
                labs.append("start:%d" % svc_no[0])
                svc_no[0] += 1
            elif kind == "app_call":
                labs.append("app:%s:%s" % (cur_svc.get(t2, "?"), cur_req.get(t2, "?")))
        steps.append({"i": i, "tok": tok, "labels": labs, "after": after(i), "ev": ev[i]})

    sd_pending = []
    # ---- I/O thread state
    io = {"evaluated": False, "hw": None, "pending_add": False, "cont": {}}
    wk = {}   # thread name -> dict(ph=..., popped=bool, pending_add=bool)

    def top(c):
        return c[-1] if c else None

    def classify_recv(i):
        """sock_recv at i (handle_read): -> token"""
        for (t, kind, d) in block(i):
            if kind == "recv":
                break
        else:
            # no data: EOF / disconnect errno (then handle_read sets connected False) or other errno
            depth = len(ctx_at[i])
            for j, (t, kind, d) in following(i):
                if kind == "exit" and d == "handle_read" and len(ctx_at[j]) < depth:
                    break
                if kind == "W:connected" and top(ctx_at[j]) == "handle_read":
                    return "io:eof"
            return "io:rerr"
        items = []
        depth = None
        for j, (t, kind, d) in following(i):
            if kind == "enter" and d == "received" and depth is None:
                depth = len(ctx_at[j])
            elif kind == "exit" and d == "received" and depth is not None and len(ctx_at[j]) == depth:
                break
            elif kind == "exit" and d == "handle_read":
                break
            elif kind == "lst" and d[0] == "append":
                items.append("e" if d[1][1] else "r")
            elif kind == "enter" and d == "send_continue":
                # does its flush close the channel?
                dd = len(ctx_at[j])
                closes = False
                failed = False
                first_op = None
                trig = None
                for j2, (t2, k2, d2) in following(j):
                    if k2 == "exit" and d2 == "send_continue" and len(ctx_at[j2]) == dd:
                        break
                    if is_op(j2) and first_op is None:
                        first_op = j2
                    if k2 == "W:connected" and top(ctx_at[j2]) == "handle_close" and not closes and not failed:
                        closes = True
                        trig = j2
                    if k2 == "W:will_close" and "_flush_exception" in ctx_at[j2] and not closes and not failed:
                        failed = True
                        trig = j2
                items.append("d" if closes else ("f" if failed else "c"))
                io["cont"][trig if (closes or failed) else first_op] = True
        return "io:data:" + ("".join(items) or "-")

    def hw_outcome(i):
        """i = ('enter','handle_write') note: -> (outcome, trigger index or None)"""
        depth = len(ctx_at[i])
        for j, (t, kind, d) in following(i):
            c = ctx_at[j]
            if kind == "exit" and d == "handle_write" and len(c) == depth:
                break
            if kind == "R:close_when_flushed" and top(c) == "handle_write":
                break
            if kind == "W:will_close" and "_flush_exception" in c:
                return "ferr", j
            if kind == "W:connected" and top(c) == "handle_close":
                return "fdisc", j
        return "fok", None

    for i, (t, kind, d) in enumerate(ev):
        c = ctx_at[i]
        tp = top(c)
        if t == "io":
            if kind == "enter" and d == "handle_write":
                out, trig = hw_outcome(i)
                io["hw"] = {"phase": "flush", "outcome": out, "trig": trig, "done": False}
                continue
            if kind == "exit" and d == "handle_write":
                io["hw"] = None
                continue
            if kind == "enter" and d == "readable":
                io["evaluated"] = True
                continue
            if kind == "add_task":
                io["pending_add"] = True
                continue
            if not is_op(i):
                continue
            hw = io["hw"]
            if i in io["cont"]:
                emit(i, "io")
                continue
            if tp == "maintenance":
                if lst_op(i) is not None and lst_op(i)[0] == "bool":
                    emit(i, "io:maint")
                    emit(i, "io")
                    io["maint_pending"] = len(snaps[i]["reqs"]) == 0
                elif kind == "R:last_activity" and io.get("maint_pending"):
                    # does the write follow?
                    wr = False
                    for j, (t2, k2, d2) in following(i):
                        if is_op(j):
                            wr = (k2 == "W:will_close" and top(ctx_at[j]) == "maintenance")
                            break
                    if not wr:
                        io["maint_pending"] = False
                        emit(i, "io:to0")
                elif kind == "W:will_close" and io.get("maint_pending"):
                    io["maint_pending"] = False
                    emit(i, "io:to1")
                elif kind in ("W:will_close", "W:close_when_flushed", "W:connected", "W:requests"):
                    raise MapError("maintenance: unexpected %r" % (ev[i],))
                continue
            if tp == "readable":
                if kind == "R:total_outbufs_len":
                    emit(i, "io:len%d" % snaps[i]["tol"])
                elif kind in ("R:will_close", "R:close_when_flushed", "R:requests"):
                    emit(i, "io")
                else:
                    raise MapError("readable: unexpected %r" % (ev[i],))
                continue
            if tp == "writable":
                if kind == "R:total_outbufs_len":
                    emit(i, "io:len%d" % snaps[i]["tol"])
                elif kind in ("R:will_close", "R:close_when_flushed"):
                    emit(i, "io")
                else:
                    raise MapError("writable: unexpected %r" % (ev[i],))
                continue
            if kind == "select":
                if not io["evaluated"]:
                    continue
                io["evaluated"] = False
                sel = None
                for (t2, k2, d2) in block(i):
                    if k2 == "selected":
                        sel = d2
                if sel is None:
                    continue       # the run ended inside select
                emit(i, "io:sel%d%d" % (int(CHAN_FD in sel[0]), int(CHAN_FD in sel[1])))
                continue
            if kind == "sock_recv" and tp == "handle_read":
                emit(i, classify_recv(i))
                continue
            if kind == "W:connected" and tp == "handle_read":
                emit(i, "io")
                continue
            if tp == "received":
                if kind == "acquire" and d == rlock:
                    emit(i, "io")
                elif kind == "release" and d == rlock:
                    emit(i, "io")
                elif kind in ("R:will_close", "R:close_when_flushed"):
                    emit(i, "io")
                elif lst_op(i) is not None:
                    op = lst_op(i)
                    if op[0] in ("append", "len"):
                        emit(i, "io")
                    elif op[0] == "bool":
                        pass           # `not self.requests` in the 100-continue test: no model step
                    else:
                        raise MapError("received: unexpected use of requests: %r" % (op,))
                elif kind == "R:requests":
                    # the attribute load of `self.requests.append(self.request)`: the list object is
                    # taken here, the append happens after `self.request` has been loaded
                    for j, (t2, k2, d2) in following(i):
                        if is_op(j):
                            op2 = lst_op(j)
                            if op2 is not None and op2[0] == "append":
                                emit(i, "io")
                            break
                elif kind == "W:requests":
                    raise MapError("received writes requests")
                elif kind in ("W:will_close", "W:close_when_flushed", "W:connected"):
                    raise MapError("received writes %s" % kind)
                elif kind == "acquire" and d == dlock and io["pending_add"]:
                    io["pending_add"] = False
                    emit(i, "io")
                continue
            if kind == "W:connected" and tp == "handle_close":
                # the first write inside a handle_close frame is the decision
                first = True
                for (t2, k2, d2) in block(i):
                    pass
                decided = any(k2 == "decide" for (t2, k2, d2) in block(i))
                if not decided:
                    continue
                if hw is not None and hw["phase"] == "flush" and hw["trig"] == i:
                    hw["done"] = True
                    emit(i, "io:fdisc")
                else:
                    emit(i, "io")
                continue
            if hw is not None:
                if hw["phase"] == "flush":
                    if hw["outcome"] == "fok" and not hw["done"]:
                        hw["done"] = True
                        emit(i, "io:fok")
                        continue
                    if hw["outcome"] == "ferr" and hw["trig"] == i:
                        hw["done"] = True
                        emit(i, "io:ferr")
                        continue
                    if kind == "R:close_when_flushed" and tp == "handle_write":
                        hw["phase"] = "after"
                        emit(i, "io")
                        continue
                    if kind in ("W:will_close", "W:close_when_flushed", "W:requests") and hw["trig"] != i:
                        raise MapError("handle_write flush phase: unexpected %r in %r" % (ev[i], c))
                    continue
                # phase "after"
                if tp == "handle_write":
                    if kind == "R:total_outbufs_len":
                        emit(i, "io:len%d" % snaps[i]["tol"])
                    elif kind in ("W:close_when_flushed", "W:will_close", "R:will_close", "R:close_when_flushed"):
                        emit(i, "io")
                    elif kind in ("W:requests", "W:connected"):
                        raise MapError("handle_write: unexpected %r" % (ev[i],))
                continue
            if kind in ("W:will_close", "W:close_when_flushed", "W:requests", "W:connected"):
                if kind == "W:connected" and not any(k2 == "decide" for (t2, k2, d2) in block(i)):
                    continue
                raise MapError("I/O thread: unmodelled write %r in %r" % (ev[i], c))
            continue

        if t == "client":
            # the thread that runs ThreadedTaskDispatcher.shutdown -> cancel()
            if kind == "enter" and d == "cancel":
                # the popleft happened in the block of the previous operation of this thread
                k = pos_in_thread[i]
                l = by_thread[t]
                j = None
                for kk in range(k - 1, -1, -1):
                    if is_op(l[kk]):
                        j = l[kk]
                        break
                if j is None:
                    raise MapError("cancel() with no preceding operation")
                sd_pending.append(j)
                continue
            if not is_op(i) or tp != "cancel":
                continue
            if kind in ("W:will_close", "W:connected", "W:requests"):
                emit(i, "sd")
            continue
        if not t.startswith("waitress-"):
            continue
        w = int(t.split("-")[1])
        st = wk.setdefault(t, {"ph": "idle", "popped": False, "pending_add": False})
        W = "w%d" % w
        if kind == "add_task":
            st["pending_add"] = True
            continue
        if kind == "lst" and d[0] == "getitem" and "service" in c:
            cur_req[t] = d[1]
            continue
        if not is_op(i):
            continue
        in_service = "service" in c
        if not in_service:
            if (kind == "acquire" and d == dlock) or (kind == "wake" and d and d[0] == qcv):
                for j, (t2, k2, d2) in following(i):
                    if is_op(j):
                        if k2 == "release" and d2 == dlock:
                            st["popped"] = True
                            emit(i, W)
                        break
                continue
            if kind == "release" and d == dlock and st["popped"]:
                st["popped"] = False
                st["ph"] = "start"
                emit(i, W)
                continue
            continue
        # inside service()
        ph = st["ph"]
        if kind == "W:will_close" and "_flush_exception" in c:
            emit(i, W + ":fe")
            continue
        if kind == "R:connected" and tp == "write_soon":
            emit(i, W + ":rc")
            continue
        if kind == "acquire" and d == dlock and st["pending_add"]:
            st["pending_add"] = False
            if ph != "keep_add":
                raise MapError("worker add_task in phase %s" % ph)
            emit(i, W)
            st["ph"] = "rel"
            continue
        if tp != "service":
            if kind in ("W:close_when_flushed", "W:requests") or (kind == "W:will_close"):
                raise MapError("worker: unmodelled write %r in %r" % (ev[i], c))
            if kind == "W:connected" and any(k2 == "decide" for (t2, k2, d2) in block(i)):
                raise MapError("worker: unmodelled close %r in %r" % (ev[i], c))
            continue
        if lst_op(i) is not None:
            op = lst_op(i)
            if op[0] == "getitem" and ph == "start":
                emit(i, W)
                st["ph"] = "start2"
            elif op[0] == "len" and ph == "task":
                pass                  # `len(self.requests) > 1` before _flush_outbufs_below_high_watermark
            elif op[0] == "iter" and ph == "close":
                pass                  # `for request in self.requests: request.close()`
            elif op[0] == "pop" and ph == "keep0":
                emit(i, W)
                st["ph"] = "keep"
            elif op[0] == "bool" and ph == "keep_rq":
                nonempty = len(snaps[i]["reqs"]) > 0
                emit(i, W)
                st["ph"] = "keep_add" if nonempty else "keep_e"
            else:
                raise MapError("service: unexpected use of requests %r in phase %s" % (op, ph))
            continue
        if kind == "R:connected":
            val = snaps[i]["conn"]
            if ph == "start2":
                emit(i, W)
                st["ph"] = "start3" if val else "task"
            elif ph == "keep":
                emit(i, W)
                st["ph"] = "keep_rq" if val else "keep_e"
            elif ph == "keep_e":
                # the elif; then possibly send_continue(do_close=False), whose flush error is the
                # step taken here (the W:will_close event is then the trigger)
                fails = False
                for j, (t2, k2, d2) in following(i):
                    if k2 == "release" and d2 == rlock and top(ctx_at[j]) == "service":
                        break
                    if k2 == "W:will_close" and "_flush_exception" in ctx_at[j]:
                        fails = True
                        break
                if not fails:
                    emit(i, W)
                st["ph"] = "rel"
            elif ph in ("tail", "task", "rel"):
                pass
            else:
                raise MapError("service: read of connected in phase %s" % ph)
            continue
        if kind == "R:will_close" and ph == "start3":
            emit(i, W)       # `if self.connected and not self.will_close`
            st["ph"] = "task"
            continue
        if kind == "acquire" and d == rlock:
            b = None
            for j, (t2, k2, d2) in following(i):
                if not is_op(j):
                    continue
                if k2 == "W:close_when_flushed":
                    b = 1
                    break
                if k2 == "R:requests":
                    b = 0
                    break
                if k2 in ("release",):
                    break
            if b is None:
                # the run ended while the worker waited for / just got the lock: decide by the task
                continue
            emit(i, W + ":lock%d" % b)
            st["ph"] = "close" if b else "keep0"
            continue
        if kind == "W:close_when_flushed":
            if ph != "close":
                raise MapError("service writes close_when_flushed in phase %s" % ph)
            emit(i, W)
            continue
        if kind == "W:requests":
            if ph != "close":
                raise MapError("service writes requests in phase %s" % ph)
            emit(i, W)
            continue
        if kind == "release" and d == rlock:
            emit(i, W)
            st["ph"] = "tail"
            continue
        if kind in ("W:will_close", "W:connected"):
            raise MapError("service: unmodelled write %r" % (ev[i],))
    # the popleft of shutdown(): a step of SD at the operation that precedes cancel()
    for j in sd_pending:
        labs = []
        steps.append({"i": j, "tok": "sd", "labels": labs, "after": after(j), "ev": ev[j], "sd_pop": True})
    if sd_pending:
        steps.sort(key=lambda s: (s["i"], 0 if not s.get("sd_pop") else 1))
    return steps


def fmt_snap(s):
    if s is None:
        return None
    rl = s["rlock"]
    if rl is None:
        rl = "-"
    elif rl == "io":
        rl = "io"
    elif rl.startswith("waitress-"):
        rl = "w" + rl.split("-")[1]
    return "wc=%d;cwf=%d;conn=%d;reqs=%s;rlock=%s;queue=%d" % (
        s["wc"], s["cwf"], s["conn"], ".".join(s["reqs"]) or "-", rl, s["queue"])


_KEEP = re.compile(r"^(wc=\d;cwf=\d;conn=\d;reqs=[^;]*;rlock=[^;]*;queue=\d+);")


def validate(runner, lookahead, steps):
    """Run the extracted model on the tokens.  -> (ok, detail, n_steps_checked)"""
    if not steps:
        return True, None, 0
    line = "run %d %s" % (lookahead, " ".join(s["tok"] for s in steps))
    ans = runner.query([line])[0]
    if ans.startswith("ERR"):
        return False, {"error": ans}, 0
    fields = ans.split("|")
    n = 0
    for s, f in zip(steps, fields):
        if f == "X":
            return False, {"at": n, "event": repr(s["ev"]), "token": s["tok"],
                           "problem": "the model does not allow this step here"}, n
        labs, _, state = f.partition(";")
        m = _KEEP.match(state)
        got = m.group(1) if m else state
        want = fmt_snap(s["after"])
        if want is not None and got != want:
            return False, {"at": n, "event": repr(s["ev"]), "token": s["tok"], "problem": "abstract state differs",
                           "model": got, "real": want}, n
        mlabs = [l for l in (labs.split(",") if labs != "-" else []) if l.split(":")[0] in ("dec", "start", "app")]
        if mlabs != s["labels"]:
            return False, {"at": n, "event": repr(s["ev"]), "token": s["tok"], "problem": "labels differ",
                           "model": mlabs, "real": s["labels"]}, n
        n += 1
    return True, None, n


# ----------------------------------------------------------------------------------------
# scenarios

def req_bytes(kind, idx):
    """One client message.  kinds: get (keep-alive), close (Connection: close), v10 (HTTP/1.0),
    bad (garbage -> 400), part (an incomplete head), post (body in the same message)."""
    p = b"/r%d" % idx
    if kind == "get":
        return b"GET " + p + b" HTTP/1.1\r\nHost: x\r\n\r\n"
    if kind == "close":
        return b"GET " + p + b" HTTP/1.1\r\nHost: x\r\nConnection: close\r\n\r\n"
    if kind == "v10":
        return b"GET " + p + b" HTTP/1.0\r\n\r\n"
    if kind == "bad":
        return b"GARBAGE\r\n\r\n"
    if kind == "part":
        return b"GET " + p + b" HTTP/1.1\r\nHost: x\r\nX-Par"
    if kind == "post":
        return b"POST " + p + b" HTTP/1.1\r\nHost: x\r\nContent-Length: 3\r\n\r\nabc"
    if kind == "exphead":
        return b"POST " + p + b" HTTP/1.1\r\nHost: x\r\nContent-Length: 3\r\nExpect: 100-continue\r\n\r\n"
    if kind == "body3":
        return b"abc"
    if kind in FAILING_KINDS:
        if kind == "ose_mid10":
            return b"GET /ose_mid%d HTTP/1.0\r\nConnection: keep-alive\r\n\r\n" % idx
        return b"GET /" + kind.encode() + b"%d HTTP/1.1\r\nHost: x\r\n\r\n" % idx
    if kind == "raise":
        return b"GET /raise%d HTTP/1.1\r\nHost: x\r\n\r\n" % idx
    if kind == "nolen":
        return b"GET /nolen%d HTTP/1.1\r\nHost: x\r\n\r\n" % idx
    raise ValueError(kind)


FAILING_KINDS = ("ose_pre", "ose_head", "ose_mid", "exc_mid", "ose_chunk", "exc_chunk", "ose_close", "short", "ose_mid10")


class _ClosingIter:
    """an app_iter whose close() fails"""

    def __init__(self, chunks, exc):
        self.it = iter(chunks)
        self.exc = exc

    def __iter__(self):
        return self

    def __next__(self):
        return next(self.it)

    def close(self):
        raise self.exc


def make_app():
    def app(environ, start_response):
        path = environ.get("PATH_INFO", "")
        if path.startswith("/raise"):
            raise ValueError("application failure")
        # applications that fail: before any output, after start_response, in the middle of a body
        # announced with Content-Length / sent chunked, in close(); with OSError subclasses and others
        if path.startswith("/ose_pre"):
            raise ConnectionResetError("upstream reset")
        if path.startswith("/ose_head"):
            start_response("200 OK", [("Content-Length", "10")])
            raise BrokenPipeError("upstream pipe")
        if path.startswith("/ose_mid") or path.startswith("/exc_mid"):
            exc = TimeoutError("upstream timeout") if path.startswith("/ose") else ValueError("bug")
            start_response("200 OK", [("Content-Length", "10")])

            def gen():
                yield b"abc"
                raise exc
            return gen()
        if path.startswith("/ose_chunk") or path.startswith("/exc_chunk"):
            exc = ConnectionAbortedError("upstream abort") if path.startswith("/ose") else KeyError("bug")
            start_response("200 OK", [("Content-Type", "text/plain")])

            def gen2():
                yield b"abc"
                raise exc
            return gen2()
        if path.startswith("/ose_close"):
            start_response("200 OK", [("Content-Length", "3")])
            return _ClosingIter([b"abc"], OSError(5, "close failed"))
        if path.startswith("/short"):
            start_response("200 OK", [("Content-Length", "10")])
            return [b"abc"]
        body = path.encode()
        if path.startswith("/nolen"):
            start_response("200 OK", [("Content-Type", "text/plain")])   # undelimitable on HTTP/1.0; chunked on 1.1
            return [body]
        start_response("200 OK", [("Content-Length", str(len(body)))])
        return [body]
    return app


def build_world(sc, schedule=(), policy=None, granularity="locks", cls=None):
    """sc: dict(msgs=[kind...], cuts=[how the concatenated bytes are split into sends], close=bool,
    send_plan=[...], recv_faults={k: errno}, lookahead=int, workers=int)"""
    cls = cls or CloseWorld
    data = b"".join(req_bytes(k, i) for i, k in enumerate(sc["msgs"]))
    cuts = [c for c in sc.get("cuts", []) if isinstance(c, int) and 0 < c < len(data)]
    if "boundaries" in sc.get("cuts", []):
        acc = 0
        for i, k in enumerate(sc["msgs"][:-1]):
            acc += len(req_bytes(k, i))
            cuts.append(acc)
    script = []
    prev = 0
    for c in sorted(set(cuts)) + [len(data)]:
        if c > prev:
            script.append(("send", data[prev:c]))
            if prev == 0 and sc.get("wait_wire") and c < len(data):
                # a client that sends the rest only after it has seen part of the first response
                script.append(("wait_wire", sc["wait_wire"]))
            prev = c
    if sc.get("shutdown") is not None:
        # the server is stopped after the k-th client step (the I/O thread keeps running: the model
        # allows cancel() concurrently with everything)
        k = min(int(sc["shutdown"]), len(script))
        script.insert(k, ("shutdown", sc.get("shutdown_timeout", 0.25)))
    if sc.get("close"):
        script.append(("close",))
    plan = [tuple(x) if isinstance(x, list) else x for x in sc.get("send_plan", [])]
    rf = {int(k): v for k, v in (sc.get("recv_faults") or {}).items()}
    adj_kw = {"channel_request_lookahead": sc.get("lookahead", 0)}
    adj_kw.update(sc.get("adj") or {})       # e.g. log_socket_errors, expose_tracebacks
    kw = {}
    if sc.get("maint") is not None:
        # maintenance in the given poll turns (True: all); timeout < 0: every idle channel is overdue
        adj_kw["channel_timeout"] = sc.get("channel_timeout", -1000)
        kw["maint"] = sc["maint"]
    return cls(make_app(), script, schedule=schedule, policy=policy, adj_kw=adj_kw,
               n_workers=sc.get("workers", 1), send_plan=plan, recv_faults=rf,
               granularity=granularity, max_steps=sc.get("max_steps", 1500), **kw)


def gen_scenario(rng, with_faults=True):
    n = rng.choice([1, 2, 2, 3, 3, 4])
    closing = ["close", "v10", "bad", "raise"]
    msgs = []
    for i in range(n):
        r = rng.random()
        if r < 0.45:
            msgs.append("get")
        elif r < 0.55:
            msgs.append("post")
        elif r < 0.9:
            msgs.append(rng.choice(closing))
        else:
            msgs.append("nolen")
    if rng.random() < 0.15:
        k = rng.randrange(len(msgs) + 1)
        msgs[k:k] = ["exphead", "body3"] if rng.random() < 0.8 else ["exphead"]
    if rng.random() < 0.25:
        msgs.append("part")
    total = len(b"".join(req_bytes(k, i) for i, k in enumerate(msgs)))
    cuts = []
    r = rng.random()
    if r < 0.4:
        cuts = []
    elif r < 0.8:
        # cut at message boundaries (later reads) or inside a message
        acc = 0
        for i, k in enumerate(msgs[:-1]):
            acc += len(req_bytes(k, i))
            if rng.random() < 0.6:
                cuts.append(acc)
    else:
        cuts = [rng.randrange(1, total) for _ in range(rng.choice([1, 2]))]
    sc = {"msgs": msgs, "cuts": cuts, "close": rng.random() < 0.3,
          "lookahead": rng.choice([0, 0, 1, 2, 5]), "workers": rng.choice([1, 1, 2, 3])}
    r = rng.random()
    if r < 0.2:
        # a slow client: the kernel takes a few bytes, then nothing, for several flush rounds
        plan = []
        for _ in range(rng.choice([1, 2, 3, 4, 5])):
            plan += [rng.choice([1, 7, 40]), 0]
        if with_faults and rng.random() < 0.2:
            plan.append(["err", pick_errno(rng)])
        sc["send_plan"] = plan
    elif with_faults and r < 0.55:
        plan = []
        for _ in range(rng.choice([1, 2, 3])):
            r = rng.random()
            if r < 0.3:
                plan.append(0)
            elif r < 0.45:
                plan.append(rng.choice([1, 7, 40]))
            elif r < 0.9:
                plan.append(["err", pick_errno(rng)])
            else:
                plan.append(None)
        sc["send_plan"] = plan
    if with_faults and rng.random() < 0.1:
        sc["recv_faults"] = {str(rng.choice([0, 1])): pick_errno(rng)}
    if with_faults and (sc.get("send_plan") or sc.get("recv_faults")) and rng.random() < 0.4:
        # what a socket error decides must not depend on whether it is logged
        sc["adj"] = {"log_socket_errors": False}
    r = rng.random()
    if r < 0.12:
        # the listener's maintenance runs in some poll turns; mostly with every idle channel overdue
        sc["maint"] = sorted(set(rng.randrange(1, 9) for _ in range(rng.choice([1, 2, 3]))))
        sc["channel_timeout"] = rng.choice([-1000, -1000, 1000])
    elif r < 0.18:
        # the server is stopped (ThreadedTaskDispatcher.shutdown -> cancel()) after some client step
        sc["shutdown"] = rng.choice([0, 1, 1, 2])
        sc["shutdown_timeout"] = rng.choice([0.05, 0.25])
    return sc


def gen_race_scenario(rng):
    """The family behind GHSA-9298-4cf8-g4wj: a closing exchange is being served while the I/O thread
    (lookahead >= 1) reads what the client sent behind it, in later reads."""
    first = rng.choice(["close", "v10", "bad", "raise", "nolen"])
    msgs = [first] if rng.random() < 0.8 else ["get", first]
    for _ in range(rng.choice([1, 1, 2])):
        msgs.append(rng.choice(["get", "get", "post", "close", "bad"]))
    if rng.random() < 0.2:
        msgs.append("part")
    sc = {"msgs": msgs, "cuts": ["boundaries"], "close": rng.random() < 0.2,
          "lookahead": rng.choice([1, 1, 2, 5]), "workers": rng.choice([1, 1, 2])}
    if rng.random() < 0.5:
        sc["wait_wire"] = rng.choice([1, 1, 60, 100])
    if rng.random() < 0.1:
        sc["maint"] = sorted(set(rng.randrange(1, 7) for _ in range(2)))
        sc["channel_timeout"] = -1000
    return sc


def gen_appfail_scenario(rng):
    """The task's verdict as a function of how the application fails and of the configuration: a real
    WSGITask whose application raises (OSError subclasses and others; before output, after the head,
    mid-body with Content-Length / chunked, in close()) or under-delivers, with log_socket_errors and
    expose_tracebacks on or off, and at least one more request queued behind it or arriving later."""
    msgs = [rng.choice(FAILING_KINDS)]
    if rng.random() < 0.3:
        msgs.insert(0, "get")
    for _ in range(rng.choice([1, 1, 2])):
        msgs.append(rng.choice(["get", "get", "post", "close", rng.choice(FAILING_KINDS)]))
    sc = {"msgs": msgs, "cuts": rng.choice([[], ["boundaries"], ["boundaries"]]), "close": rng.random() < 0.15,
          "lookahead": rng.choice([0, 0, 1, 2, 5]), "workers": rng.choice([1, 1, 2]),
          "adj": {"log_socket_errors": rng.random() < 0.5, "expose_tracebacks": rng.random() < 0.3}}
    if rng.random() < 0.4:
        sc["wait_wire"] = rng.choice([1, 60, 100])
    if rng.random() < 0.15:
        sc["send_plan"] = [rng.choice([7, 40]), 0] * rng.choice([1, 2])
    return sc


def make_policy(rng, kind, est=200):
    import random
    r = random.Random(rng.getrandbits(48))
    if kind == "default":
        return None
    if kind == "random":
        return RandomPolicy(r, stay=r.choice([0.0, 0.5, 0.8, 0.9]))
    depth = int(kind[3:])
    return PCTPolicy(r, depth, est)


# ----------------------------------------------------------------------------------------
# shape audit

# What Model/ChanClose.v assumes about each method: the sequence of lock scopes, accesses of the
# attributes the model keeps (will_close close_when_flushed connected requests), flag tests and
# add_task calls, in program order.  Printed from the source by shape_of(); compared verbatim.
AUDITED_ATTRS = ("will_close", "close_when_flushed", "connected", "requests")
AUDITED_CALLS = ("add_task", "handle_close", "send_continue", "_flush_exception", "received", "pull_trigger",
                 "_flush_outbufs_below_high_watermark", "cancel", "close", "service", "_flush_some", "send",
                 "_flush_some_if_lockable")
SHOW_KW = ("do_close",)

SIGNATURE = {
    "channel.HTTPChannel.readable":
        'R:will_close R:close_when_flushed R:requests R:total_outbufs_len',
    "channel.HTTPChannel.writable":
        'R:total_outbufs_len R:will_close R:close_when_flushed',
    "channel.HTTPChannel.handle_write":
        'if(R:requests) { ref:_flush_some_if_lockable } elif(R:total_outbufs_len R:total_outbufs_len) { '
        'ref:_flush_some_if_lockable } else { } call:_flush_exception if(R:close_when_flushed '
        'R:total_outbufs_len) { W:close_when_flushed=False W:will_close=True } if(R:will_close) { '
        'call:handle_close }',
    "channel.HTTPChannel._flush_exception":
        'if() { try { } except(OSError) { if() { } W:will_close=True } except(Exception) { W:will_close=True '
        '} }',
    "channel.HTTPChannel.handle_read":
        'try { } except(OSError) { if() { } call:handle_close } if() { call:received } else { '
        'W:connected=False }',
    "channel.HTTPChannel.received":
        'if() { } with(requests_lock) { if(R:will_close R:close_when_flushed) { } while() { if() { } '
        'call:received if(R:requests) { call:send_continue } if() { if() { R:requests if(R:requests) { '
        'call:add_task } } } if() { } } }',
    "channel.HTTPChannel.handle_close":
        'with(outbuf_lock) { for() { try { call:close } except(Exception) { } } W:connected=False } '
        'call:close',
    "channel.HTTPChannel.service":
        'R:requests if() { } else { } try { if(R:connected R:will_close) { call:service } else { } } '
        'except(ClientDisconnected) { } except(BaseException) { if() { if() { } else { } try { } '
        'except(KeyError) { } try { call:service } except(ClientDisconnected) { } } else { } } if() { '
        'with(requests_lock) { W:close_when_flushed=True for(R:requests) { call:close } W:requests=[] } } '
        'else { if(R:requests) { call:_flush_outbufs_below_high_watermark } if() { } call:close '
        'with(requests_lock) { R:requests if(R:connected R:requests) { call:add_task } elif(R:connected) { '
        'call:send_continue(do_close=False) } } } if(R:connected) { call:pull_trigger }',
    "channel.HTTPChannel.write_soon":
        'if(R:connected) { } if() { with(outbuf_lock) { call:_flush_outbufs_below_high_watermark '
        'if(R:connected) { } if() { } else { if() { } } if(R:total_outbufs_len) { '
        'call:_flush_exception(do_close=False) if(R:total_outbufs_len) { call:pull_trigger } } } }',
    "channel.HTTPChannel._flush_outbufs_below_high_watermark":
        'if(R:total_outbufs_len) { with(outbuf_lock) { if(R:connected) { } '
        'call:_flush_exception(do_close=False) if() { call:pull_trigger } while(R:connected '
        'R:total_outbufs_len) { call:pull_trigger } } }',
    "channel.HTTPChannel.cancel":
        'W:will_close=True W:connected=False W:requests=[]',
    "server.BaseWSGIServer.maintenance":
        'for() { if(R:requests) { W:will_close=True } }',
    "task.ThreadedTaskDispatcher.handler_thread":
        'while() { with(lock) { while() { } if() { } } try { call:service } except(BaseException) { } }',
    "task.ThreadedTaskDispatcher.add_task":
        'with(lock) { if() { } }',
    "wasyncore.dispatcher.recv":
        'try { if() { call:handle_close } else { } } except(OSError) { if() { call:handle_close } else { } }',
    "wasyncore.dispatcher.send":
        'try { call:send } except(OSError) { if() { } elif() { if() { call:handle_close } } else { } }',
    "wasyncore.dispatcher.close":
        'W:connected=False if() { try { call:close } except(OSError) { if() { } } }',
    "channel.HTTPChannel.send_continue":
        'with(outbuf_lock) { call:_flush_exception(do_close=do_close) }',
    "channel.HTTPChannel._flush_some_if_lockable":
        'if() { try { call:_flush_some(do_close=do_close) if(R:total_outbufs_len) { } } finally { } }',
    "channel.HTTPChannel._flush_some":
        'while() { while() { call:send(do_close=do_close) if() { } else { } } if() { } } if() { }',
}


def _src_root():
    return os.path.join(os.environ.get("WAITRESS_REPO", "/repo"), "src", "waitress")


class _Shape(ast.NodeVisitor):
    """Prints a method body as a sequence of tokens."""

    def __init__(self, local_names=()):
        self.out = []
        # names bound inside the function (parameters, assignment / for / with-as / except-as targets):
        # an audited attribute reached through one of them (`for channel in ...: channel.requests`) counts
        # like one reached through self; the NAME never enters a token, so renaming a local is invisible
        self.bases = {"self"} | set(local_names)
        self.order = {}

    def norm_value(self, node):
        """text of an assigned value with function-local names replaced by v1, v2, ... (first use)"""
        node = ast.parse(ast.unparse(node), mode="eval").body
        for n in ast.walk(node):
            if isinstance(n, ast.Name) and n.id in self.bases and n.id != "self":
                n.id = self.order.setdefault(n.id, "v%d" % (len(self.order) + 1))
        return ast.unparse(node)

    def accesses(self, node):
        """attribute reads of audited attrs and audited calls inside an expression, in source order"""
        found = []
        for n in ast.walk(node):
            if isinstance(n, ast.Attribute) and isinstance(n.ctx, ast.Load):
                if n.attr in AUDITED_ATTRS or n.attr == "total_outbufs_len":
                    base = n.value
                    if isinstance(base, ast.Name) and base.id in self.bases:
                        found.append((n.lineno, n.col_offset, "R:" + n.attr))
            if isinstance(n, ast.Call):
                f = n.func
                name = f.attr if isinstance(f, ast.Attribute) else (f.id if isinstance(f, ast.Name) else None)
                if name in AUDITED_CALLS:
                    kws = ["%s=%s" % (k.arg, ast.unparse(k.value)) for k in n.keywords if k.arg in SHOW_KW]
                    found.append((n.lineno, n.col_offset, "call:" + name + ("(%s)" % ",".join(kws) if kws else "")))
        found.sort()
        return [x[2] for x in found]

    def cond(self, test):
        return " ".join(a for a in self.accesses(test) if a.startswith("R:"))

    def expr_tokens(self, node, only_calls=False, drop_tol=True):
        toks = self.accesses(node)
        out = []
        for t in toks:
            if t == "R:total_outbufs_len" and drop_tol:
                continue
            if only_calls and not t.startswith("call:"):
                continue
            out.append(t)
        return out

    def body(self, stmts):
        for s in stmts:
            self.stmt(s)

    def block(self, stmts):
        self.out.append("{")
        self.body(stmts)
        self.out.append("}")

    def stmt(self, s):
        o = self.out
        if isinstance(s, ast.If):
            first = True
            while True:
                o.append(("if(%s)" if first else "elif(%s)") % self.cond(s.test))
                calls = [t for t in self.accesses(s.test) if t.startswith("call:")]
                o.extend(calls)
                self.block(s.body)
                if len(s.orelse) == 1 and isinstance(s.orelse[0], ast.If):
                    s = s.orelse[0]
                    first = False
                    continue
                if s.orelse:
                    o.append("else")
                    self.block(s.orelse)
                break
        elif isinstance(s, ast.With):
            names = []
            for it in s.items:
                e = it.context_expr
                names.append(e.attr if isinstance(e, ast.Attribute) else "?")
            o.append("with(%s)" % ",".join(names))
            self.block(s.body)
        elif isinstance(s, ast.While):
            o.append("while(%s)" % self.cond(s.test))
            self.block(s.body)
        elif isinstance(s, ast.For):
            o.append("for(%s)" % self.cond(s.iter))
            self.block(s.body)
        elif isinstance(s, ast.Try):
            o.append("try")
            self.block(s.body)
            for h in s.handlers:
                nm = h.type.id if isinstance(h.type, ast.Name) else ("" if h.type is None else ast.unparse(h.type))
                o.append("except(%s)" % nm)
                self.block(h.body)
            if s.finalbody:
                o.append("finally")
                self.block(s.finalbody)
        elif isinstance(s, (ast.Assign, ast.AugAssign, ast.AnnAssign)):
            targets = s.targets if isinstance(s, ast.Assign) else [s.target]
            val = s.value
            o.extend(self.expr_tokens(val) if val is not None else [])
            if isinstance(val, ast.Attribute) and isinstance(val.value, ast.Name) and val.value.id == "self" \
                    and val.attr in AUDITED_CALLS:
                o.append("ref:" + val.attr)      # e.g. `flush = self._flush_some_if_lockable`
            for t in targets:
                if isinstance(t, ast.Attribute) and isinstance(t.value, ast.Name) and t.value.id in self.bases \
                        and t.attr in AUDITED_ATTRS:
                    o.append("W:%s=%s" % (t.attr, self.norm_value(val)))
        elif isinstance(s, (ast.Expr, ast.Return, ast.Raise)):
            v = getattr(s, "value", None) or getattr(s, "exc", None)
            if v is not None:
                o.extend(self.expr_tokens(v))
        elif isinstance(s, (ast.Pass, ast.Break, ast.Continue, ast.Global, ast.Nonlocal, ast.Import, ast.ImportFrom)):
            pass
        else:
            o.append("?" + type(s).__name__)


def _local_names(fn):
    """names bound inside a function: parameters and every Store of a plain name"""
    names = set(a.arg for a in fn.args.args + fn.args.kwonlyargs + fn.args.posonlyargs)
    if fn.args.vararg:
        names.add(fn.args.vararg.arg)
    if fn.args.kwarg:
        names.add(fn.args.kwarg.arg)
    for n in ast.walk(fn):
        if isinstance(n, ast.Name) and isinstance(n.ctx, ast.Store):
            names.add(n.id)
        elif isinstance(n, ast.ExceptHandler) and n.name:
            names.add(n.name)
    return names


def _clean(toks):
    """drop empty blocks' inner noise: `{ }` stays, so that a branch is still visible"""
    return " ".join(toks).replace("{ }", "{ }")


def shape_of(qual):
    mod, cls, meth = qual.split(".")
    path = os.path.join(_src_root(), mod + ".py")
    tree = ast.parse(open(path).read())
    for n in tree.body:
        if isinstance(n, ast.ClassDef) and n.name == cls:
            for m in n.body:
                if isinstance(m, ast.FunctionDef) and m.name == meth:
                    sh = _Shape(_local_names(m))
                    body = m.body
                    if body and isinstance(body[0], ast.Expr) and isinstance(body[0].value, ast.Constant) \
                            and isinstance(body[0].value.value, str):
                        body = body[1:]
                    if meth in ("readable", "writable"):
                        # a single boolean expression: the order of the reads is the signature
                        toks = []
                        for s in body:
                            for nn in ast.walk(s):
                                pass
                            v = getattr(s, "value", None)
                            if v is not None:
                                toks.extend(t for t in sh.accesses(v))
                        return " ".join(toks)
                    sh.body(body)
                    return _clean(sh.out)
    return None


def shape_audit():
    """-> list of (method, expected, found) that differ"""
    bad = []
    for q, want in SIGNATURE.items():
        got = shape_of(q)
        if got != want:
            bad.append((q, want, got))
    # the set of "silent disconnect" errnos: by name in the source, and by value at run time
    want = " ".join(sorted(EXPECTED_DISCONNECTED_NAMES))
    got = None
    try:
        tree = ast.parse(open(os.path.join(_src_root(), "wasyncore.py")).read())
        for n in tree.body:
            if isinstance(n, ast.Assign) and any(isinstance(t, ast.Name) and t.id == "_DISCONNECTED" for t in n.targets):
                v = n.value
                if isinstance(v, ast.Call) and getattr(v.func, "id", None) == "frozenset" and len(v.args) == 1 \
                        and isinstance(v.args[0], (ast.Set, ast.Tuple, ast.List)) \
                        and all(isinstance(x, ast.Name) for x in v.args[0].elts):
                    got = " ".join(sorted(x.id for x in v.args[0].elts))
                else:
                    got = "?" + ast.unparse(v)
    except OSError as e:  # pragma: no cover
        got = "unreadable: %s" % e
    if got != want:
        bad.append(("wasyncore._DISCONNECTED (source)", want, got))
    try:
        from waitress import wasyncore
        cur = frozenset(wasyncore._DISCONNECTED)
        if cur != EXPECTED_DISCONNECTED:
            bad.append(("wasyncore._DISCONNECTED (run-time value)", " ".join(sorted(map(errno_name, EXPECTED_DISCONNECTED))),
                        " ".join(sorted(map(errno_name, cur)))))
    except Exception as e:  # pragma: no cover
        bad.append(("wasyncore._DISCONNECTED (run-time value)", want, "unreadable: %s" % e))
    return bad


# re-synchronised after /repo fixes b1d94ba and 1a765e6: service() reads getattr(task.request, 'path', None) in its two log
# lines and wraps the ladder's `task.service()  # must not fail` in one more handler (except BaseException: log;
# task.close_on_finish = True).  Neither touches a shared channel attribute, a lock or a call on a shared object; the
# worker now reaches the tail of service() where it used to leave it with the exception (C09_escape states the new flow).
SIGNATURE['channel.HTTPChannel.service'] = (
    ('R:requests if() { } else { } try { if(R:connected R:will_close) { call:service } else { } } '
     'except(ClientDisconnected) { } except(BaseException) { if() { if() { } else { } try { } except(KeyError) { } try { '
     'call:service } except(ClientDisconnected) { } except(BaseException) { } } else { } } if() { with(requests_lock) { '
     'W:close_when_flushed=True for(R:requests) { call:close } W:requests=[] } } else { if(R:requests) { '
     'call:_flush_outbufs_below_high_watermark } if() { } call:close with(requests_lock) { R:requests if(R:connected '
     'R:requests) { call:add_task } elif(R:connected) { call:send_continue(do_close=False) } } } if(R:connected) { '
     'call:pull_trigger }')
)
