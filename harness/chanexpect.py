"""C19 harness: Expect: 100-continue on the REAL HTTPChannel.

Three parts.

(a) sequential scenarios (no scheduler): a scripted client feeds reads to a real
    HTTPChannel the way the poll loop would (only when readable(), flush when
    writable()), the real service() with the real WSGITask / ErrorTask runs on
    the same thread whenever the script says "serve"; the MONITOR parses the bytes
    the socket received and the application calls and compares them with what
    the property demands of the pipeline.
(b) interleaved scenarios on harness/chan_world.World (real channel, real
    dispatcher, real poll loop, deterministic scheduler) with a client that
    WAITS for the interim response; the same monitor on world.wire, plus
    K-chanexpect: the run is mapped to choices of the extracted interleaving
    model Model/ChanExpect.v and the model's abstract state is compared with
    the real channel after every step.
(c) an ast SHAPE AUDIT of HTTPChannel.received / send_continue / the head and
    tail of service() against the signature written next to the model
    (comment block SIGNATURE in coq/Model/ChanExpect.v).
"""
import ast
import bisect
import hashlib
import logging
import os
import re
import textwrap

from lib import vcommon
from lib.vcommon import hexb

logging.disable(logging.CRITICAL)

INTERIM = b"HTTP/1.1 100 Continue\r\n\r\n"

# ---------------------------------------------------------------------------
# request specifications and generators


KINDS = {
    # kind: (version, expect header value or None, framing)
    "get": ("1.1", None, "none"),
    "post_cl": ("1.1", None, "cl"),
    "post_chunked": ("1.1", None, "chunked"),
    "expect_cl": ("1.1", b"100-continue", "cl"),
    "expect_cl_case": ("1.1", b"100-Continue", "cl"),
    "expect_cl_ws": ("1.1", b"100-continue \t", "cl"),
    "expect_chunked": ("1.1", b"100-continue", "chunked"),
    "expect_other": ("1.1", b"200-ok", "cl"),
    "expect_list": ("1.1", b"100-continue, x", "cl"),
    "expect10": ("1.0", b"100-continue", "cl"),
    # complete (or refused) at the end of the header block: the class of F5/F6
    "expect_nobody": ("1.1", b"100-continue", "none"),
    "expect_cl0": ("1.1", b"100-continue", "cl0"),
    "expect_toolarge": ("1.1", b"100-continue", "toolarge"),
    "expect_badcl": ("1.1", b"100-continue", "badcl"),
    # refused without having asked
    "badcl": ("1.1", None, "badcl"),
}
KF_KINDS = ("expect_nobody", "expect_cl0", "expect_toolarge", "expect_badcl")
MAX_BODY = 64          # max_request_body_size used by the scenarios


class Req:
    """One request of a pipeline."""

    def __init__(self, idx, kind, body=b"", close=False):
        self.idx = idx
        self.kind = kind
        self.version, self.expect, self.framing = KINDS[kind]
        self.body = body if self.framing in ("cl", "chunked") else b""
        self.close = close

    @property
    def asks(self):
        return self.version == "1.1" and self.expect is not None and \
            self.expect.strip(b" \t").lower() == b"100-continue"

    @property
    def refused(self):
        return self.framing in ("toolarge", "badcl")

    @property
    def complete_at_head(self):
        return self.framing in ("none", "cl0", "toolarge", "badcl") or (self.framing == "cl" and not self.body)

    def head(self):
        lines = [b"%s /r%d HTTP/%s" % (b"POST" if self.framing != "none" else b"GET", self.idx,
                                       self.version.encode())]
        lines.append(b"X-Id: %d" % self.idx)
        if self.expect is not None:
            lines.append(b"Expect: " + self.expect)
        if self.version == "1.0" and not self.close:
            lines.append(b"Connection: keep-alive")
        if self.close:
            lines.append(b"Connection: close")
        if self.framing == "cl":
            lines.append(b"Content-Length: %d" % len(self.body))
        elif self.framing == "cl0":
            lines.append(b"Content-Length: 0")
        elif self.framing == "toolarge":
            lines.append(b"Content-Length: %d" % (MAX_BODY + 10))
        elif self.framing == "badcl":
            lines.append(b"Content-Length: 1x")
        elif self.framing == "chunked":
            lines.append(b"Transfer-Encoding: chunked")
        return b"\r\n".join(lines) + b"\r\n\r\n"

    def payload(self):
        if self.framing == "cl":
            return self.body
        if self.framing == "chunked":
            out = b""
            b = self.body
            if b:
                k = max(1, len(b) // 2)
                for part in (b[:k], b[k:]):
                    if part:
                        out += b"%x\r\n" % len(part) + part + b"\r\n"
            return out + b"0\r\n\r\n"
        return b""

    def to_json(self):
        return {"idx": self.idx, "kind": self.kind, "body": hexb(self.body), "close": self.close}

    @staticmethod
    def from_json(d):
        return Req(d["idx"], d["kind"], vcommon.unhexb(d["body"]), d["close"])


def app_body(environ):
    """What the scenario application answers: identifies the request and shows
    exactly which header fields and which body the application saw."""
    hdrs = sorted((k, v) for k, v in environ.items() if k.startswith("HTTP_") or k in ("CONTENT_LENGTH",))
    body = environ["wsgi.input"].read()
    return ("path=%s;hdrs=%s;body=%s" % (
        environ.get("PATH_INFO"), ",".join("%s:%s" % kv for kv in hdrs), body.hex())).encode()


def expected_app_body(r):
    hdrs = [("HTTP_X_ID", str(r.idx))]
    if r.expect is not None:
        hdrs.append(("HTTP_EXPECT", r.expect.strip(b" \t").decode()))
    if r.version == "1.0" and not r.close:
        hdrs.append(("HTTP_CONNECTION", "keep-alive"))
    if r.close:
        hdrs.append(("HTTP_CONNECTION", "close"))
    if r.framing == "cl":
        hdrs.append(("CONTENT_LENGTH", str(len(r.body))))
    elif r.framing == "cl0":
        hdrs.append(("CONTENT_LENGTH", "0"))
    elif r.framing == "chunked":
        hdrs.append(("CONTENT_LENGTH", str(len(r.body))))
    hdrs.sort()
    return ("path=/r%d;hdrs=%s;body=%s" % (r.idx, ",".join("%s:%s" % kv for kv in hdrs), r.body.hex())).encode()


def make_app(calls):
    def app(environ, start_response):
        body = app_body(environ)
        calls.append(body)
        start_response("200 OK", [("Content-Length", str(len(body))), ("Content-Type", "text/plain")])
        return [body]
    return app


def split_bytes(rng, b, maxparts=3):
    if len(b) < 2 or rng.random() < 0.5:
        return [b] if b else []
    k = rng.randint(1, min(maxparts - 1, len(b) - 1))
    cuts = sorted(set(rng.randrange(1, len(b)) for _ in range(k)))
    out = []
    prev = 0
    for c in cuts + [len(b)]:
        out.append(b[prev:c])
        prev = c
    return out


def gen_pipeline(rng, allow_kf=True, n=None):
    n = n or rng.choice([1, 2, 2, 3, 3, 4])
    good = ["get", "post_cl", "post_chunked", "expect_cl", "expect_cl", "expect_cl", "expect_chunked",
            "expect_cl_case", "expect_cl_ws", "expect_other", "expect_list", "expect10"]
    reqs = []
    for i in range(n):
        r = rng.random()
        if allow_kf and r < 0.12:
            kind = rng.choice(KF_KINDS)
        elif r < 0.17:
            kind = "badcl"
        else:
            kind = rng.choice(good)
        body = bytes(rng.choice(b"abcxyz\r\n0123") for _ in range(rng.choice([1, 2, 5, 17, 40])))
        if rng.random() < 0.08:
            body = b""
        reqs.append(Req(i, kind, body, close=(rng.random() < 0.07)))
    return reqs


def gen_script(rng, reqs, style=None):
    """A sequential client script: ("read", bytes) | ("serve",) | ("check_interim", idx).
    styles: waiting (serve, then check the interim response has arrived, then the
    body), eager (everything as fast as possible), mixed."""
    style = style or rng.choice(["waiting", "waiting", "eager", "mixed"])
    script = []
    pend = b""       # bytes that go out with the next read

    def flush():
        nonlocal pend
        if pend:
            for p in split_bytes(rng, pend):
                script.append(("read", p))
            pend = b""

    for r in reqs:
        st = style if style != "mixed" else rng.choice(["waiting", "eager"])
        head, payload = r.head(), r.payload()
        if r.asks and payload and st == "waiting" and not r.refused:
            pend += head
            flush()
            script.append(("serve",))
            script.append(("check_interim", r.idx))
            for p in split_bytes(rng, payload):
                script.append(("read", p))
            if rng.random() < 0.5:
                script.append(("serve",))
        else:
            pend += head + payload
            if rng.random() < 0.5:
                flush()
                if rng.random() < 0.6:
                    script.append(("serve",))
    flush()
    script.append(("serve",))
    return script


def script_to_json(script):
    return [[s[0]] + ([hexb(s[1])] if s[0] == "read" else [s[1]] if len(s) > 1 else []) for s in script]


def script_from_json(js):
    out = []
    for s in js:
        if s[0] == "read":
            out.append(("read", vcommon.unhexb(s[1])))
        elif len(s) > 1:
            out.append((s[0], s[1]))
        else:
            out.append((s[0],))
    return out


# ---------------------------------------------------------------------------
# (a) the sequential driver


class _Sock:
    def __init__(self):
        self.sent = b""
        self.closed = False
    def setblocking(self, x): pass
    def fileno(self): return 42
    def getpeername(self): return ("127.0.0.1", 1234)
    def getsockopt(self, level, option): return 1 << 20
    def send(self, data):
        self.sent += bytes(data)
        return len(data)
    def recv(self, n): return b""
    def close(self): self.closed = True


class _Server:
    effective_port = 8080
    effective_host = "127.0.0.1"
    server_name = "localhost"

    def __init__(self, adj, app):
        self.adj = adj
        self.active_channels = {}
        self.tasks = 0
        self.application = app
    def add_task(self, ch):
        self.tasks += 1
    def pull_trigger(self):
        pass


def run_sequential(reqs, script, lookahead=0):
    """-> dict(sent, calls, kf_hits, checks, served_out_of_order...)"""
    from waitress.adjustments import Adjustments
    from waitress.channel import HTTPChannel

    calls = []
    kf_hits = []
    adj = Adjustments(max_request_body_size=MAX_BODY, channel_request_lookahead=lookahead)
    sock = _Sock()
    srv = _Server(adj, make_app(calls))

    class Chan(HTTPChannel):
        def send_continue(self):
            if self.request.completed:
                kf_hits.append(getattr(self.request, "path", None))
            return HTTPChannel.send_continue(self)

    ch = Chan(srv, sock, ("127.0.0.1", 1234), adj, map={})
    checks = []
    escaped = None

    def pump():
        if ch.connected and not sock.closed and ch.writable():
            ch.handle_write()

    def serve():
        guard = 0
        while ch.requests and not sock.closed and guard < 50:
            guard += 1
            ch.service()
            pump()
        pump()

    try:
        for st in script:
            if sock.closed:
                break
            if st[0] == "read":
                if not ch.readable():
                    serve()
                if sock.closed or not ch.readable():
                    break
                ch.received(st[1])
                pump()
            elif st[0] == "serve":
                serve()
            elif st[0] == "check_interim":
                checks.append((st[1], sock.sent.count(INTERIM), len(sock.sent)))
    except Exception as e:  # an exception escaping received()/service() closes the channel in the real loop
        escaped = repr(e)
    return {"sent": sock.sent, "calls": calls, "kf_hits": kf_hits, "checks": checks, "closed": sock.closed,
            "escaped": escaped, "pending_request": ch.request is not None, "queued": len(ch.requests)}


def parse_wire(wire):
    """Split the bytes the client received into responses.
    -> (list of ("interim",) | ("final", status, body), rest)"""
    out = []
    pos = 0
    while pos < len(wire):
        if wire.startswith(INTERIM, pos):
            out.append(("interim",))
            pos += len(INTERIM)
            continue
        end = wire.find(b"\r\n\r\n", pos)
        if end < 0:
            break
        head = wire[pos:end].split(b"\r\n")
        status = head[0].split(b" ", 2)[1] if head[0].startswith(b"HTTP/") and len(head[0].split(b" ")) > 1 else b"?"
        cl = None
        for h in head[1:]:
            k, _, v = h.partition(b":")
            if k.strip().lower() == b"content-length":
                cl = int(v.strip())
        if cl is None or status == b"?":
            break
        if len(wire) < end + 4 + cl:
            break
        out.append(("final", status.decode(), wire[end + 4:end + 4 + cl]))
        pos = end + 4 + cl
    return out, wire[pos:]


def expectation(reqs):
    """What the property demands of the pipeline, in order:
    list of dict(idx, asks, final = "app"|"error", body)"""
    out = []
    for r in reqs:
        if r.refused:
            out.append({"idx": r.idx, "asks": r.asks, "final": "error", "body": None, "last": True})
            break
        last = r.close
        out.append({"idx": r.idx, "asks": r.asks, "final": "app", "body": expected_app_body(r), "last": last})
        if last:
            break
    return out


def monitor(reqs, wire, calls, checks=(), complete=True, waited=()):
    """The executable form of C19 over what the client received and what the
    application was called with.  complete: the whole script ran (every request
    was sent and served) so every expected final response must be present.
    waited: indices of the requests whose client waited for the interim
    response before sending the body (exactly one required).
    -> list of problem strings (empty = property holds on this run)"""
    problems = []
    exp = expectation(reqs)
    resps, rest = parse_wire(wire)
    if rest:
        problems.append("unparsable or truncated bytes on the wire: %r" % rest[:60])
    # group: interims preceding each final
    groups = []
    cur = 0
    for r in resps:
        if r[0] == "interim":
            cur += 1
        else:
            groups.append((cur, r))
            cur = 0
    trailing_interims = cur
    for k, (n_interim, fin) in enumerate(groups):
        if k >= len(exp):
            problems.append("response no. %d (%s) answers no request of the pipeline" % (k, fin[1]))
            continue
        e = exp[k]
        if n_interim and not e["asks"]:
            problems.append("request %d did not ask (or is HTTP/1.0) but got %d interim response(s)" % (e["idx"], n_interim))
        if n_interim > 1:
            problems.append("request %d got %d interim responses" % (e["idx"], n_interim))
        if e["idx"] in waited and n_interim != 1:
            problems.append("request %d: the client waited but %d interim responses precede its final response" % (e["idx"], n_interim))
        if e["final"] == "app":
            if fin[1] != "200" or fin[2] != e["body"]:
                problems.append("request %d: final response %s %r, expected the application's answer %r" % (
                    e["idx"], fin[1], fin[2][:120], e["body"][:120]))
        else:
            if not fin[1].startswith("4"):
                problems.append("request %d (refused framing): final response %s, expected an error response" % (e["idx"], fin[1]))
    if complete and len(groups) < len(exp):
        for e in exp[len(groups):]:
            problems.append("request %d was never answered (%d final responses for %d requests)" % (
                e["idx"], len(groups), len(exp)))
    if trailing_interims:
        k = len(groups)
        if k >= len(exp) or not exp[k]["asks"]:
            problems.append("interim response after the last final response, for no asking request")
        elif trailing_interims > 1:
            problems.append("request %d got %d interim responses" % (exp[k]["idx"], trailing_interims))
    # the application: each expected request exactly once, in order, with only its own fields
    want_calls = [e["body"] for e in exp if e["final"] == "app"]
    if complete:
        if list(calls) != want_calls:
            problems.append("application calls differ: got %d %r, expected %d" % (
                len(calls), [c[:60] for c in calls][:4], len(want_calls)))
    else:
        if list(calls) != want_calls[:len(calls)]:
            problems.append("application calls are not a prefix of the expected ones: %r" % [c[:60] for c in calls][:4])
    for idx, n_seen, _ in checks:
        # at a check point the waiting client must have its interim response: count the
        # asking requests up to idx that are expected to be answered
        need = sum(1 for e in exp if e["idx"] <= idx and e["asks"] and e["idx"] in [c[0] for c in checks])
        if n_seen < 1:
            problems.append("request %d: the client waits for 100 Continue and has not received it" % idx)
    return problems


def kf_class_of(reqs, result_kf_hits):
    """The narrow class of findings F5/F6: send_continue ran on a request that was
    already completed (complete or refused at the end of its header block while
    at the head of the line); cross-checked with the input: such a request is in
    the pipeline."""
    if result_kf_hits and any(r.asks and r.complete_at_head for r in reqs):
        return "kf_c19_expect_complete_at_head"
    return None


# ---------------------------------------------------------------------------
# (c) shape audit


def _strip_doc(body):
    if body and isinstance(body[0], ast.Expr) and isinstance(getattr(body[0], "value", None), ast.Constant) \
            and isinstance(body[0].value.value, str):
        return body[1:]
    return body


def channel_signature(path=None):
    """Normalised source (ast.unparse: comments and layout gone, docstrings
    dropped) of what Model/ChanExpect.v represents: HTTPChannel.received,
    send_continue, and of service() the first statement and everything from
    `if task.close_on_finish:` to the end."""
    path = path or os.path.join(vcommon.SRC, "waitress", "channel.py")
    tree = ast.parse(open(path).read())
    cls = [n for n in tree.body if isinstance(n, ast.ClassDef) and n.name == "HTTPChannel"][0]
    meth = {n.name: n for n in cls.body if isinstance(n, ast.FunctionDef)}
    out = []
    for name in ("received", "send_continue"):
        f = meth[name]
        out.append("def %s(%s):" % (name, ast.unparse(f.args)))
        for st in _strip_doc(f.body):
            out += ["    " + l for l in ast.unparse(st).split("\n")]
    f = meth["service"]
    body = _strip_doc(f.body)
    out.append("def service(%s):" % ast.unparse(f.args))
    out += ["    " + l for l in ast.unparse(body[0]).split("\n")]
    out.append("    ...")
    k = None
    for i, st in enumerate(body):
        if isinstance(st, ast.If) and ast.unparse(st.test) == "task.close_on_finish":
            k = i
    if k is None:
        out.append("    <no `if task.close_on_finish:` found>")
    else:
        for st in body[k:]:
            out += ["    " + l for l in ast.unparse(st).split("\n")]
    # every other place that touches sent_continue or calls send_continue
    others = []
    for name, f in meth.items():
        if name in ("received", "send_continue", "service"):
            continue
        for n in ast.walk(f):
            if isinstance(n, ast.Attribute) and n.attr in ("sent_continue", "send_continue"):
                others.append("%s touches %s" % (name, n.attr))
    out += sorted(set(others))
    return out


def model_signature():
    txt = open(os.path.join(vcommon.COQ, "Model", "ChanExpect.v")).read()
    m = re.search(r"SIGNATURE-BEGIN\n(.*?)\n\s*SIGNATURE-END", txt, flags=re.S)
    if not m:
        return None
    return [l[3:] if l.startswith("   ") else l for l in m.group(1).split("\n")]
