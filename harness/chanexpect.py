"""C19 harness: Expect: 100-continue on the REAL HTTPChannel.

Three parts.

(a) sequential scenarios (no scheduler): a scripted client feeds reads to a real
    HTTPChannel the way the poll loop would (only when readable(), flush when
    writable()), the real service() with the real WSGITask / ErrorTask runs on
    the same thread whenever the script says "serve"; the MONITOR parses the bytes
    the socket received and the application calls and compares them with what
    the property demands of the pipeline.
(b) interleaved scenarios on harness/chan_world.World (real channel, real
    dispatcher, real poll loop, deterministic scheduler) with a client that
    WAITS for the interim response; the same monitor on world.wire, plus
    K-chanexpect: the run is mapped to choices of the extracted interleaving
    model Model/ChanExpect.v and the model's abstract state is compared with
    the real channel after every step.
(c) an ast SHAPE AUDIT of HTTPChannel.received / send_continue / the head and
    tail of service() against the signature written next to the model
    (comment block SIGNATURE in coq/Model/ChanExpect.v).
"""
import ast
import bisect
import hashlib
import logging
import os
import re
import textwrap

from lib import vcommon
from lib.vcommon import hexb

logging.disable(logging.CRITICAL)

INTERIM = b"HTTP/1.1 100 Continue\r\n\r\n"

# ---------------------------------------------------------------------------
# request specifications and generators


KINDS = {
    # kind: (version, expect header value or None, framing)
    "get": ("1.1", None, "none"),
    "post_cl": ("1.1", None, "cl"),
    "post_chunked": ("1.1", None, "chunked"),
    "expect_cl": ("1.1", b"100-continue", "cl"),
    "expect_cl_case": ("1.1", b"100-Continue", "cl"),
    "expect_cl_ws": ("1.1", b"100-continue \t", "cl"),
    "expect_chunked": ("1.1", b"100-continue", "chunked"),
    "expect_other": ("1.1", b"200-ok", "cl"),
    "expect_list": ("1.1", b"100-continue, x", "cl"),
    "expect10": ("1.0", b"100-continue", "cl"),
    # complete (or refused) at the end of the header block: the class of the former F5/F6
    "expect_nobody": ("1.1", b"100-continue", "none"),
    "expect_cl0": ("1.1", b"100-continue", "cl0"),
    "expect_toolarge": ("1.1", b"100-continue", "toolarge"),
    "expect_badcl": ("1.1", b"100-continue", "badcl"),
    # refused without having asked
    "badcl": ("1.1", None, "badcl"),
}
KF_KINDS = ("expect_nobody", "expect_cl0", "expect_toolarge", "expect_badcl")
MAX_BODY = 64          # max_request_body_size used by the scenarios


class Req:
    """One request of a pipeline."""

    def __init__(self, idx, kind, body=b"", close=False):
        self.idx = idx
        self.kind = kind
        self.version, self.expect, self.framing = KINDS[kind]
        self.body = body if self.framing in ("cl", "chunked") else b""
        self.close = close

    @property
    def asks(self):
        return self.version == "1.1" and self.expect is not None and \
            self.expect.strip(b" \t").lower() == b"100-continue"

    @property
    def refused(self):
        return self.framing in ("toolarge", "badcl")

    @property
    def complete_at_head(self):
        return self.framing in ("none", "cl0", "toolarge", "badcl") or (self.framing == "cl" and not self.body)

    def head(self):
        lines = [b"%s /r%d HTTP/%s" % (b"POST" if self.framing != "none" else b"GET", self.idx,
                                       self.version.encode())]
        lines.append(b"X-Id: %d" % self.idx)
        if self.expect is not None:
            lines.append(b"Expect: " + self.expect)
        if self.version == "1.0" and not self.close:
            lines.append(b"Connection: keep-alive")
        if self.close:
            lines.append(b"Connection: close")
        if self.framing == "cl":
            lines.append(b"Content-Length: %d" % len(self.body))
        elif self.framing == "cl0":
            lines.append(b"Content-Length: 0")
        elif self.framing == "toolarge":
            lines.append(b"Content-Length: %d" % (MAX_BODY + 10))
        elif self.framing == "badcl":
            lines.append(b"Content-Length: 1x")
        elif self.framing == "chunked":
            lines.append(b"Transfer-Encoding: chunked")
        return b"\r\n".join(lines) + b"\r\n\r\n"

    def payload(self):
        if self.framing == "cl":
            return self.body
        if self.framing == "chunked":
            out = b""
            b = self.body
            if b:
                k = max(1, len(b) // 2)
                for part in (b[:k], b[k:]):
                    if part:
                        out += b"%x\r\n" % len(part) + part + b"\r\n"
            return out + b"0\r\n\r\n"
        return b""

    def to_json(self):
        return {"idx": self.idx, "kind": self.kind, "body": hexb(self.body), "close": self.close}

    @staticmethod
    def from_json(d):
        return Req(d["idx"], d["kind"], vcommon.unhexb(d["body"]), d["close"])


def app_body(environ):
    """What the scenario application answers: identifies the request and shows
    exactly which header fields and which body the application saw."""
    hdrs = sorted((k, v) for k, v in environ.items() if k.startswith("HTTP_") or k in ("CONTENT_LENGTH",))
    body = environ["wsgi.input"].read()
    return ("path=%s;hdrs=%s;body=%s" % (
        environ.get("PATH_INFO"), ",".join("%s:%s" % kv for kv in hdrs), body.hex())).encode()


def expected_app_body(r):
    hdrs = [("HTTP_X_ID", str(r.idx))]
    if r.expect is not None:
        hdrs.append(("HTTP_EXPECT", r.expect.strip(b" \t").decode()))
    if r.version == "1.0" and not r.close:
        hdrs.append(("HTTP_CONNECTION", "keep-alive"))
    if r.close:
        hdrs.append(("HTTP_CONNECTION", "close"))
    if r.framing == "cl":
        hdrs.append(("CONTENT_LENGTH", str(len(r.body))))
    elif r.framing == "cl0":
        hdrs.append(("CONTENT_LENGTH", "0"))
    elif r.framing == "chunked":
        hdrs.append(("CONTENT_LENGTH", str(len(r.body))))
    hdrs.sort()
    return ("path=/r%d;hdrs=%s;body=%s" % (r.idx, ",".join("%s:%s" % kv for kv in hdrs), r.body.hex())).encode()


def make_app(calls):
    def app(environ, start_response):
        body = app_body(environ)
        calls.append(body)
        start_response("200 OK", [("Content-Length", str(len(body))), ("Content-Type", "text/plain")])
        return [body]
    return app


def split_bytes(rng, b, maxparts=3):
    if len(b) < 2 or rng.random() < 0.5:
        return [b] if b else []
    k = rng.randint(1, min(maxparts - 1, len(b) - 1))
    cuts = sorted(set(rng.randrange(1, len(b)) for _ in range(k)))
    out = []
    prev = 0
    for c in cuts + [len(b)]:
        out.append(b[prev:c])
        prev = c
    return out


def gen_pipeline(rng, allow_kf=True, n=None):
    n = n or rng.choice([1, 2, 2, 3, 3, 4])
    good = ["get", "post_cl", "post_chunked", "expect_cl", "expect_cl", "expect_cl", "expect_chunked",
            "expect_cl_case", "expect_cl_ws", "expect_other", "expect_list", "expect10"]
    reqs = []
    for i in range(n):
        r = rng.random()
        if allow_kf and r < 0.12:
            kind = rng.choice(KF_KINDS)
        elif r < 0.17:
            kind = "badcl"
        else:
            kind = rng.choice(good)
        body = bytes(rng.choice(b"abcxyz\r\n0123") for _ in range(rng.choice([1, 2, 5, 17, 40])))
        if rng.random() < 0.08:
            body = b""
        reqs.append(Req(i, kind, body, close=(rng.random() < 0.07)))
    return reqs


def gen_script(rng, reqs, style=None):
    """A sequential client script: ("read", bytes) | ("serve",) | ("check_interim", idx).
    styles: waiting (serve, then check the interim response has arrived, then the
    body), eager (everything as fast as possible), mixed."""
    style = style or rng.choice(["waiting", "waiting", "eager", "mixed"])
    script = []
    pend = b""       # bytes that go out with the next read

    def flush():
        nonlocal pend
        if pend:
            for p in split_bytes(rng, pend):
                script.append(("read", p))
            pend = b""

    for r in reqs:
        st = style if style != "mixed" else rng.choice(["waiting", "eager"])
        head, payload = r.head(), r.payload()
        if r.asks and payload and st == "waiting" and not r.refused:
            pend += head
            flush()
            script.append(("serve",))
            script.append(("check_interim", r.idx))
            for p in split_bytes(rng, payload):
                script.append(("read", p))
            if rng.random() < 0.5:
                script.append(("serve",))
        else:
            pend += head + payload
            if rng.random() < 0.5:
                flush()
                if rng.random() < 0.6:
                    script.append(("serve",))
    flush()
    script.append(("serve",))
    return script


def script_to_json(script):
    return [[s[0]] + ([hexb(s[1])] if s[0] == "read" else [s[1]] if len(s) > 1 else []) for s in script]


def script_from_json(js):
    out = []
    for s in js:
        if s[0] == "read":
            out.append(("read", vcommon.unhexb(s[1])))
        elif len(s) > 1:
            out.append((s[0], s[1]))
        else:
            out.append((s[0],))
    return out


# ---------------------------------------------------------------------------
# (a) the sequential driver


class _Sock:
    def __init__(self):
        self.sent = b""
        self.closed = False
    def setblocking(self, x): pass
    def fileno(self): return 42
    def getpeername(self): return ("127.0.0.1", 1234)
    def getsockopt(self, level, option): return 1 << 20
    def send(self, data):
        self.sent += bytes(data)
        return len(data)
    def recv(self, n): return b""
    def close(self): self.closed = True


class _Server:
    effective_port = 8080
    effective_host = "127.0.0.1"
    server_name = "localhost"

    def __init__(self, adj, app):
        self.adj = adj
        self.active_channels = {}
        self.tasks = 0
        self.application = app
    def add_task(self, ch):
        self.tasks += 1
    def pull_trigger(self):
        pass


def run_sequential(reqs, script, lookahead=0):
    """-> dict(sent, calls, kf_hits, checks, served_out_of_order...)"""
    from waitress.adjustments import Adjustments
    from waitress.channel import HTTPChannel

    calls = []
    kf_hits = []
    adj = Adjustments(max_request_body_size=MAX_BODY, channel_request_lookahead=lookahead)
    sock = _Sock()
    srv = _Server(adj, make_app(calls))

    class Chan(HTTPChannel):
        def send_continue(self, *a, **kw):
            if self.request.completed:
                kf_hits.append(getattr(self.request, "path", None))
            return HTTPChannel.send_continue(self, *a, **kw)

    ch = Chan(srv, sock, ("127.0.0.1", 1234), adj, map={})
    checks = []
    escaped = None

    def pump():
        if ch.connected and not sock.closed and ch.writable():
            ch.handle_write()

    def serve():
        guard = 0
        while ch.requests and not sock.closed and guard < 50:
            guard += 1
            ch.service()
            pump()
        pump()

    try:
        for st in script:
            if sock.closed:
                break
            if st[0] == "read":
                if not ch.readable():
                    serve()
                if sock.closed or not ch.readable():
                    break
                ch.received(st[1])
                pump()
            elif st[0] == "serve":
                serve()
            elif st[0] == "check_interim":
                checks.append((st[1], 1 if interim_for(sock.sent, st[1]) else 0, len(sock.sent)))
    except Exception as e:  # an exception escaping received()/service() closes the channel in the real loop
        escaped = repr(e)
    return {"sent": sock.sent, "calls": calls, "kf_hits": kf_hits, "checks": checks, "closed": sock.closed,
            "escaped": escaped, "pending_request": ch.request is not None, "queued": len(ch.requests)}


def interim_for(wire, idx):
    """Has the client received the interim response of request no. idx, i.e. an
    interim response after exactly idx final responses?"""
    resps, _ = parse_wire(wire)
    nf = 0
    for r in resps:
        if r[0] == "interim":
            if nf == idx:
                return True
        else:
            nf += 1
    return False


def parse_wire(wire):
    """Split the bytes the client received into responses.
    -> (list of ("interim",) | ("final", status, body), rest)"""
    out = []
    pos = 0
    while pos < len(wire):
        if wire.startswith(INTERIM, pos):
            out.append(("interim",))
            pos += len(INTERIM)
            continue
        end = wire.find(b"\r\n\r\n", pos)
        if end < 0:
            break
        head = wire[pos:end].split(b"\r\n")
        status = head[0].split(b" ", 2)[1] if head[0].startswith(b"HTTP/") and len(head[0].split(b" ")) > 1 else b"?"
        cl = None
        for h in head[1:]:
            k, _, v = h.partition(b":")
            if k.strip().lower() == b"content-length":
                cl = int(v.strip())
        if cl is None or status == b"?":
            break
        if len(wire) < end + 4 + cl:
            break
        out.append(("final", status.decode(), wire[end + 4:end + 4 + cl]))
        pos = end + 4 + cl
    return out, wire[pos:]


def expectation(reqs, big_first=False):
    """What the property demands of the pipeline, in order:
    list of dict(idx, asks, final = "app"|"error", body); big_first: the scenario
    application answers request 0 with its body three times (three write_soon)"""
    out = []
    for r in reqs:
        if r.refused:
            out.append({"idx": r.idx, "asks": r.asks, "final": "error", "body": None, "last": True})
            break
        last = r.close
        out.append({"idx": r.idx, "asks": r.asks, "final": "app", "body": expected_app_body(r), "last": last,
                    "mult": 3 if (big_first and r.idx == 0) else 1})
        if last:
            break
    return out


def monitor(reqs, wire, calls, checks=(), complete=True, waited=(), big_first=False):
    """The executable form of C19 over what the client received and what the
    application was called with.  complete: the whole script ran (every request
    was sent and served) so every expected final response must be present.
    waited: indices of the requests whose client waited for the interim
    response before sending the body (exactly one required).
    -> list of problem strings (empty = property holds on this run)"""
    problems = []
    exp = expectation(reqs, big_first)
    resps, rest = parse_wire(wire)
    if rest:
        problems.append("unparsable or truncated bytes on the wire: %r" % rest[:60])
    # group: interims preceding each final
    groups = []
    cur = 0
    for r in resps:
        if r[0] == "interim":
            cur += 1
        else:
            groups.append((cur, r))
            cur = 0
    trailing_interims = cur
    for k, (n_interim, fin) in enumerate(groups):
        if k >= len(exp):
            problems.append("response no. %d (%s) answers no request of the pipeline" % (k, fin[1]))
            continue
        e = exp[k]
        if n_interim and not e["asks"]:
            problems.append("request %d did not ask (or is HTTP/1.0) but got %d interim response(s)" % (e["idx"], n_interim))
        if n_interim > 1:
            problems.append("request %d got %d interim responses" % (e["idx"], n_interim))
        if e["idx"] in waited and n_interim != 1:
            problems.append("request %d: the client waited but %d interim responses precede its final response" % (e["idx"], n_interim))
        if e["final"] == "app":
            if fin[1] != "200" or fin[2] != e["body"] * e["mult"]:
                problems.append("request %d: final response %s %r, expected the application's answer %r" % (
                    e["idx"], fin[1], fin[2][:120], e["body"][:120]))
        else:
            if not fin[1].startswith("4"):
                problems.append("request %d (refused framing): final response %s, expected an error response" % (e["idx"], fin[1]))
    if complete and len(groups) < len(exp):
        for e in exp[len(groups):]:
            problems.append("request %d was never answered (%d final responses for %d requests)" % (
                e["idx"], len(groups), len(exp)))
    if trailing_interims:
        k = len(groups)
        if k >= len(exp) or not exp[k]["asks"]:
            problems.append("interim response after the last final response, for no asking request")
        elif trailing_interims > 1:
            problems.append("request %d got %d interim responses" % (exp[k]["idx"], trailing_interims))
    # the application: each expected request exactly once, in order, with only its own fields
    want_calls = [e["body"] for e in exp if e["final"] == "app"]
    if complete:
        if list(calls) != want_calls:
            problems.append("application calls differ: got %d %r, expected %d" % (
                len(calls), [c[:60] for c in calls][:4], len(want_calls)))
    else:
        if list(calls) != want_calls[:len(calls)]:
            problems.append("application calls are not a prefix of the expected ones: %r" % [c[:60] for c in calls][:4])
    for idx, n_seen, _ in checks:
        # at a check point the waiting client must have its interim response: count the
        # asking requests up to idx that are expected to be answered
        if n_seen < 1:
            problems.append("request %d: the client waits for 100 Continue and has not received it" % idx)
    return problems


def complete_at_head_hit(reqs, hits):
    """send_continue ran on a request that was already completed (complete or
    refused at the end of its header block while at the head of the line): the
    class of the former findings F5/F6 (repaired by fix e3537e2); counted for
    the evidence, cross-checked with the input."""
    return bool(hits) and any(r.asks and r.complete_at_head for r in reqs)


# ---------------------------------------------------------------------------
# (c) shape audit


def _strip_doc(body):
    if body and isinstance(body[0], ast.Expr) and isinstance(getattr(body[0], "value", None), ast.Constant) \
            and isinstance(body[0].value.value, str):
        return body[1:]
    return body


def _local_names(fn):
    """Names BOUND inside the function (assignment / augmented assignment / for /
    with-as / except-as / comprehension targets); parameters are not included:
    they are part of the signature callers may use by keyword."""
    params = {a.arg for a in fn.args.args + fn.args.kwonlyargs + fn.args.posonlyargs}
    if fn.args.vararg:
        params.add(fn.args.vararg.arg)
    if fn.args.kwarg:
        params.add(fn.args.kwarg.arg)
    out = set()
    for n in ast.walk(fn):
        if isinstance(n, ast.Name) and isinstance(n.ctx, (ast.Store, ast.Del)):
            out.add(n.id)
        elif isinstance(n, ast.ExceptHandler) and n.name:
            out.add(n.name)
    return out - params


class _Normalise(ast.NodeTransformer):
    """Cosmetic normal form of a statement: function-local names become v1, v2, ...
    in order of first occurrence in what is PRINTED; annotations are dropped
    (`x: int = 0` == `x = 0`); docstrings, comments, layout and parenthesisation
    are already gone with ast.unparse.  Attributes (self.*), calls, control flow,
    comparisons, constants and keyword names are left exactly as they are."""

    def __init__(self, locals_, table):
        self.locals = locals_
        self.table = table

    def _name(self, ident):
        if ident not in self.locals:
            return ident
        if ident not in self.table:
            self.table[ident] = "v%d" % (len(self.table) + 1)
        return self.table[ident]

    def visit_Name(self, node):
        return ast.copy_location(ast.Name(id=self._name(node.id), ctx=node.ctx), node)

    def visit_ExceptHandler(self, node):
        self.generic_visit(node)
        if node.name:
            node.name = self._name(node.name)
        return node

    def visit_AnnAssign(self, node):
        self.generic_visit(node)
        if node.value is None:
            return None
        return ast.copy_location(ast.Assign(targets=[node.target], value=node.value, lineno=node.lineno), node)

    def visit_arg(self, node):
        node.annotation = None
        return node


def _norm_lines(stmts, locals_, table, indent="    "):
    import copy
    out = []
    for st in stmts:
        st2 = _Normalise(locals_, table).visit(copy.deepcopy(st))
        if st2 is None:
            continue
        ast.fix_missing_locations(st2)
        out += [indent + l for l in ast.unparse(st2).split("\n")]
    return out


def _norm_args(fn):
    import copy
    a = copy.deepcopy(fn.args)
    for x in a.args + a.kwonlyargs + a.posonlyargs + [y for y in (a.vararg, a.kwarg) if y]:
        x.annotation = None
    return ast.unparse(a)


def channel_signature(path=None):
    """Normalised source of what Model/ChanExpect.v represents: HTTPChannel.received,
    send_continue, and of service() the first statement and everything from
    `if task.close_on_finish:` to the end; plus where parser.py assigns
    expect_continue.  The normal form is invariant under cosmetic edits (renamed
    function-local variables, comments, docstrings, annotations, layout) and under
    nothing else: every access to self.*, every lock scope, call, test, constant
    and control-flow structure is seen exactly."""
    path = path or os.path.join(vcommon.SRC, "waitress", "channel.py")
    tree = ast.parse(open(path).read())
    cls = [n for n in tree.body if isinstance(n, ast.ClassDef) and n.name == "HTTPChannel"][0]
    meth = {n.name: n for n in cls.body if isinstance(n, ast.FunctionDef)}
    out = []
    for name in ("received", "send_continue"):
        f = meth[name]
        out.append("def %s(%s):" % (name, _norm_args(f)))
        out += _norm_lines(_strip_doc(f.body), _local_names(f), {})
    f = meth["service"]
    body = _strip_doc(f.body)
    locs, table = _local_names(f), {}
    out.append("def service(%s):" % _norm_args(f))
    out += _norm_lines(body[:1], locs, table)
    out.append("    ...")
    k = None
    for i, st in enumerate(body):
        if isinstance(st, ast.If) and isinstance(st.test, ast.Attribute) and st.test.attr == "close_on_finish" \
                and isinstance(st.test.value, ast.Name):
            k = i
    if k is None:
        out.append("    <no `if <task>.close_on_finish:` found>")
    else:
        out += _norm_lines(body[k:], locs, table)
    # every other place that touches sent_continue or calls send_continue
    others = []
    for name, f in meth.items():
        if name in ("received", "send_continue", "service"):
            continue
        for n in ast.walk(f):
            if isinstance(n, ast.Attribute) and n.attr in ("sent_continue", "send_continue"):
                others.append("%s touches %s" % (name, n.attr))
    out += sorted(set(others))
    # the parser side: where expect_continue is assigned, under which version test
    ppath = os.path.join(os.path.dirname(path), "parser.py")
    ptree = ast.parse(open(ppath).read())

    def walk(node, ctx, fn, table):
        for child in ast.iter_child_nodes(node):
            c, f2, t2 = ctx, fn, table
            if isinstance(child, ast.FunctionDef):
                c, f2, t2 = ctx + [("name", child.name)], child, {}
            elif isinstance(child, ast.ClassDef):
                c = ctx + [("name", child.name)]
            elif isinstance(child, ast.If):
                c = ctx + [("if", child.test)]
            if isinstance(child, (ast.Assign, ast.AugAssign, ast.AnnAssign)) and fn is not None:
                tgts = child.targets if isinstance(child, ast.Assign) else [child.target]
                hit = False
                for tg in tgts:
                    if isinstance(tg, ast.Attribute) and tg.attr == "expect_continue":
                        hit = True
                    if isinstance(tg, ast.Name) and isinstance(getattr(child, "value", None), ast.Call) \
                            and "EXPECT" in ast.unparse(child.value):
                        hit = True
                if hit:
                    locs = _local_names(fn)
                    parts = []
                    for kind, x in ctx:
                        if kind == "name":
                            parts.append(x)
                        elif "1.1" in ast.unparse(x) or "version" in ast.unparse(x):
                            parts.append("if " + _norm_lines([ast.Expr(value=x)], locs, table, "")[0])
                    out.append("parser.py %s: %s" % (" / ".join(parts), _norm_lines([child], locs, table, "")[0]))
            walk(child, c, f2, t2)
    walk(ptree, [], None, {})
    return out


def model_signature():
    txt = open(os.path.join(vcommon.COQ, "Model", "ChanExpect.v")).read()
    m = re.search(r"SIGNATURE-BEGIN\n(.*?)\n\s*SIGNATURE-END", txt, flags=re.S)
    if not m:
        return None
    return [l[3:] if l.startswith("   ") else l for l in m.group(1).split("\n")]


# ---------------------------------------------------------------------------
# (b) interleaved scenarios on the World; K-chanexpect


def _flags(p):
    return (1 if p.completed else 0, 1 if p.expect_continue else 0, 1 if p.headers_finished else 0,
            1 if p.body_rcv is not None else 0, 1 if p.empty else 0)


def make_world(reqs, client_script, schedule=(), policy=None, lookahead=0, n_workers=1, granularity="locks",
               send_plan=(), big_first=False, max_steps=20000):
    """A chan_world.World whose channel reports what K-chanexpect needs:
    parser calls (flags before / after), send_continue (who, on what),
    write_soon (for which request), received() entry / exit.  Client script
    steps: ("send", bytes) | ("wait_interim", idx) (park until the interim
    response of request idx is on the wire: an interim response after idx final
    responses) | ("wait_wire", n) | ("close",)."""
    from harness import chan_world as cw
    from harness.sched import Op

    calls = []
    inner_app = make_app(calls)

    def app(environ, start_response):
        if big_first and environ.get("PATH_INFO") == "/r0":
            body = app_body(environ)
            calls.append(body)
            start_response("200 OK", [("Content-Length", str(len(body) * 3)), ("Content-Type", "text/plain")])
            return [body, body, body]
        return inner_app(environ, start_response)

    class W(cw.World):
        def __init__(self, *a, **kw):
            cw.World.__init__(self, *a, **kw)
            self.next_pid = 0
            self.kf_hits = []
            self.app_calls = calls

        def pid(self, p):
            i = getattr(p, "_c19_id", None)
            if i is None:
                i = self.next_pid
                self.next_pid += 1
                p._c19_id = i
            return i

        def snap(self):
            ch = self.channel
            if ch is None:
                return None
            g = lambda n: object.__getattribute__(ch, n)
            rq = g("request")
            return {
                "req": None if rq is None else (getattr(rq, "_c19_id", None),) + _flags(rq),
                "reqs": [(getattr(r, "_c19_id", None),) + _flags(r) for r in g("requests")],
                "sc": 1 if g("sent_continue") else 0,
                "closing": 1 if (g("will_close") or g("close_when_flushed")) else 0,
                "con": 1 if g("connected") else 0,
            }

        def _make_channel_class(self):
            base = cw.World._make_channel_class(self)
            from waitress.parser import HTTPRequestParser
            world = self

            class TracingParser(HTTPRequestParser):
                def received(self, data):
                    fresh = getattr(self, "_c19_id", None) is None
                    pid = world.pid(self)
                    before = _flags(self)
                    sn = world.snap()
                    if fresh and sn is not None:
                        sn["req"] = None     # the model creates the object in the same step as the call
                    world.sched.note("parse_call", (pid, before, sn))
                    n = HTTPRequestParser.received(self, data)
                    world.sched.note("parse", (pid, before, _flags(self), n, len(data)))
                    return n

            class C19Channel(base):
                parser_class = TracingParser

                def received(self, data):
                    world.sched.note("received_enter", None)
                    try:
                        return base.received(self, data)
                    finally:
                        world.sched.note("received_exit", world.snap())

                def send_continue(self, *a, **kw):
                    rq = object.__getattribute__(self, "request")
                    me = world.sched.me()
                    if rq.completed:
                        world.kf_hits.append(getattr(rq, "path", None))
                    world.sched.note("send_continue", (world.pid(rq), 1 if rq.completed else 0, me.name if me else "-"))
                    r = base.send_continue(self, *a, **kw)
                    world.sched.note("send_continue_done", world.snap())
                    return r

                def write_soon(self, data):
                    n = base.write_soon(self, data)
                    if data:
                        rs = object.__getattribute__(self, "requests")
                        world.sched.note("write_soon", (getattr(rs[0], "_c19_id", None) if rs else None, n))
                    return n

            return C19Channel

        def _client_main(self):
            for step in self.client_script:
                if step[0] == "wait_interim":
                    k = step[1]
                    self.sched.yield_(Op("client:wait_interim", k,
                                         enabled=lambda k=k: interim_for(self.wire, k) or self.sock.closed))
                else:
                    saved = self.client_script
                    self.client_script = [step]
                    try:
                        cw.World._client_main(self)
                    finally:
                        self.client_script = saved

    w = W(app, client_script, schedule=schedule, policy=policy,
          adj_kw={"max_request_body_size": MAX_BODY, "channel_request_lookahead": lookahead},
          n_workers=n_workers, granularity=granularity, send_plan=send_plan, max_steps=max_steps)
    snaps = {}
    w.sched.observer = lambda sched, t, op: w.snap()
    return w


def world_script(reqs, mode="same_read"):
    """Client scripts for the interleaved runs.  mode = grouping + style:
    grouping  same: the head of a request travels in the same send as what precedes
              it (so it can be parsed while the preceding request is in service);
              later: one send per request head;
    style     wait: the client WAITS for the interim response of every asking request
              that has a body and sends the body only then;
              split: the client sends the first part of the body WITHOUT waiting (a
              client whose timer expired), then waits for the interim response, then
              sends the rest -- the body is still incomplete when the request's turn
              comes, so exactly one interim response is still due;
              eager: the client never waits (at most one interim response).
    Names: same_read (same+wait), later_read (later+wait), split_same, split_body
    (later+split), eager_same, eager (later+eager).
    -> (script, indices of the requests that must get exactly one interim response)"""
    group, style = {
        "same_read": ("same", "wait"), "later_read": ("later", "wait"),
        "split_same": ("same", "split"), "split_body": ("later", "split"),
        "eager_same": ("same", "eager"), "eager": ("later", "eager"),
    }[mode]
    script = []
    waited = []
    pend = b""
    for r in reqs:
        head, payload = r.head(), r.payload()
        if style != "eager" and r.asks and payload and not r.refused:
            pend += head
            script.append(("send", pend))
            pend = b""
            if style == "split" and len(payload) >= 2:
                k = max(1, len(payload) // 2)
                script.append(("send", payload[:k]))
                payload = payload[k:]
            waited.append(r.idx)
            script.append(("wait_interim", r.idx))
            if group == "same":
                pend = payload
            else:
                script.append(("send", payload))
        else:
            pend += head + payload
            if group != "same":
                script.append(("send", pend))
                pend = b""
    if pend:
        script.append(("send", pend))
    return script, waited


def ev_of(before, after):
    bc, be, bh, bb, bm = before
    ac, ae, ah, ab, am = after
    se = "n" if ae == be else ("t" if ae else "f")
    if bc:
        return "n"
    if bb:
        return "b:%d" % ac
    if after == before:
        return "n"
    if am and not bm and ac and ah:
        return "e"
    if ac and not ah:
        return "a:%s:%d" % (se, ab)
    return "h:%s:%d:%d" % (se, ab, ac)


def model_run(world):
    """Map the run to choices of Model/ChanExpect.v.
    -> (choices, observed) with observed[k] = abstract real state after choice k
    (None where no comparison point exists), plus the real append log."""
    ev = world.sched.events
    ch = world.channel
    RL = object.__getattribute__(ch, "requests_lock").name
    OL = object.__getattribute__(ch, "outbuf_lock").lock.name
    snaps = world.sched.snaps
    keys = sorted(snaps)

    def snap_after(k):
        i = bisect.bisect_right(keys, k)
        return snaps[keys[i]] if i < len(keys) else world.snap()

    choices, observed = [], []
    out = []                 # real append log as model tokens
    active = []              # thread names in model order
    io_in_send = False
    n = len(ev)
    # lookahead helpers
    def next_io(k, kinds):
        for j in range(k + 1, n):
            t, kind, d = ev[j]
            if t == "io" and kind in kinds:
                return j, kind, d
        return None, None, None

    def emit(c, obs):
        choices.append(c)
        observed.append((obs, list(out)))

    k = 0
    while k < n:
        t, kind, d = ev[k]
        if t == "io":
            if kind == "acquire" and d == RL:
                emit("E", None)
            elif kind == "parse":
                pid, before, after, cons, dlen = d
                # what follows: another parser call, or the end of received()
                j, k2, d2 = next_io(k, {"parse_call", "received_exit"})
                more = 1 if k2 == "parse_call" else 0
                js, _, _ = next_io(k, {"send_continue"})
                sends = js is not None and (j is None or js < j)
                obs = None
                if not sends:
                    obs = d2[2] if k2 == "parse_call" else d2
                emit("P:%s:%d" % (ev_of(before, after), more), obs)
                if sends:
                    pass
            elif kind == "send_continue":
                io_in_send = True
                out.append("I%di" % d[0])
            elif kind == "send_continue_done" and io_in_send:
                io_in_send = False
                j, k2, d2 = next_io(k, {"parse_call", "received_exit"})
                obs = d2[2] if k2 == "parse_call" else d2
                emit("S", obs)
            elif kind == "decide":
                if d[0] == "connected":
                    emit("d", None)
                elif d[0] in ("will_close",):
                    emit("w", None)
        elif t.startswith("waitress"):
            if kind == "service_start":
                active.append(t)
                emit("T", None)
                emit("B%d" % active.index(t), None)
            elif kind == "write_soon":
                out.append("F%s" % d[0])
                emit("W%d" % active.index(t), None)
            elif kind == "acquire" and d == RL and t in active:
                i = active.index(t)
                # close or keep?  look ahead in this thread up to its release of RL
                close = False
                sends = False
                rel = None
                for j in range(k + 1, n):
                    t2, k2, d2 = ev[j]
                    if t2 != t:
                        continue
                    if k2 == "decide" and d2[0] == "close_when_flushed":
                        close = True
                    if k2 == "send_continue":
                        sends = True
                    if k2 == "release" and d2 == RL:
                        rel = j
                        break
                emit("X%d:%d" % (i, 1 if close else 0), None)
                # everything the section reads and writes happens between this acquire and
                # the thread's next labelled operation: compare there
                if close:
                    emit("C%d" % i, snap_after(k))
                    active.remove(t)
                elif sends:
                    emit("K%d" % i, snap_after(k))
                else:
                    emit("K%d" % i, snap_after(k))
                    active.remove(t)
            elif kind == "send_continue" and t in active:
                out.append("I%dw" % d[0])
            elif kind == "send_continue_done" and t in active:
                i = active.index(t)
                emit("D%d" % i, d)
                active.remove(t)
            elif kind == "decide" and d[0] == "will_close":
                emit("w", None)
        k += 1
    return choices, observed


def parse_model_state(s):
    """one state string of the runner -> dict comparable with World.snap()"""
    if s == "DISABLED":
        return None
    kv = dict(tok.split("=", 1) for tok in s.split(" "))

    def rq(x):
        return tuple(int(v) for v in x.split(":"))

    def lst(x):
        x = x[1:-1]
        return [y for y in x.split(",") if y]
    return {
        "req": None if kv["req"] == "none" else rq(kv["req"]),
        "reqs": [rq(x) for x in lst(kv["reqs"])],
        "sc": int(kv["sc"]),
        "closing": 1 if (kv["wc"] == "1" or kv["cwf"] == "1") else 0,
        "con": int(kv["con"]),
        "out": lst(kv["out"]),
        "lab": lst(kv["lab"]),
    }


def compare_run(world, runner):
    """K-chanexpect for one run: every mapped transition must be enabled in the
    model and lead to the same abstract state.  -> (n_steps, problem or None)"""
    choices, observed = model_run(world)
    if not choices:
        return 0, None, choices
    ans = runner.query(["run " + " ".join(choices)])[0].split(" ; ")
    for k, c in enumerate(choices):
        if k >= len(ans) or ans[k] == "DISABLED":
            return k, "model step %d (%s) is not enabled in the model" % (k, c), choices
        m = parse_model_state(ans[k])
        obs, out = observed[k]
        if m["out"] != out:
            return k, "after step %d (%s): output log differs: model %r, real %r" % (k, c, m["out"], out), choices
        if obs is not None:
            for f in ("req", "reqs", "sc", "closing", "con"):
                if m[f] != (obs[f] if f not in ("reqs",) else [tuple(x) for x in obs[f]]) and not (
                        f == "req" and obs[f] is not None and m[f] is not None and tuple(obs[f]) == m[f]):
                    return k, "after step %d (%s): %s differs: model %r, real %r" % (k, c, f, m[f], obs[f]), choices
    return len(choices), None, choices


def concurrent_flush(world):
    """Former finding F18 (repaired by fix 8bcf05e; now a violation wherever it is
    seen): an UNLOCKED `_flush_some` of handle_write (the I/O
    thread, `requests == []`) runs while another thread is inside a locked flush
    (worker-side send_continue, write_soon): both fetch the same chunk and both
    send it.  Decided on the trace: an I/O-thread socket.send made without
    holding outbuf_lock whose handle_write (from the poll turn's `selected` event
    to the send) overlaps a critical section of outbuf_lock of another thread
    that contains a socket.send."""
    ch = world.channel
    cond = object.__getattribute__(ch, "outbuf_lock")
    OL, CV = cond.lock.name, cond.name
    owner = None
    start = None
    sections = []            # (start, end, has_send) of other threads' critical sections
    cur = None
    io_sends = []            # (window start, index) of unlocked I/O-thread sends
    last_selected = 0
    for k, (t, kind, d) in enumerate(world.sched.events):
        took = released = False
        if kind == "acquire" and d == OL:
            took = True
        elif kind == "try_acquire" and d == OL and owner is None:
            took = True
        elif kind == "wake" and isinstance(d, list) and d and d[0] == CV:
            took = True
        elif kind == "reacquire" and d == OL:
            took = True
        elif (kind == "release" and d == OL) or (kind == "wait" and d == CV):
            released = True
        if took:
            owner = t
            cur = [k, None, False, t]
        if released and cur is not None:
            cur[1] = k
            if cur[3] != "io":
                sections.append(tuple(cur))
            cur = None
            owner = None
        if t == "io" and kind == "selected":
            last_selected = k
        if kind == "sock_send":
            if cur is not None and cur[3] == t:
                cur[2] = True
            elif t == "io" and owner != "io":
                io_sends.append((last_selected, k))
    if cur is not None and cur[3] != "io":
        sections.append((cur[0], len(world.sched.events), cur[2], cur[3]))
    for (ws, we, has_send, _) in sections:
        if not has_send:
            continue
        for (a0, b0) in io_sends:
            if ws <= b0 and we >= a0:
                return True
    return False


def world_monitor(world, reqs, waited, verdict, big_first=False):
    """C19 on one interleaved run: the wire, the application calls, and the
    client is not left parked waiting for an interim response."""
    problems = []
    for name, kind, detail in (world.blocked_at_end or []):
        if name == "client":
            problems.append("the client is left waiting at quiescence: %s %r (wire has %d interim responses)" % (
                kind, detail, world.wire.count(INTERIM)))
    if verdict == "overrun":      # an unfair schedule spinning in the poll loop: no verdict
        return []
    for t, kind, d in world.sched.events:
        if kind == "crash":
            problems.append("thread %s crashed: %s" % (t, d))
    complete = not any(n == "client" for n, _, _ in (world.blocked_at_end or [])) and not world.sock.closed
    problems += monitor(reqs, world.wire, world.app_calls, (), complete=complete,
                        waited=waited if complete else (), big_first=big_first)
    return problems
