"""K-adj: the real waitress.adjustments (Adjustments(**kw), Adjustments.parse_args,
the casts) against the extracted model (coq/Model/Adjust.v + coq/Gen/GenAdjust.v),
and the property's own statements executed directly on the real code (search).

Stubs: socket.getaddrinfo (fake_getaddrinfo below, mirrored by Model.Adjust.gai),
resolve_wsgi_app (returns a marker), socket objects (real unbound sockets and a
socket.socket subclass with settable family/type; plain objects that are not
sockets)."""
import contextlib
import getopt
import itertools
import os
import re
import socket
import warnings

from lib import vcommon

EXCL_SPEC_GROUPS = [("listen",), ("host", "port"), ("sockets",), ("unix_socket",)]


# -- encoding ---------------------------------------------------------------------------

def cps(s):
    return ",".join(str(ord(c)) for c in s) if s else "-"


def uncps(t):
    return "" if t == "-" else "".join(chr(int(x)) for x in t.split(","))


def dec(v):
    """decimal text of an int of any size without tripping the digit limit"""
    if v < 0:
        return "-" + dec(-v)
    if v < 10 ** 4000:
        return str(v)
    hi, lo = divmod(v, 10 ** 4000)
    return dec(hi) + str(lo).rjust(4000, "0")


class SockDesc:
    """description of one element of a `sockets` list"""

    def __init__(self, is_socket, fam, typ):
        self.is_socket, self.fam, self.typ = is_socket, fam, typ

    def code(self):
        return ("1" if self.is_socket else "0") + self.fam + self.typ


class _FakeSocket(socket.socket):
    """a socket.socket instance without a file descriptor whose family/type are
    whatever the test wants (isinstance(x, socket.socket) is true)"""

    def __init__(self, fam, typ):  # deliberately no super().__init__: no fd is opened
        self._fam, self._typ = fam, typ

    family = property(lambda self: self._fam)
    type = property(lambda self: self._typ)

    def __repr__(self):
        return "<_FakeSocket %r %r>" % (self._fam, self._typ)


class _NotASocket:
    def __init__(self, fam, typ):
        self.family, self.type = fam, typ


FAMS = {"i": socket.AF_INET, "6": socket.AF_INET6, "u": getattr(socket, "AF_UNIX", -1), "o": 16}
TYPS = {"s": socket.SOCK_STREAM, "o": socket.SOCK_DGRAM}
_DESC = {}  # id(obj) -> SockDesc (objects kept alive in _KEEP)
_KEEP = []


def make_sock(d):
    fam, typ = FAMS[d.fam], TYPS[d.typ]
    obj = None
    if d.is_socket:
        if d.fam in ("i", "u") and len(_KEEP) < 400:
            try:
                obj = socket.socket(fam, typ)  # a real, unbound socket
            except OSError:
                obj = None
        if obj is None:
            obj = _FakeSocket.__new__(_FakeSocket)
            obj.__init__(fam, typ)
    else:
        obj = _NotASocket(fam, typ)
    _DESC[id(obj)] = d
    _KEEP.append(obj)
    return obj


def close_socks():
    for o in _KEEP:
        if type(o) is socket.socket:
            try:
                o.close()
            except Exception:
                pass
    _KEEP.clear()
    _DESC.clear()


def enc_value(v):
    if v is None:
        return "N"
    if v is True or v is False:
        return "B1" if v else "B0"
    if isinstance(v, int):
        return "I" + dec(v)
    if isinstance(v, str):
        return "S" + cps(v)
    if isinstance(v, list) and all(isinstance(x, str) for x in v):
        return "L" + ";".join(cps(x) for x in v)
    if isinstance(v, list) and all(isinstance(x, SockDesc) for x in v):
        return "K" + ";".join(x.code() for x in v)
    raise ValueError("value the protocol cannot carry: %r" % (v,))


def py_value(v):
    """the Python object handed to the real code"""
    if isinstance(v, list) and v and all(isinstance(x, SockDesc) for x in v):
        return [make_sock(x) for x in v]
    if isinstance(v, list):
        return list(v)
    return v


def canon_setting(name, v):
    if v is None:
        return "N"
    if v is True or v is False:
        return "B1" if v else "B0"
    if isinstance(v, int):
        return "I" + dec(int(v))
    if isinstance(v, str):
        return "S" + cps(str(v))
    if isinstance(v, (set, frozenset)):
        return "T" + ";".join(sorted(cps(x) for x in v))
    if isinstance(v, list):
        if name == "listen" and all(isinstance(x, tuple) for x in v):
            return "A" + ";".join(("1" if x[0] == socket.AF_INET6 else "0") + cps(x[3][0]) + "@" + str(x[3][1]) for x in v)
        if name == "sockets":
            return "K" + ";".join(_DESC[id(x)].code() if id(x) in _DESC else "?" for x in v)
        if all(isinstance(x, str) for x in v):
            return "L" + ";".join(cps(x) for x in v)
    return "?" + repr(v)


def canon_model_token(t):
    """normalise a model setting token (sets are unordered)"""
    if t.startswith("T"):
        return "T" + ";".join(sorted(x for x in t[1:].split(";") if x != ""))
    return t


def exn_name(e):
    if isinstance(e, getopt.GetoptError):
        return "GetoptError"
    n = type(e).__name__
    return n


# -- stubs --------------------------------------------------------------------------------

def fake_getaddrinfo(host, port, family=0, type=0, proto=0, flags=0):
    if not (isinstance(port, str) and port.isascii() and port.isdigit() and len(port) <= 5 and int(port) <= 65535):
        raise socket.gaierror("fake: bad port %r" % (port,))
    p = int(port)
    if host is None:
        cands = [(socket.AF_INET, "0.0.0.0"), (socket.AF_INET6, "::")]
    else:
        cands = [(socket.AF_INET6 if ":" in host else socket.AF_INET, host)]
    out = []
    for f, h in cands:
        if family in (socket.AF_UNSPEC, f):
            out.append((f, socket.SOCK_STREAM, socket.IPPROTO_TCP, "", (h, p) if f == socket.AF_INET else (h, p, 0, 0)))
    if not out:
        raise socket.gaierror("fake: no address in the requested family")
    return out


class AppMarker:
    def __init__(self, name, call):
        self.name, self.call = name, call


@contextlib.contextmanager
def stubs():
    import waitress.adjustments as A
    old_gai = socket.getaddrinfo
    old_res = A.resolve_wsgi_app
    socket.getaddrinfo = fake_getaddrinfo
    A.resolve_wsgi_app = lambda app_name, call=False: AppMarker(app_name, call)
    try:
        with warnings.catch_warnings():
            warnings.simplefilter("ignore")
            yield A
    finally:
        socket.getaddrinfo = old_gai
        A.resolve_wsgi_app = old_res


def env_token(A):
    from waitress import compat
    return "e%s%s" % ("1" if compat.HAS_IPV6 else "0", "1" if hasattr(socket, "AF_UNIX") else "0")


# -- running the real code -----------------------------------------------------------------

def real_attrs(A, adj):
    out = {}
    for name, _ in A.Adjustments._params:
        out[name] = canon_setting(name, getattr(adj, name))
    return out


def real_construct(A, kw):
    """kw: list of (name, protocol value).  -> ('OK', {name: token}) | ('EXN', name)"""
    try:
        adj = A.Adjustments(**{k: py_value(v) for k, v in kw})
    except Exception as e:
        return ("EXN", exn_name(e))
    return ("OK", real_attrs(A, adj))


def class_defaults(A):
    return {name: canon_setting(name, getattr(A.Adjustments, name)) for name, _ in A.Adjustments._params}


def parse_model_attrs(line):
    """'OK k:tok ...' -> ('OK', {name: tok}); 'EXN X' -> ('EXN','X'); 'HELP' -> ('HELP', None)"""
    w = line.split(" ")
    if w[0] == "EXN":
        return ("EXN", w[1])
    if w[0] == "HELP":
        return ("HELP", None)
    if w[0] != "OK":
        return ("ERR", line)
    d = {}
    for t in w[1:]:
        k, _, v = t.partition(":")
        d[uncps(k)] = canon_model_token(v)
    return ("OK", d)


def same_construct(real, model, defaults):
    """real attrs (all parameters) against model attrs (assigned + derived ones)"""
    if real[0] != model[0]:
        return False
    if real[0] != "OK":
        return real[1] == model[1]
    r, m = real[1], model[1]
    for name, tok in r.items():
        want = m.get(name, defaults.get(name))
        if tok != want:
            return False
    return all(k in r for k in m)


def real_parse(A, argv):
    try:
        kw = A.Adjustments.parse_args(list(argv))
    except Exception as e:
        return ("EXN", exn_name(e)), None
    toks = {}
    for k, v in kw.items():
        if isinstance(v, AppMarker):
            toks[k] = "P%s%s" % ("1" if v.call else "0", cps(v.name))
        else:
            toks[k] = enc_value(v)
    return ("OK", toks), kw


def real_cli(A, argv):
    """what runner.run does with argv[1:], up to the Adjustments object"""
    res, kw = real_parse(A, argv)
    if res[0] != "OK":
        return res
    if kw["help"]:
        return ("HELP", None)
    kw = dict(kw)
    del kw["help"], kw["app"]
    try:
        adj = A.Adjustments(**kw)
    except Exception as e:
        return ("EXN", exn_name(e))
    return ("OK", real_attrs(A, adj))


# -- the property's own statements, independent of the model ------------------------------

def spec_two_groups(present):
    n = sum(1 for g in EXCL_SPEC_GROUPS if any(x in present for x in g))
    return n >= 2


def spec_proxy_refused(tp_set, count_given, hdrs):
    low = {h.lower() for h in hdrs}
    known = {"forwarded", "x-forwarded-for", "x-forwarded-host", "x-forwarded-proto", "x-forwarded-port", "x-forwarded-by"}
    if count_given and not tp_set:
        return True
    if low and not tp_set:
        return True
    if low - known:
        return True
    if "forwarded" in low and len(low) > 1:
        return True
    return False


def spec_socks_refused(descs, has_af_unix=True):
    real = [d for d in descs if d.is_socket]
    inet = [d for d in real if d.fam in ("i", "6") and d.typ == "s"]
    unix = [d for d in real if d.fam == "u" and d.typ == "s" and has_af_unix]
    unsup = [d for d in real if d not in inet and d not in unix]
    return bool(unsup) or (bool(inet) and bool(unix))


# -- independent reading of the documentation ---------------------------------------------

def docs_names_independent():
    """definition-list terms of docs/arguments.rst: an unindented one-word line
    directly followed by an indented line (a different reading than the translator's)"""
    txt = open(os.path.join(vcommon.REPO, "docs", "arguments.rst"), encoding="utf-8").read()
    return re.findall(r"(?m)^([a-z_0-9]+)[ \t]*\n[ \t]+\S", txt)


def help_names_independent():
    import waitress.runner as R
    return re.findall(r"(?m)^\s{4}--(?:\[no-\])?([a-z0-9-]+)", R.HELP)


# -- value pools -----------------------------------------------------------------------------

WS_SAMPLES = ["", " ", "\t", "\n", "\r\n", "\x0b", "\x0c", "\x1c", "\x1f", "\x85", "\xa0", "\u2003", "\u2028", "\u3000"]


def bool_values(truthy, rng, tier):
    words = sorted(truthy) + ["false", "no", "off", "0", "f", "n", "", "maybe", "2", "tru", "yess", "t rue", "o n", "11"]
    out = [True, False, None, 0, 1, 2, -1]
    for w in words:
        forms = {w, w.upper(), w.capitalize(), w.swapcase() if len(w) > 1 else w}
        if len(w) > 2:
            forms.add(w[0] + w[1:].upper())
        for f in sorted(forms):
            out.append(f)
            for a in (" ", "\t", "\n", "\xa0", "\u2003", "\x1c", "\x00"):
                out.append(a + f)
                out.append(f + a)
                out.append(a + f + a)
    n = 60 if tier == "quick" else 600
    for _ in range(n):
        w = rng.choice(words)
        w = "".join(c.upper() if rng.random() < 0.5 else c for c in w)
        out.append(rng.choice(WS_SAMPLES) + rng.choice(WS_SAMPLES) + w + rng.choice(WS_SAMPLES))
    return out


def int_values(rng, tier):
    out = ["0", "1", "8080", " 42 ", "+5", "-5", "- 5", "+ 5", "5_0", "_5", "5_", "5__0", "0x10", "1e3", "5.0", "", " ",
           "abc", "007", "0_7", "\x855\xa0", "\x1c5", "5\x1c", "\t\n\x0b\x0c\r5", "5\x00", "+", "-", "--5", "+-5", "1 2",
           "\u20035\u3000", "65535", "65536", "99999999999999999999", "-0", "0o7",
           0, 1, -3, 8080, 2 ** 70, -(2 ** 70), True, False, None, ["1"]]
    out += ["9" * 4300, "9" * 4301, "0" * 4301, "-" + "9" * 4300, " " * 3 + "9" * 4300 + " ", "1_" * 2150 + "1",
            "1_" * 4299 + "1", "1_" * 4300 + "1", "9" * 4299 + "_9", "9" * 4300 + "_9"]
    alpha = "0159_+- \t\xa0a"
    n = 300 if tier == "quick" else 5000
    for _ in range(n):
        out.append("".join(rng.choice(alpha) for _ in range(rng.randint(0, 6))))
    return out


def octal_values(rng, tier):
    out = ["600", "0o600", "0O7", "0o_7", "0o", "0o_", "0o7_", "777", " 600 ", "8", "78", "-7", "+7", "", "6_0", "6__0", "_6",
           "0_17", "-0o17", "0b1", "0x7", "00", "0o0", "\xa0644\n", "7" * 5000, "0o" + "7" * 4400, 384, 0, None, True, ["7"]]
    alpha = "0178oO_+- \n"
    n = 300 if tier == "quick" else 5000
    for _ in range(n):
        out.append("".join(rng.choice(alpha) for _ in range(rng.randint(0, 6))))
    return out


LIST_SEPS = [" ", "  ", "\n", "\r\n", "\r", "\t", "\x0b", "\x0c", "\x1c", "\x1d", "\x1e", "\x1f", "\x85", "\xa0",
             "\u2028", "\u2029", "\u2003", " \n ", "\n\n", "\r\r\n", "\n\r"]


def listen_values(rng, tier):
    toks = ["127.0.0.1:80", "[::1]:81", "*:8080", "a:1", "b:2", "c:3", "a%eth0:1", "a%eth1:1", "a:0", "hostonly", ":80",
            "[::1]", "[::1]:x", "a:99999", "a:http", "a:", "::1", "[a]:5", "*", "a:080", "a:+1", "x:65535", "x:65536"]
    out = ["", "   ", "\n", "127.0.0.1:80", "127.0.0.1:80 [::1]:81", "a:1 a:1", "a%eth0:1 a%eth1:1", "a:0 a:0", "*:80 *:80",
           ["a:1 b:2", "c:3"], [], ["a:1\nb:2"], None, 5, True]
    for t in toks:
        out.append(t)
    for s in LIST_SEPS:
        out.append("a:1" + s + "b:2")
        out.append(s + "a:1" + s + "b:2" + s)
    n = 200 if tier == "quick" else 4000
    for _ in range(n):
        k = rng.randint(1, 4)
        s = rng.choice(["", " ", "\n"])
        for _ in range(k):
            s += rng.choice(toks) + rng.choice(LIST_SEPS)
        out.append(s)
    return out


def aslist_strings(rng, tier):
    alpha = "a b\n\r\t\x0b\x0c\x1c\x1e\x1f\x85\xa0\u2028\u2003:"
    out = []
    small = "a \n\r\x0b\x1c\x1f\x85"
    for k in range(0, 4 if tier == "quick" else 5):
        for t in itertools.product(small, repeat=k):
            out.append("".join(t))
    n = 500 if tier == "quick" else 10000
    for _ in range(n):
        out.append("".join(rng.choice(alpha) for _ in range(rng.randint(0, 14))))
    return out


def slash_values(rng, tier):
    out = ["", "/", "//", "foo", "/foo", "foo/", "//foo//", " /foo/ ", "/foo/bar/", "/ /", "\t/a\n", "a//b", " ", "/ a", "a /",
           "\xa0/x/\u2003", "///", " / ", None, 5, True, ["/a"]]
    alpha = "/a \t"
    n = 200 if tier == "quick" else 3000
    for _ in range(n):
        out.append("".join(rng.choice(alpha) for _ in range(rng.randint(0, 7))))
    return out


STR_VALUES = ["x", "", " a ", "127.0.0.1", "::1", "*", "a:b", "[::1]", "a%b", "-x", "--y", "a=b", "=", "x y", "\u00e9\u4e2d", 5, 0, -7, None, True, False]
TRUTHY_STR_VALUES = ["", "x", "*", " ", "0", "1.2.3.4", "localhost", None, 0, 1, False, True, -2]
HEADER_VALUES = ["", " ", "forwarded", "Forwarded", "FORWARDED", "x-forwarded-for", "X-Forwarded-For x-forwarded-host",
                 "x-forwarded-for\nx-forwarded-proto\tx-forwarded-port  x-forwarded-by", "forwarded x-forwarded-for",
                 "Forwarded\nX-FORWARDED-HOST", "forwarded forwarded", "Forwarded forwarded", "bogus", "x_forwarded_for",
                 "x-forwarded-for bogus", "forwarded bogus", "x-forwarded", "x-forwarded-for,x-forwarded-host",
                 "X-Forwarded-For x-forwarded-for", ["forwarded"], ["x-forwarded-for x-forwarded-by", "X-Forwarded-Host"],
                 [], None, 3]


def sock_lists(tier):
    kinds = [SockDesc(True, f, t) for f in "i6uo" for t in "so"] + [SockDesc(False, "i", "s"), SockDesc(False, "o", "o")]
    out = [[]]
    maxlen = 2 if tier == "quick" else 3
    for k in range(1, maxlen + 1):
        for t in itertools.product(kinds, repeat=k):
            out.append(list(t))
    return out
