"""K-adj: the real waitress.adjustments (Adjustments(**kw), Adjustments.parse_args,
the casts) against the extracted model (coq/Model/Adjust.v + coq/Gen/GenAdjust.v),
and the property's own statements executed directly on the real code (search).

Stubs: socket.getaddrinfo (fake_getaddrinfo below, mirrored by Model.Adjust.gai),
resolve_wsgi_app (returns a marker), socket objects (real unbound sockets and a
socket.socket subclass with settable family/type; plain objects that are not
sockets)."""
import contextlib
import getopt
import itertools
import os
import re
import socket
import warnings

from lib import vcommon

EXCL_SPEC_GROUPS = [("listen",), ("host", "port"), ("sockets",), ("unix_socket",)]


# -- encoding ---------------------------------------------------------------------------

def cps(s):
    return ",".join(str(ord(c)) for c in s) if s else "-"


def uncps(t):
    return "" if t == "-" else "".join(chr(int(x)) for x in t.split(","))


def dec(v):
    """decimal text of an int of any size without tripping the digit limit"""
    if v < 0:
        return "-" + dec(-v)
    if v < 10 ** 4000:
        return str(v)
    hi, lo = divmod(v, 10 ** 4000)
    return dec(hi) + str(lo).rjust(4000, "0")


class SockDesc:
    """description of one element of a `sockets` list"""

    def __init__(self, is_socket, fam, typ):
        self.is_socket, self.fam, self.typ = is_socket, fam, typ

    def code(self):
        return ("1" if self.is_socket else "0") + self.fam + self.typ


class _FakeSocket(socket.socket):
    """a socket.socket instance without a file descriptor whose family/type are
    whatever the test wants (isinstance(x, socket.socket) is true)"""

    def __init__(self, fam, typ):  # deliberately no super().__init__: no fd is opened
        self._fam, self._typ = fam, typ

    family = property(lambda self: self._fam)
    type = property(lambda self: self._typ)

    def __repr__(self):
        return "<_FakeSocket %r %r>" % (self._fam, self._typ)


class _NotASocket:
    def __init__(self, fam, typ):
        self.family, self.type = fam, typ


FAMS = {"i": socket.AF_INET, "6": socket.AF_INET6, "u": getattr(socket, "AF_UNIX", -1), "o": 16}
# every letter but "s" is "not a stream socket" for the model and the specification; the enumeration members other than
# SOCK_DGRAM matter because SOCK_RAW = 3 and SOCK_SEQPACKET = 5 share the low bit with SOCK_STREAM = 1
TYPS = {"s": socket.SOCK_STREAM, "o": socket.SOCK_DGRAM, "r": socket.SOCK_RAW, "q": socket.SOCK_SEQPACKET,
        "m": getattr(socket, "SOCK_RDM", 4)}
_DESC = {}  # id(obj) -> SockDesc (objects kept alive in _KEEP)
_KEEP = []


def make_sock(d):
    fam, typ = FAMS[d.fam], TYPS[d.typ]
    obj = None
    if d.is_socket:
        if d.fam in ("i", "u") and d.typ in ("s", "o", "q") and len(_KEEP) < 400:
            try:
                obj = socket.socket(fam, typ)  # a real, unbound socket
            except OSError:
                obj = None
        if obj is None:
            obj = _FakeSocket.__new__(_FakeSocket)
            obj.__init__(fam, typ)
    else:
        obj = _NotASocket(fam, typ)
    _DESC[id(obj)] = d
    _KEEP.append(obj)
    return obj


def close_socks():
    for o in _KEEP:
        if type(o) is socket.socket:
            try:
                o.close()
            except Exception:
                pass
    _KEEP.clear()
    _DESC.clear()


def enc_value(v):
    if v is None:
        return "N"
    if v is True or v is False:
        return "B1" if v else "B0"
    if isinstance(v, int):
        return "I" + dec(v)
    if isinstance(v, str):
        return "S" + cps(v)
    if isinstance(v, list) and all(isinstance(x, str) for x in v):
        return "L" + ";".join(cps(x) for x in v)
    if isinstance(v, list) and all(isinstance(x, SockDesc) for x in v):
        return "K" + ";".join(x.code() for x in v)
    raise ValueError("value the protocol cannot carry: %r" % (v,))


def py_value(v):
    """the Python object handed to the real code"""
    if isinstance(v, list) and v and all(isinstance(x, SockDesc) for x in v):
        return [make_sock(x) for x in v]
    if isinstance(v, list):
        return list(v)
    return v


def canon_setting(name, v):
    if v is None:
        return "N"
    if v is True or v is False:
        return "B1" if v else "B0"
    if isinstance(v, int):
        return "I" + dec(int(v))
    if isinstance(v, str):
        return "S" + cps(str(v))
    if isinstance(v, (set, frozenset)):
        return "T" + ";".join(sorted(cps(x) for x in v))
    if isinstance(v, list):
        if name == "listen" and all(isinstance(x, tuple) for x in v):
            return "A" + ";".join(("1" if x[0] == socket.AF_INET6 else "0") + cps(x[3][0]) + "@" + str(x[3][1]) for x in v)
        if name == "sockets":
            return "K" + ";".join(_DESC[id(x)].code() if id(x) in _DESC else "?" for x in v)
        if all(isinstance(x, str) for x in v):
            return "L" + ";".join(cps(x) for x in v)
    return "?" + repr(v)


def canon_model_token(t):
    """normalise a model setting token (sets are unordered)"""
    if t.startswith("T"):
        return "T" + ";".join(sorted(x for x in t[1:].split(";") if x != ""))
    return t


def exn_name(e):
    if isinstance(e, getopt.GetoptError):
        return "GetoptError"
    n = type(e).__name__
    return n


# -- stubs --------------------------------------------------------------------------------

def fake_getaddrinfo(host, port, family=0, type=0, proto=0, flags=0):
    if not (isinstance(port, str) and port.isascii() and port.isdigit() and len(port) <= 5 and int(port) <= 65535):
        raise socket.gaierror("fake: bad port %r" % (port,))
    p = int(port)
    if host is None:
        cands = [(socket.AF_INET, "0.0.0.0"), (socket.AF_INET6, "::")]
    else:
        cands = [(socket.AF_INET6 if ":" in host else socket.AF_INET, host)]
    out = []
    for f, h in cands:
        if family in (socket.AF_UNSPEC, f):
            out.append((f, socket.SOCK_STREAM, socket.IPPROTO_TCP, "", (h, p) if f == socket.AF_INET else (h, p, 0, 0)))
    if not out:
        raise socket.gaierror("fake: no address in the requested family")
    return out


class AppMarker:
    def __init__(self, name, call):
        self.name, self.call = name, call


@contextlib.contextmanager
def stubs():
    import waitress.adjustments as A
    old_gai = socket.getaddrinfo
    old_res = A.resolve_wsgi_app
    socket.getaddrinfo = fake_getaddrinfo
    A.resolve_wsgi_app = lambda app_name, call=False: AppMarker(app_name, call)
    try:
        with warnings.catch_warnings():
            warnings.simplefilter("ignore")
            yield A
    finally:
        socket.getaddrinfo = old_gai
        A.resolve_wsgi_app = old_res


def env_token(A):
    from waitress import compat
    return "e%s%s" % ("1" if compat.HAS_IPV6 else "0", "1" if hasattr(socket, "AF_UNIX") else "0")


# -- running the real code -----------------------------------------------------------------

def real_attrs(A, adj):
    out = {}
    for name, _ in A.Adjustments._params:
        out[name] = canon_setting(name, getattr(adj, name))
    return out


def real_construct(A, kw):
    """kw: list of (name, protocol value).  -> ('OK', {name: token}) | ('EXN', name)"""
    try:
        adj = A.Adjustments(**{k: py_value(v) for k, v in kw})
    except Exception as e:
        return ("EXN", exn_name(e))
    return ("OK", real_attrs(A, adj))


def class_defaults(A):
    return {name: canon_setting(name, getattr(A.Adjustments, name)) for name, _ in A.Adjustments._params}


def parse_model_attrs(line):
    """'OK k:tok ...' -> ('OK', {name: tok}); 'EXN X' -> ('EXN','X'); 'HELP' -> ('HELP', None)"""
    w = line.split(" ")
    if w[0] == "EXN":
        return ("EXN", w[1])
    if w[0] == "HELP":
        return ("HELP", None)
    if w[0] != "OK":
        return ("ERR", line)
    d = {}
    for t in w[1:]:
        k, _, v = t.partition(":")
        d[uncps(k)] = canon_model_token(v)
    return ("OK", d)


def same_construct(real, model, defaults):
    """real attrs (all parameters) against model attrs (assigned + derived ones)"""
    if real[0] != model[0]:
        return False
    if real[0] != "OK":
        return real[1] == model[1]
    r, m = real[1], model[1]
    for name, tok in r.items():
        want = m.get(name, defaults.get(name))
        if tok != want:
            return False
    return all(k in r for k in m)


def real_parse(A, argv):
    try:
        kw = A.Adjustments.parse_args(list(argv))
    except Exception as e:
        return ("EXN", exn_name(e)), None
    toks = {}
    for k, v in kw.items():
        if isinstance(v, AppMarker):
            toks[k] = "P%s%s" % ("1" if v.call else "0", cps(v.name))
        else:
            toks[k] = enc_value(v)
    return ("OK", toks), kw


def real_cli(A, argv):
    """what runner.run does with argv[1:], up to the Adjustments object"""
    res, kw = real_parse(A, argv)
    if res[0] != "OK":
        return res
    if kw["help"]:
        return ("HELP", None)
    kw = dict(kw)
    del kw["help"], kw["app"]
    try:
        adj = A.Adjustments(**kw)
    except Exception as e:
        return ("EXN", exn_name(e))
    return ("OK", real_attrs(A, adj))


# -- the property's own statements, independent of the model ------------------------------

def spec_two_groups(present):
    n = sum(1 for g in EXCL_SPEC_GROUPS if any(x in present for x in g))
    return n >= 2


def spec_proxy_refused(tp_set, count_given, hdrs, count=None):
    low = {h.lower() for h in hdrs}
    if count_given and count is not None and count < 1:
        return True
    known = {"forwarded", "x-forwarded-for", "x-forwarded-host", "x-forwarded-proto", "x-forwarded-port", "x-forwarded-by"}
    if count_given and not tp_set:
        return True
    if low and not tp_set:
        return True
    if low - known:
        return True
    if "forwarded" in low and len(low) > 1:
        return True
    return False


def spec_socks_refused(descs, has_af_unix=True):
    real = [d for d in descs if d.is_socket]
    inet = [d for d in real if d.fam in ("i", "6") and d.typ == "s"]
    unix = [d for d in real if d.fam == "u" and d.typ == "s" and has_af_unix]
    unsup = [d for d in real if d not in inet and d not in unix]
    return bool(unsup) or (bool(inet) and bool(unix))


# -- independent reading of the documentation ---------------------------------------------

def docs_names_independent():
    """definition-list terms of docs/arguments.rst: an unindented one-word line
    directly followed by an indented line (a different reading than the translator's)"""
    txt = open(os.path.join(vcommon.REPO, "docs", "arguments.rst"), encoding="utf-8").read()
    return re.findall(r"(?m)^([a-z_0-9]+)[ \t]*\n[ \t]+\S", txt)


def help_names_independent():
    import waitress.runner as R
    return re.findall(r"(?m)^\s{4}--(?:\[no-\])?([a-z0-9-]+)", R.HELP)


# -- value pools -----------------------------------------------------------------------------

WS_SAMPLES = ["", " ", "\t", "\n", "\r\n", "\x0b", "\x0c", "\x1c", "\x1f", "\x85", "\xa0", "\u2003", "\u2028", "\u3000"]


def bool_values(truthy, rng, tier):
    words = sorted(truthy) + ["false", "no", "off", "0", "f", "n", "", "maybe", "2", "tru", "yess", "t rue", "o n", "11"]
    out = [True, False, None, 0, 1, 2, -1]
    for w in words:
        forms = {w, w.upper(), w.capitalize(), w.swapcase() if len(w) > 1 else w}
        if len(w) > 2:
            forms.add(w[0] + w[1:].upper())
        for f in sorted(forms):
            out.append(f)
            for a in (" ", "\t", "\n", "\xa0", "\u2003", "\x1c", "\x00"):
                out.append(a + f)
                out.append(f + a)
                out.append(a + f + a)
    n = 60 if tier == "quick" else 600
    for _ in range(n):
        w = rng.choice(words)
        w = "".join(c.upper() if rng.random() < 0.5 else c for c in w)
        out.append(rng.choice(WS_SAMPLES) + rng.choice(WS_SAMPLES) + w + rng.choice(WS_SAMPLES))
    return out


def int_values(rng, tier):
    out = ["0", "1", "8080", " 42 ", "+5", "-5", "- 5", "+ 5", "5_0", "_5", "5_", "5__0", "0x10", "1e3", "5.0", "", " ",
           "abc", "007", "0_7", "\x855\xa0", "\x1c5", "5\x1c", "\t\n\x0b\x0c\r5", "5\x00", "+", "-", "--5", "+-5", "1 2",
           "\u20035\u3000", "65535", "65536", "99999999999999999999", "-0", "0o7",
           0, 1, -3, 8080, 2 ** 70, -(2 ** 70), True, False, None, ["1"]]
    # the 4300-digit limit of int() (slow in the extracted model: a few per run)
    out += ["9" * 4300, "9" * 4301]
    if tier != "quick":
        out += ["0" * 4301, "-" + "9" * 4300, " " * 3 + "9" * 4300 + " ", "1_" * 2150 + "1",
                "1_" * 4299 + "1", "1_" * 4300 + "1", "9" * 4299 + "_9", "9" * 4300 + "_9"]
    alpha = "0159_+- \t\xa0a"
    n = 300 if tier == "quick" else 5000
    for _ in range(n):
        out.append("".join(rng.choice(alpha) for _ in range(rng.randint(0, 6))))
    return out


def octal_values(rng, tier):
    out = ["600", "0o600", "0O7", "0o_7", "0o", "0o_", "0o7_", "777", " 600 ", "8", "78", "-7", "+7", "", "6_0", "6__0", "_6",
           "0_17", "-0o17", "0b1", "0x7", "00", "0o0", "\xa0644\n", 384, 0, None, True, ["7"]]
    if tier != "quick":
        out += ["7" * 5000, "0o" + "7" * 4400]   # no digit limit for a power-of-two base
    alpha = "0178oO_+- \n"
    n = 300 if tier == "quick" else 5000
    for _ in range(n):
        out.append("".join(rng.choice(alpha) for _ in range(rng.randint(0, 6))))
    return out


LIST_SEPS = [" ", "  ", "\n", "\r\n", "\r", "\t", "\x0b", "\x0c", "\x1c", "\x1d", "\x1e", "\x1f", "\x85", "\xa0",
             "\u2028", "\u2029", "\u2003", " \n ", "\n\n", "\r\r\n", "\n\r"]


def listen_values(rng, tier):
    toks = ["127.0.0.1:80", "[::1]:81", "*:8080", "a:1", "b:2", "c:3", "a%eth0:1", "a%eth1:1", "a:0", "hostonly", ":80",
            "[::1]", "[::1]:x", "a:99999", "a:http", "a:", "::1", "[a]:5", "*", "a:080", "a:+1", "x:65535", "x:65536"]
    out = ["", "   ", "\n", "127.0.0.1:80", "127.0.0.1:80 [::1]:81", "a:1 a:1", "a%eth0:1 a%eth1:1", "a:0 a:0", "*:80 *:80",
           ["a:1 b:2", "c:3"], [], ["a:1\nb:2"], None, 5, True]
    for t in toks:
        out.append(t)
    for s in LIST_SEPS:
        out.append("a:1" + s + "b:2")
        out.append(s + "a:1" + s + "b:2" + s)
    n = 200 if tier == "quick" else 4000
    for _ in range(n):
        k = rng.randint(1, 4)
        s = rng.choice(["", " ", "\n"])
        for _ in range(k):
            s += rng.choice(toks) + rng.choice(LIST_SEPS)
        out.append(s)
    return out


def aslist_strings(rng, tier):
    alpha = "a b\n\r\t\x0b\x0c\x1c\x1e\x1f\x85\xa0\u2028\u2003:"
    out = []
    small = "a \n\r\x0b\x1c\x1f\x85"
    for k in range(0, 4 if tier == "quick" else 5):
        for t in itertools.product(small, repeat=k):
            out.append("".join(t))
    n = 500 if tier == "quick" else 10000
    for _ in range(n):
        out.append("".join(rng.choice(alpha) for _ in range(rng.randint(0, 14))))
    return out


def slash_values(rng, tier):
    out = ["", "/", "//", "foo", "/foo", "foo/", "//foo//", " /foo/ ", "/foo/bar/", "/ /", "\t/a\n", "a//b", " ", "/ a", "a /",
           "\xa0/x/\u2003", "///", " / ", None, 5, True, ["/a"]]
    alpha = "/a \t"
    n = 200 if tier == "quick" else 3000
    for _ in range(n):
        out.append("".join(rng.choice(alpha) for _ in range(rng.randint(0, 7))))
    return out


STR_VALUES = ["x", "", " a ", "127.0.0.1", "::1", "*", "a:b", "[::1]", "a%b", "-x", "--y", "a=b", "=", "x y", "\u00e9\u4e2d", 5, 0, -7, None, True, False]
TRUTHY_STR_VALUES = ["", "x", "*", " ", "0", "1.2.3.4", "localhost", None, 0, 1, False, True, -2]
HEADER_VALUES = ["", " ", "forwarded", "Forwarded", "FORWARDED", "x-forwarded-for", "X-Forwarded-For x-forwarded-host",
                 "x-forwarded-for\nx-forwarded-proto\tx-forwarded-port  x-forwarded-by", "forwarded x-forwarded-for",
                 "Forwarded\nX-FORWARDED-HOST", "forwarded forwarded", "Forwarded forwarded", "bogus", "x_forwarded_for",
                 "x-forwarded-for bogus", "forwarded bogus", "x-forwarded", "x-forwarded-for,x-forwarded-host",
                 "X-Forwarded-For x-forwarded-for", ["forwarded"], ["x-forwarded-for x-forwarded-by", "X-Forwarded-Host"],
                 [], None, 3]


def sock_lists(tier):
    kinds = [SockDesc(True, f, t) for f in "i6uo" for t in "so"] + [SockDesc(False, "i", "s"), SockDesc(False, "o", "o")]
    out = [[]]
    maxlen = 2 if tier == "quick" else 3
    for k in range(1, maxlen + 1):
        for t in itertools.product(kinds, repeat=k):
            out.append(list(t))
    # the other members of the socket type enumeration: alone, and next to a supported socket of either kind
    for f in "i6u":
        for t in "rqm":
            d = SockDesc(True, f, t)
            out += [[d], [SockDesc(True, "i", "s"), d], [d, SockDesc(True, "u", "s")], [SockDesc(False, "i", "s"), d]]
    return out


# -- the correspondence and the search --------------------------------------------------------

def dec_token(t):
    """protocol token -> value understood by py_value (for replays)"""
    k, r = t[0], t[1:]
    if k == "N":
        return None
    if k == "B":
        return r == "1"
    if k == "I":
        v = 0
        neg = r.startswith("-")
        for ch in r.lstrip("-"):
            v = v * 10 + (ord(ch) - 48)
        return -v if neg else v
    if k == "S":
        return uncps(r)
    if k == "L":
        return [uncps(x) for x in r.split(";")] if r else []
    if k == "K":
        return [SockDesc(x[0] == "1", x[1], x[2]) for x in r.split(";")] if r else []
    raise ValueError(t)


def kw_tokens(kw):
    return [[k, enc_value(v)] for k, v in kw]


def show(res):
    if res is None:
        return "none"
    if res[0] == "OK":
        return "OK " + " ".join("%s=%s" % kv for kv in sorted(res[1].items()))
    if res[0] == "HELP":
        return "HELP"
    return "%s %s" % (res[0], res[1])


class Run:
    """accumulates model queries, statistics and disagreements"""

    def __init__(self, ctx, runner, A):
        self.ctx, self.runner, self.A = ctx, runner, A
        self.env = env_token(A)
        self.defaults = class_defaults(A)
        self.q, self.cb = [], []
        self.evaluations = 0
        self.nontrivial = set()
        self.dist = {}
        self.model_bad = []   # (group, text, replay)
        self.spec_bad = []    # (key, text, replay, kf_class)
        self.samples = []
        self.model_unavailable = 0

    def count(self, group, outcome):
        d = self.dist.setdefault(group, {})
        d[outcome] = d.get(outcome, 0) + 1

    def ask(self, line, cb):
        self.q.append(line)
        self.cb.append(cb)

    def flush(self):
        if not self.q:
            return
        q, cb = self.q, self.cb
        self.q, self.cb = [], []
        if self.runner is None:
            # no extracted model (a generated item is absent or the model no longer
            # compiles): the search against the specification still runs
            self.model_unavailable += len(q)
            return
        ans = self.runner.query(q)
        for l, a, f in zip(q, ans, cb):
            if a.startswith("ERR"):
                self.model_bad.append(("driver", "%s -> %s" % (l[:200], a[:200]), {"kind": "driver", "query": l[:500], "model": a[:500]}))
                continue
            f(a)

    # one keyword-form case: real vs model
    def kw_case(self, group, kw, real=None):
        if real is None:
            real = real_construct(self.A, kw)
        self.evaluations += 1
        self.count(group, real[0] if real[0] == "OK" else real[1])
        if real[0] == "OK":
            self.nontrivial.add(("kw", repr(kw_tokens(kw))))
        line = "construct %s %s" % (self.env, " ".join("%s:%s" % (cps(k), enc_value(v)) for k, v in kw))

        def cb(a, kw=kw, real=real):
            m = parse_model_attrs(a)
            if not same_construct(real, m, self.defaults):
                self.model_bad.append((group, "Adjustments(**kw): model %s / implementation %s" % (show(m)[:300], show(real)[:300]),
                                       {"kind": "kw", "kw": kw_tokens(kw), "model": a[:2000], "observed": show(real)[:2000]}))
        self.ask(line.rstrip(), cb)
        return real

    def cli_case(self, group, argv, real=None):
        if real is None:
            real = real_cli(self.A, argv)
        self.evaluations += 1
        self.count(group, real[0] if real[0] in ("OK", "HELP") else real[1])
        if real[0] == "OK":
            self.nontrivial.add(("cli", repr(argv)))

        def cb(a, argv=argv, real=real):
            m = parse_model_attrs(a)
            ok = (m[0] == real[0] == "HELP") or same_construct(real, m, self.defaults)
            if not ok:
                self.model_bad.append((group, "runner form %r: model %s / implementation %s" % (argv, show(m)[:300], show(real)[:300]),
                                       {"kind": "cli", "argv": list(argv), "model": a[:2000], "observed": show(real)[:2000]}))
        self.ask(("cli %s %s" % (self.env, " ".join(cps(x) for x in argv))).rstrip(), cb)
        return real

    def parse_case(self, group, argv):
        real, _ = real_parse(self.A, argv)
        self.evaluations += 1

        def cb(a, argv=argv, real=real):
            w = a.split(" ")
            if w[0] == "OK":
                m = ("OK", {uncps(t.partition(":")[0]): t.partition(":")[2] for t in w[1:]})
            else:
                m = (w[0], w[1] if len(w) > 1 else "")
            if m != real:
                self.model_bad.append((group, "parse_args(%r): model %s / implementation %s" % (argv, show(m)[:300], show(real)[:300]),
                                       {"kind": "parse", "argv": list(argv), "model": a[:2000], "observed": show(real)[:2000]}))
        self.ask(("parse %s" % " ".join(cps(x) for x in argv)).rstrip(), cb)

    def cast_case(self, group, castname, fn, v):
        self.evaluations += 1
        try:
            r = canon_setting(castname, fn(py_value(v)))
            if castname == "CSockets":
                r = canon_setting("sockets", fn(py_value(v)))
        except Exception as e:
            r = "EXN " + exn_name(e)
        if not r.startswith("EXN"):
            self.nontrivial.add(("cast", castname, enc_value(v)))
        self.count(group, "value" if not r.startswith("EXN") else r[4:])

        def cb(a, v=v, r=r):
            if canon_model_token(a) != r:
                self.model_bad.append((group, "%s(%r): model %s / implementation %s" % (castname, v, a[:200], r[:200]),
                                       {"kind": "cast", "cast": castname, "value": enc_value(v), "model": a[:2000], "observed": r[:2000]}))
        self.ask("cast %s %s" % (castname, enc_value(v)), cb)

    def violation(self, key, text, replay, kf=None):
        self.spec_bad.append((key, text, replay, kf))


def orderings(names, tier, rng):
    names = list(names)
    if tier == "thorough":
        return [list(p) for p in itertools.permutations(names)]
    out = [names, names[::-1]]
    if len(names) > 2:
        p = names[:]
        rng.shuffle(p)
        out.append(p)
    return out


def group_excl(R, model_names):
    """all subsets of the exclusive options on the real constructor: against the
    specification (two different groups present <-> refused), against the model,
    and against the generated formula"""
    tier, rng = R.ctx.tier, R.ctx.rng
    names = [n for g in EXCL_SPEC_GROUPS for n in g]
    benign = {"listen": "127.0.0.1:8080", "host": "127.0.0.1", "port": 8080,
              "sockets": [SockDesc(True, "i", "s")], "unix_socket": "/tmp/c20.sock"}
    emptyish = {"listen": "", "host": "", "port": "0", "sockets": [], "unix_socket": ""}
    subsets_seen = 0
    for k in range(0, len(names) + 1):
        for sub in itertools.combinations(names, k):
            subsets_seen += 1
            want = spec_two_groups(sub)
            for vals in (benign, emptyish):
                for order in orderings(sub, tier, rng):
                    for extra in ([], [("threads", "3")], [("bogus_option", 1)]):
                        kw = [(n, vals[n]) for n in order] + extra
                        real = R.kw_case("excl", kw)
                        refused = real == ("EXN", "ValueError")
                        if extra and extra[0][0] == "bogus_option":
                            if not refused:
                                R.violation("unknown-name-accepted", "unknown adjustment accepted: %r" % (kw,),
                                            {"kind": "kw", "kw": kw_tokens(kw), "expected": "EXN ValueError", "observed": show(real)[:500],
                                             "failing_input_found": True})
                            continue
                        if refused != want:
                            R.violation("excl:" + "+".join(sorted(sub)),
                                        "mutually exclusive options %s: specification says %s, Adjustments(**kw) %s" % (
                                            sorted(sub), "refuse" if want else "accept", show(real)[:120]),
                                        {"kind": "kw", "kw": kw_tokens(kw), "expected": "EXN ValueError" if want else "accepted",
                                         "observed": show(real)[:500], "failing_input_found": True})
                        if real[0] not in ("OK",) and not refused:
                            R.violation("excl-exn:" + "+".join(sorted(sub)), "unexpected %s" % show(real),
                                        {"kind": "kw", "kw": kw_tokens(kw), "expected": "EXN ValueError" if want else "accepted",
                                         "observed": show(real)[:500], "failing_input_found": True})
            # the generated formula itself, on this subset

            def cb(a, sub=sub, want=want):
                if (a == "1") != want:
                    R.model_bad.append(("excl-gen", "generated excl on %s = %s, specification %s" % (sorted(sub), a, want),
                                        {"kind": "excl-formula", "present": list(sub), "model": a, "observed": str(want)}))
            R.ask(("excl %s" % " ".join(cps(n) for n in sub)).rstrip(), cb)
        close_socks()
    if R.runner is not None and sorted(model_names) != sorted(names):
        R.model_bad.append(("excl-names", "the exclusion chain mentions %s, the specification groups are %s" % (sorted(model_names), sorted(names)),
                            {"kind": "excl-names", "model": sorted(model_names), "observed": sorted(names)}))
    return subsets_seen


def group_proxy(R):
    tps = [None, "", "1.2.3.4", "*"]
    counts = [None, "2", 1, 0, -1, "0", " -3 "]
    hdrs = HEADER_VALUES
    for tp in tps:
        for c in counts:
            for h in hdrs:
                kw = []
                if tp is not None:
                    kw.append(("trusted_proxy", tp))
                if h is not None or True:
                    pass
                if c is not None:
                    kw.append(("trusted_proxy_count", c))
                kw.append(("trusted_proxy_headers", h)) if h != "ABSENT" else None
                for order in (kw, kw[::-1]):
                    real = R.kw_case("proxy", order)
                    if isinstance(h, (str, list)):
                        hs = h.split() if isinstance(h, str) else [x for y in h for x in y.split()]
                        want = spec_proxy_refused(bool(tp), c is not None, hs, None if c is None else int(c))
                        refused = real == ("EXN", "ValueError")
                        if refused != want:
                            R.violation("proxy:%s:%s:%s" % (bool(tp), c is not None, sorted(set(x.lower() for x in hs))),
                                        "proxy options %r: specification says %s, implementation %s" % (order, "refuse" if want else "accept", show(real)[:100]),
                                        {"kind": "kw", "kw": kw_tokens(order), "expected": "EXN ValueError" if want else "accepted",
                                         "observed": show(real)[:500], "failing_input_found": True})
            # without trusted_proxy_headers at all
            kw = ([("trusted_proxy", tp)] if tp is not None else []) + ([("trusted_proxy_count", c)] if c is not None else [])
            real = R.kw_case("proxy", kw)
            want = spec_proxy_refused(bool(tp), c is not None, [], None if c is None else int(c))
            if (real == ("EXN", "ValueError")) != want:
                R.violation("proxy:%s:%s:none" % (bool(tp), c is not None), "proxy options %r: specification says %s, implementation %s" % (
                    kw, "refuse" if want else "accept", show(real)[:100]),
                    {"kind": "kw", "kw": kw_tokens(kw), "expected": "EXN ValueError" if want else "accepted",
                     "observed": show(real)[:500], "failing_input_found": True})
    # trusted_proxy_count must be 1 or greater: keyword and runner forms
    for c in (0, -1, 1, 2, -100):
        for tp in ("10.0.0.1", "*"):
            want = c < 1
            forms = [("kw-int", [("trusted_proxy", tp), ("trusted_proxy_count", c)], None),
                     ("kw-str", [("trusted_proxy", tp), ("trusted_proxy_count", str(c)), ("trusted_proxy_headers", "x-forwarded-for")], None),
                     ("cli=", None, ["--trusted-proxy=" + tp, "--trusted-proxy-count=%d" % c, "m:app"]),
                     ("cli ", None, ["--trusted-proxy", tp, "--trusted-proxy-headers=forwarded", "--trusted-proxy-count", str(c), "m:app"])]
            for what, kw, argv in forms:
                real = R.kw_case("proxy-count", kw) if kw is not None else R.cli_case("proxy-count", argv)
                refused = real == ("EXN", "ValueError")
                got = real[1].get("trusted_proxy_count") if real[0] == "OK" else None
                if refused != want or (not want and got != "I%d" % c):
                    rep = {"kind": "kw", "kw": kw_tokens(kw)} if kw is not None else {"kind": "cli-accept", "argv": argv}
                    rep.update({"expected": "EXN ValueError" if want else "accepted", "observed": show(real)[:500], "failing_input_found": True})
                    R.violation("proxy-count:%d:%s" % (c, what.strip()),
                                "trusted_proxy_count=%d (%s): specification says %s, implementation %s" % (
                                    c, kw if kw is not None else argv, "refuse" if want else "accept with that count", show(real)[:100]), rep)
    # the generated table, all 128 rows, against the specification formula
    for bits in itertools.product("01", repeat=7):
        b = "".join(bits)
        tpn, tpcn, cb, hn, hu, hf, ho = [x == "1" for x in bits]
        want = (not tpcn and tpn) or (not tpcn and cb) or (hn and tpn) or (hn and hu) or (hn and hf and ho)

        def cb(a, b=b, want=want):
            if (a[0] == "1") != want:
                R.model_bad.append(("proxy-gen", "generated proxy_refused on %s = %s, specification %s" % (b, a, want),
                                    {"kind": "proxy-formula", "bits": b, "model": a, "observed": str(want)}))
        R.ask("proxy " + b, cb)


def group_sockets(R):
    for n, l in enumerate(sock_lists(R.ctx.tier)):
        kw = [("sockets", l)]
        real = R.kw_case("sockets", kw)
        want = spec_socks_refused(l, hasattr(socket, "AF_UNIX"))
        if (real == ("EXN", "ValueError")) != want:
            R.violation("sockets:" + ";".join(sorted(set(d.code() for d in l))),
                        "socket list %s: specification says %s, implementation %s" % ([d.code() for d in l], "refuse" if want else "accept", show(real)[:100]),
                        {"kind": "kw", "kw": kw_tokens(kw), "expected": "EXN ValueError" if want else "accepted",
                         "observed": show(real)[:500], "failing_input_found": True})
        if n % 50 == 49:
            R.flush()
            close_socks()
    R.flush()
    close_socks()


def group_families(R):
    """ipv4/ipv6 switches: the family handed to getaddrinfo must honour both"""
    for v4 in (True, False, "true", "false"):
        for v6 in (True, False, "true", "false"):
            for listen in ("*:80", "127.0.0.1:80 [::1]:81"):
                kw = [("ipv4", v4), ("ipv6", v6), ("listen", listen)]
                calls = []
                old = socket.getaddrinfo

                def spy(*a, **k):
                    calls.append(a[2] if len(a) > 2 else k.get("family"))
                    return old(*a, **k)
                socket.getaddrinfo = spy
                try:
                    real = R.kw_case("families", kw)
                finally:
                    socket.getaddrinfo = old
                b4, b6 = v4 in (True, "true"), v6 in (True, "true")
                if real[0] == "OK" or calls:
                    fams = set(calls)
                    allowed4 = any(f in (socket.AF_UNSPEC, socket.AF_INET) for f in fams)
                    allowed6 = any(f in (socket.AF_UNSPEC, socket.AF_INET6) for f in fams)
                    if allowed4 != b4 or allowed6 != b6:
                        kf = None   # repaired in /repo (535fe10): if it comes back it is a violation
                        R.violation("families:%s:%s" % (b4, b6),
                                    "ipv4=%r ipv6=%r: getaddrinfo asked for family %s (IPv4 allowed=%s, IPv6 allowed=%s)" % (
                                        v4, v6, sorted(int(f) for f in fams), allowed4, allowed6),
                                    {"kind": "families", "kw": kw_tokens(kw),
                                     "expected": ("refused" if not (b4 or b6) else "IPv4 allowed=%s IPv6 allowed=%s or refused" % (b4, b6)),
                                     "observed": "families %s" % sorted(int(f) for f in fams), "failing_input_found": True}, kf)


def cli_name(name):
    return name.replace("_", "-")


def group_values(R, truthy):
    """every adjustment x representative values of its type: the cast alone, the
    keyword form, both runner spellings; runner form == keyword form (search)"""
    A, tier, rng = R.A, R.ctx.tier, R.ctx.rng
    pools = {
        "CBool": bool_values(truthy, rng, tier),
        "CInt": int_values(rng, tier),
        "COctal": octal_values(rng, tier),
        "CList": listen_values(rng, tier),
        "CSet": HEADER_VALUES,
        "CSlash": slash_values(rng, tier),
        "CStr": STR_VALUES,
        "CStrIfTruthy": TRUTHY_STR_VALUES,
        "CSockets": [[], [SockDesc(True, "i", "s")], [SockDesc(False, "i", "s"), SockDesc(True, "u", "s")], "abc", "", None, 5, ["x"]],
    }
    import gen_adjust
    castname = {}
    for name, fn in A.Adjustments._params:
        castname[name] = gen_adjust.CASTS.get(fn.__name__, "?" + fn.__name__)
    # the casts on their own, once per kind
    done = set()
    for name, fn in A.Adjustments._params:
        c = castname[name]
        if c in done or c not in pools:
            continue
        done.add(c)
        for v in pools[c]:
            R.cast_case("cast-" + c, c, fn, v)
        if c == "CList":
            for s in aslist_strings(rng, tier):
                R.cast_case("cast-CList", c, fn, s)
        R.flush()
        close_socks()
    # every option
    per_option = 40 if tier == "quick" else 400
    for name, fn in A.Adjustments._params:
        c = castname[name]
        pool = [v for v in pools.get(c, []) if not (isinstance(v, str) and len(v) > 200)]
        if len(pool) > per_option:
            head = pool[: per_option // 2]
            pool = head + rng.sample(pool[per_option // 2:], per_option - len(head))
        context = [("trusted_proxy", "10.0.0.1")] if name in ("trusted_proxy_headers", "trusted_proxy_count") else []
        for v in pool:
            kw = context + [(name, v)]
            kwres = R.kw_case("option-kw", kw)
            if c != "CBool" and not isinstance(v, str):
                continue
            ctx_argv = ["--trusted-proxy=10.0.0.1"] if context else []
            if c == "CBool":
                if v is True or v is False:
                    argv = ctx_argv + ["--" + ("" if v else "no-") + cli_name(name), "pkg:app"]
                    cres = R.cli_case("option-cli", argv)
                    R.parse_case("parse", argv)
                    sres = real_construct(A, context + [(name, "true" if v else "false")])
                    if not (cres == kwres == sres):
                        R.violation("cli-kw:%s" % name, "%s: runner form %r gives %s, keyword form %r gives %s / %s" % (
                            name, argv, show(cres)[:160], v, show(kwres)[:160], show(sres)[:160]),
                            {"kind": "cli-vs-kw", "argv": argv, "kw": kw_tokens(kw), "expected": "identical settings",
                             "observed": "cli: %s | kw: %s" % (show(cres)[:400], show(kwres)[:400]), "failing_input_found": True})
                continue
            for argv in (ctx_argv + ["--%s=%s" % (cli_name(name), v), "pkg:app"], ctx_argv + ["--" + cli_name(name), v, "pkg:app"]):
                cres = R.cli_case("option-cli", argv)
                R.parse_case("parse", argv)
                if cres != kwres:
                    R.violation("cli-kw:%s" % name, "%s: runner form %r gives %s, keyword form %r gives %s" % (
                        name, argv, show(cres)[:200], v, show(kwres)[:200]),
                        {"kind": "cli-vs-kw", "argv": argv, "kw": kw_tokens(kw), "expected": "identical settings",
                         "observed": "cli: %s | kw: %s" % (show(cres)[:400], show(kwres)[:400]), "failing_input_found": True})
        R.flush()
        close_socks()


def group_cli_shapes(R):
    """the pre-parser itself: abbreviations, missing/forbidden arguments, --, help, app handling"""
    shapes = [
        [], ["pkg:app"], ["--help"], ["--help", "pkg:app"], ["--call", "pkg:app"], ["--app=pkg:app"], ["--app", "pkg:app"],
        ["--app=pkg:app", "other"], ["a", "b"], ["--", "pkg:app"], ["--", "--host=x"], ["-", "x"], ["-x", "pkg:app"], ["-h"],
        ["--bogus", "pkg:app"], ["--bogus=1", "pkg:app"], ["--no-threads", "pkg:app"], ["--no-host", "pkg:app"],
        ["--thr=7", "pkg:app"], ["--threads", "pkg:app"], ["--host"], ["--ipv4=1", "pkg:app"], ["--no-ipv4=0", "pkg:app"],
        ["--no-ipv", "pkg:app"], ["--no-e", "pkg:app"], ["--no", "pkg:app"], ["--no-", "pkg:app"], ["--ex", "pkg:app"],
        ["--l", "pkg:app"], ["--li=a:1", "pkg:app"], ["--lo", "pkg:app"], ["--log-s", "pkg:app"], ["--c", "pkg:app"], ["--cal", "pkg:app"],
        ["--he"], ["--h", "x"], ["--ho=h", "pkg:app"], ["--p=1", "pkg:app"], ["--po=1", "pkg:app"],
        ["--no-help", "pkg:app"], ["--no-call", "pkg:app"], ["--no-app", "pkg:app"], ["--help=1"], ["--call=1", "pkg:app"],
        ["--sockets=x", "pkg:app"], ["--sockets", "", "pkg:app"], ["--host=a", "--listen=b:1", "pkg:app"],
        ["--listen=a:1", "--listen=b:2", "pkg:app"], ["--listen", "a:1", "--listen=a:1", "pkg:app"], ["--listen=", "pkg:app"],
        ["--listen=a:1\nb:2", "--listen", " c:3 ", "pkg:app"], ["--listen=a:1", "--port=5", "pkg:app"],
        ["--unix-socket=/x", "--host=a", "pkg:app"], ["--unix-socket=/x", "--unix-socket-perms=644", "pkg:app"],
        ["--port=1", "--port=2", "pkg:app"], ["--ipv4", "--no-ipv4", "pkg:app"], ["--no-ipv4", "--ipv4", "pkg:app"],
        ["--no-ipv4", "--no-ipv6", "--listen=*:80", "pkg:app"] if False else ["--no-ipv6", "--listen=*:80", "pkg:app"],
        ["--host=x", "pkg:app", "--port=1"], ["pkg:app", "--port=1"], ["--port", "--host", "pkg:app"], ["--host=--port=1", "pkg:app"],
        ["--url-prefix", "//a//", "pkg:app"], ["--trusted-proxy-headers=forwarded", "pkg:app"],
        ["--trusted-proxy=*", "--trusted-proxy-headers=forwarded x-forwarded-for", "pkg:app"],
        ["--trusted-proxy=*", "--trusted-proxy-headers=Forwarded", "--trusted-proxy-count=3", "pkg:app"],
        ["--trusted-proxy-count=3", "pkg:app"], ["--help", "--bogus"], ["--help", "--port=x"], ["--port=x", "--help"],
        ["--call", "--app=m:f", "--help"], ["--app=a", "--app=b"], ["--call", "--call", "m:f"],
        ["--listen_x=1", "pkg:app"], ["--trusted_proxy=1", "pkg:app"], ["--trusted-proxy=1", "pkg:app"], ["--=x", "pkg:app"], ["--=", "x"],
    ]
    for argv in shapes:
        R.cli_case("cli-shape", argv)
        R.parse_case("parse", argv)
    R.flush()


def group_cli_random(R, truthy):
    """random multi-option command lines; runner form == the keyword form it denotes"""
    A, tier, rng = R.A, R.ctx.tier, R.ctx.rng
    import gen_adjust
    params = [(n, gen_adjust.CASTS.get(f.__name__, "?")) for n, f in A.Adjustments._params]
    good = {"CInt": ["1", "80", " 7 ", "x", "5_0", "-1"], "COctal": ["600", "0o644", "9"], "CStr": ["h", "", "a b", "::1", "*"],
            "CStrIfTruthy": ["", "1.2.3.4", "*"], "CSlash": ["", "/a/", "b"], "CSet": ["", "forwarded", "x-forwarded-for X-Forwarded-By", "nope"],
            "CList": ["a:1", "a:1 b:2", "*:80", "", "c:3\nd:4", "bad:port", " [::1]:9 "], "CSockets": ["x"]}
    n = 400 if tier == "quick" else 6000
    for _ in range(n):
        k = rng.randint(1, 5)
        argv, kw, order = [], {}, []
        for _ in range(k):
            name, c = rng.choice(params)
            if rng.random() < 0.25:
                name, c = "listen", "CList"
            if c == "CBool":
                val = rng.random() < 0.5
                argv.append("--" + ("" if val else "no-") + cli_name(name))
                v = "true" if val else "false"
            else:
                v = rng.choice(good[c])
                if rng.random() < 0.5:
                    argv.append("--%s=%s" % (cli_name(name), v))
                else:
                    argv += ["--" + cli_name(name), v]
            if name not in kw:
                order.append(name)
                kw[name] = v if name != "listen" else " " + v
            elif name == "listen":
                kw[name] = kw[name] + " " + v
            else:
                kw[name] = v
        argv.append("m:app")
        cres = R.cli_case("cli-random", argv)
        kwl = [(nm, kw[nm]) for nm in order]
        kres = real_construct(A, kwl)
        R.evaluations += 1
        if cres != kres:
            R.violation("cli-kw-multi", "runner form %r gives %s, the keyword form %r gives %s" % (argv, show(cres)[:200], kwl, show(kres)[:200]),
                        {"kind": "cli-vs-kw", "argv": argv, "kw": kw_tokens(kwl), "expected": "identical settings",
                         "observed": "cli: %s | kw: %s" % (show(cres)[:400], show(kres)[:400]), "failing_input_found": True})
    R.flush()


# -- the real runner: waitress.runner.run with _serve replaced (as tests/test_runner.py does) ----

APP_ERRORS = ("Specify an application", "Provide only one WSGI app", "Cannot import WSGI application")


def real_run(A, argv):
    """runner.run(['waitress-serve'] + argv, _serve=shim); the shim does what serve() does first:
    Adjustments(**kw).  -> (outcome shaped like real_cli's, {'kw': what serve() got, 'app': ...} | None)"""
    import io
    import sys
    import waitress.runner as RUN
    got, helps = {}, []

    def shim(app, **kw):
        got["app"], got["kw"] = app, dict(kw)

    old_help, old_path, old_err, old_level = RUN.show_help, list(sys.path), sys.stderr, RUN.logger.level
    RUN.show_help = lambda stream, name, error=None: helps.append(error)
    sys.stderr = io.StringIO()
    try:
        try:
            rc = RUN.run(argv=["waitress-serve"] + list(argv), _serve=shim)
        except Exception as e:                       # run() lets nothing else out on the unchanged tree
            return ("EXN", "run raised " + exn_name(e)), None
    finally:
        RUN.show_help, sys.stderr = old_help, old_err
        sys.path[:] = old_path
        RUN.logger.setLevel(old_level)
    if "kw" in got:
        if rc != 0:
            return ("EXN", "run returned %r after serve()" % (rc,)), got
        try:
            adj = A.Adjustments(**got["kw"])
        except Exception as e:
            return ("EXN", exn_name(e)), got
        return ("OK", real_attrs(A, adj)), got
    if rc == 0 and helps == [None]:
        return ("HELP", None), None
    if rc == 1 and len(helps) == 1 and isinstance(helps[0], str):
        return ("EXN", "AppResolutionError" if helps[0].startswith(APP_ERRORS) else "GetoptError"), None
    return ("EXN", "run returned %r, help calls %r" % (rc, helps)), None


def parse_spec_answer(a):
    """answer of the extracted specification (Spec/AdjustCli.v scan + keyword_form) ->
    ('REFUSED', why) | ('HELP',) | ('APP', 'missing'|'extra') | ('KW', app, call, [(name, python value)], [[name, token]])"""
    w = a.split(" ")
    if w[0] == "REFUSED":
        return ("REFUSED", w[1])
    if w[0] != "OK":
        return ("ERR", a)
    if w[1] == "H1":
        return ("HELP",)
    if w[3] in ("Amissing", "Aextra"):
        return ("APP", w[3][1:])
    app = uncps(w[3][4:])
    kw, toks = [], []
    for t in w[5:]:
        k, _, v = t.partition(":")
        kw.append((uncps(k), dec_token(v)))
        toks.append([uncps(k), v])
    return ("KW", app, w[2] == "C1", kw, toks)


def docs_header_kinds_independent():
    """the double-quoted words between the `trusted_proxy_headers` term of docs/arguments.rst and the
    next blank line (a different reading than the translator's entry splitter)"""
    txt = open(os.path.join(vcommon.REPO, "docs", "arguments.rst"), encoding="utf-8").read()
    m = re.search(r"(?ms)^trusted_proxy_headers[ \t]*\n(.*?)\n[ \t]*\n", txt)
    return re.findall(r'"([^"\s]+)"', m.group(1)) if m else []


class CliTable:
    """the option table as the documentation describes it, from Adjustments._params alone"""

    def __init__(self, A):
        self.entries = [("help", "help", None), ("call", "call", None)]
        for name, fn in A.Adjustments._params:
            o = name.replace("_", "-")
            if fn is A.asbool:
                self.entries += [(o, "on", name), ("no-" + o, "off", name)]
            else:
                self.entries.append((o, "value", name))
        self.entries.append(("app", "app", None))
        self.by_name = {e[0]: e for e in self.entries}

    def resolve(self, typed):
        if typed in self.by_name:
            return self.by_name[typed]
        c = [e for e in self.entries if e[0].startswith(typed)]
        return c[0] if len(c) == 1 else ("unknown" if not c else "ambiguous")

    def spellings(self, name):
        """(typed, resolution) for every prefix of name"""
        return [(name[:i], self.resolve(name[:i])) for i in range(1, len(name) + 1)]


CLI_GOOD = {"CInt": ["1", "80", " 7 ", "5_0", "65535"], "COctal": ["600", "0o644", "7"], "CStr": ["h", "a b", "::1", "*", "127.0.0.1", "/tmp/s", "HTTPS", "Ab.C"],
            "CStrIfTruthy": ["1.2.3.4", "*", "x"], "CSlash": ["/a/", "b", "//c//"], "CSet": ["forwarded", "x-forwarded-for X-Forwarded-By", "X-FORWARDED-PROTO"],
            "CList": ["a:1", "a:1 b:2", "*:80", "c:3\nd:4", " [::1]:9 ", "127.0.0.1:8080"], "CSockets": ["x"]}
CLI_ODD = {"CInt": ["x", "-1", "1.0", "0x1", "+-2", "--3", "=4"], "COctal": ["9", "8", "0b1", "-x"], "CStr": ["-x", "--y", "a=b", "=", "é"],
           "CStrIfTruthy": ["0", "-"], "CSlash": ["/", "-/-"], "CSet": ["nope", "forwarded x-forwarded-for", "x-real-ip", "x_forwarded_for"],
           "CList": ["bad:port", "a:99999", "--port=1", "x:-1"], "CSockets": ["--", "-"]}
CLI_BLANK = ["", "", " ", "\t", "  \n", "\xa0"]
CLI_HOT = ["listen", "host", "port", "unix_socket", "sockets", "trusted_proxy", "trusted_proxy_count", "trusted_proxy_headers",
           "ipv4", "ipv6", "ident", "url_prefix", "unix_socket_perms", "threads"]


def gen_argv(rng, T, castname, stats):
    """one command line.  -> (argv, intent) where intent = ('REFUSED', why) | ('HELP',) | ('APP', 'missing'|'extra')
    | ('KW', app, call, [[name, token]]); built option by option, independently of getopt and of the Coq specification"""
    names = [n for n in castname]
    k = rng.choice([1, 1, 2, 2, 3, 3, 4, 5, 6, 7, 8])
    argv, sets, refusal, helpf, callf, app = [], [], None, False, False, None
    malformed = rng.random() < 0.12
    bad_at = rng.randrange(k) if malformed else -1
    used = []
    for i in range(k):
        r = rng.random()
        if used and r < 0.22:
            name = rng.choice(used)                       # a repeat
            stats["repeat"] = stats.get("repeat", 0) + 1
        elif r < 0.60:
            name = rng.choice(CLI_HOT)
        else:
            name = rng.choice(names)
        used.append(name)
        c = castname[name]
        opt = name.replace("_", "-")
        if i == bad_at:
            kind = rng.choice(["unknown", "ambiguous", "flag-value", "no-value-option", "short", "underscore", "missing"])
            if kind == "unknown":
                w, why = rng.choice(["--bogus", "--bogus=1", "--" + opt + "x", "--Host=h", "--no-help", "--no-app=x", "--no-call"]), "unknown"
            elif kind == "ambiguous":
                amb = [t for n2 in names for t, res in T.spellings(n2.replace("_", "-")) if res == "ambiguous"]
                t = rng.choice(amb + ["", "no-", "n"])
                w, why = "--" + t + (rng.choice(["", "=1"]) if t else "=1"), "ambiguous"
            elif kind == "flag-value":
                b = rng.choice([n2 for n2 in names if castname[n2] == "CBool"]).replace("_", "-")
                w, why = "--" + rng.choice(["", "no-"]) + b + "=" + rng.choice(["1", "true", ""]), "unexpected-value"
            elif kind == "no-value-option":
                v = rng.choice([n2 for n2 in names if castname[n2] != "CBool"]).replace("_", "-")
                w, why = "--no-" + v + rng.choice(["", "=5"]), "unknown"
            elif kind == "short":
                w, why = rng.choice(["-p", "-h", "-x=1", "-port=1", "--help"[1:]]), "short-option"
            elif kind == "underscore" and "_" in name:
                w, why = "--" + name + ("=1" if c != "CBool" else ""), "unknown"
            else:
                v = rng.choice([n2 for n2 in names if castname[n2] != "CBool"]).replace("_", "-")
                argv.append("--" + v)                    # the value is missing: only at the very end
                stats["bad:missing-value"] = stats.get("bad:missing-value", 0) + 1
                return argv, ("REFUSED", "missing-value")
            stats["bad:" + why] = stats.get("bad:" + why, 0) + 1
            argv.append(w)
            if refusal is None:
                refusal = why
            continue
        r = rng.random()
        if r < 0.05:
            typed = rng.choice(["help", "he", "hel"])
            argv.append("--" + typed)
            helpf = True
            continue
        if r < 0.09:
            argv.append("--" + rng.choice(["call", "cal", "ca"]))
            callf = True
            continue
        if r < 0.14:
            app = rng.choice(["m:app", "pkg.mod:obj.attr", "", "-x", "a b"])
            typed = rng.choice(["app", "ap"])
            argv += ["--%s=%s" % (typed, app)] if rng.random() < 0.5 else ["--" + typed, app]
            continue
        # a real adjustment
        if c == "CBool":
            val = rng.random() < 0.5
            full = ("" if val else "no-") + opt
        else:
            val = None
            full = opt
        sp = [t for t, res in T.spellings(full) if not isinstance(res, str) and res[0] == full]
        typed = full if rng.random() < 0.55 else rng.choice(sp)
        if typed != full:
            stats["abbrev"] = stats.get("abbrev", 0) + 1
        if c == "CBool":
            argv.append("--" + typed)
            sets.append((name, "B1" if val else "B0"))
            stats["flag"] = stats.get("flag", 0) + 1
            continue
        r = rng.random()
        v = rng.choice(CLI_BLANK) if r < 0.15 else (rng.choice(CLI_ODD[c]) if r < 0.27 else rng.choice(CLI_GOOD[c]))
        if v.strip() == "":
            stats["blank-value"] = stats.get("blank-value", 0) + 1
        if rng.random() < 0.5:
            argv.append("--%s=%s" % (typed, v))
            stats["eq-form"] = stats.get("eq-form", 0) + 1
        else:
            argv += ["--" + typed, v]
            stats["space-form"] = stats.get("space-form", 0) + 1
        sets.append((name, "S" + cps(v)))
    # the tail: terminator, positional words
    r = rng.random()
    if r < 0.70:
        tail = [rng.choice(["m:app", "pkg:obj", "a.b:c"])]
    elif r < 0.78:
        tail = ["--", rng.choice(["m:app", "--port=1", "-x", "--"])]
    elif r < 0.84:
        tail = []
    elif r < 0.90:
        tail = ["m:app", rng.choice(["extra", "--port=1", "--"])]
    elif r < 0.94:
        tail = ["-"]
    else:
        tail = ["--"]
    argv += tail
    pos = tail[1:] if tail[:1] == ["--"] else tail
    if refusal is not None:
        return argv, ("REFUSED", refusal)
    if helpf:
        return argv, ("HELP",)
    if app is None and pos:
        app, pos = pos[0], pos[1:]
    if app is None:
        return argv, ("APP", "missing")
    if pos:
        return argv, ("APP", "extra")
    order, last, listen = [], {}, []
    for n, tok in sets:
        if n not in last:
            order.append(n)
        last[n] = tok
        if n == "listen":
            listen.append(uncps(tok[1:]))
    if "listen" in last:
        last["listen"] = "S" + cps(" ".join(listen))
    return argv, ("KW", app, callf, [[n, last[n]] for n in order])


CLI_DIRECTED = [
    ["--ident=", "m:app"], ["--ident", "", "m:app"], ["--ident= ", "m:app"], ["--url-scheme=", "m:app"], ["--server-name=", "m:app"],
    ["--listen=", "m:app"], ["--unix-socket=", "m:app"], ["--port=", "m:app"], ["--threads", "", "m:app"], ["--unix-socket-perms=", "m:app"],
    ["--host=", "m:app"], ["--trusted-proxy=", "m:app"], ["--trusted-proxy=", "--trusted-proxy-count=2", "m:app"], ["--url-prefix=", "m:app"],
    ["--unix-socket=", "--port=8081", "m:app"], ["--unix-socket=", "--host=127.0.0.1", "m:app"], ["--unix-socket=", "--listen=127.0.0.1:8081", "m:app"],
    ["--listen=", "--port=8081", "m:app"], ["--listen=", "--unix-socket=/tmp/w.sock", "m:app"], ["--host=", "--listen=127.0.0.1:8081", "m:app"],
    ["--port=", "--unix-socket=/tmp/w.sock", "m:app"], ["--sockets=", "--port=1", "m:app"], ["--sockets=", "m:app"],
    ["--port=1", "--port=2", "--port=3", "m:app"], ["--port=x", "--port=2", "m:app"], ["--port=2", "--port=x", "m:app"],
    ["--ipv4", "--no-ipv4", "--ipv4", "m:app"], ["--no-ipv4", "--no-ipv6", "m:app"], ["--no-ipv6", "--ipv6", "--no-ipv4", "m:app"],
    ["--listen=a:1", "--li", "b:2", "--list=c:3", "m:app"], ["--listen=a:1", "--listen=", "--listen=a:1", "m:app"],
    ["--thr=1", "--threads=2", "--th", "3", "m:app"], ["--trusted-proxy=*", "--trusted-proxy-h=forwarded", "--trusted-proxy-c=2", "m:app"],
    ["--trusted-proxy", "--trusted-proxy-count=2", "m:app"], ["--trusted-proxy=*", "--trusted-proxy-headers=x-real-ip", "m:app"],
    ["--no-threads", "m:app"], ["--no-port=5", "m:app"], ["--no-listen", "a:1", "m:app"], ["--no-ident=", "m:app"],
    ["--expose", "--no-expose", "m:app"], ["--log-s", "--log-u", "--no-log-s", "m:app"], ["--log", "m:app"], ["--no-log", "m:app"],
    ["--clear", "--no-clear-untrusted-proxy-headers", "m:app"], ["--asyncore-u", "--asyncore-l=2", "m:app"], ["--asyncore", "m:app"],
    ["--max-request-h=1", "--max-request-b=2", "m:app"], ["--max=1", "m:app"], ["--outbuf-o=1", "--outbuf-h=2", "--outbuf=3", "m:app"],
    ["--channel-t=1", "--channel-r=2", "--channel=3", "m:app"], ["--unix-socket-p=600", "--unix-socket=/s", "m:app"], ["--unix=/s", "m:app"],
    ["--url-s=https", "--url-p=/x", "--url=1", "m:app"], ["--i=x", "m:app"], ["--id=x", "--in=5", "--ip", "m:app"], ["--s=x", "m:app"],
    ["--se=x", "m:app"], ["--ser=x", "--sen=1", "--so=x", "m:app"], ["--t=1", "m:app"], ["--b=1", "--r=2", "--p=3", "--u=4", "m:app"],
    ["--cl", "m:app"], ["--cle", "--clea=1", "m:app"], ["--co=5", "--c", "m:f"], ["--ca", "--app", "m:f"], ["--app=a", "--app=b", "--ap", "c"],
    ["--app=", "m:app"], ["--app", "", "--port=1"], ["--help", "--port"], ["--port", "--help"], ["--port=1", "--help", "--bogus"],
    ["--port=1", "--", "--help"], ["--port=1", "--", "m:app", "x"], ["--", "--", "m:app"], ["--port=1", "-", "m:app"], ["--port=1", "m:app", "--host=h"],
    ["--host", "--port", "--listen", "m:app"], ["--host=--", "--", "m:app"], ["--port==5", "m:app"], ["--ident==", "m:app"], ["--ident=a=b=c", "m:app"],
]


def group_cli_multi(R):
    """(B) command lines of 1..8 options (repeats, abbreviations, both value forms, blank values, --no-
    forms, listen accumulation, exclusive combinations, help/call/app, terminators, malformed words) through
      (1) the REAL waitress.runner.run with _serve replaced, the shim building Adjustments(**kw) as serve() does,
      (2) the real Adjustments.parse_args followed by Adjustments(**kw),
      (3) the extracted model cli_construct,
      (4) the extracted SPECIFICATION (scan + keyword_form of Spec/AdjustCli.v), whose keyword form is handed to the
          real Adjustments(**kw_equiv),
      (5) the keyword form the generator intended.
    (1) = (2) = (3) = (4); (4)'s keyword form = (5)."""
    A, tier, rng = R.A, R.ctx.tier, R.ctx.rng
    import gen_adjust
    castname = {n: gen_adjust.CASTS.get(f.__name__, "?") for n, f in A.Adjustments._params}
    T = CliTable(A)
    stats = R.cli_stats = {}
    n = 1600 if tier == "quick" else 25000
    cases = [(argv, None) for argv in CLI_DIRECTED]
    # every prefix of every option name, alone
    for full, kind, param in T.entries:
        for typed, res in T.spellings(full):
            if isinstance(res, str):
                argv = ["--" + typed + ("=1" if rng.random() < 0.5 else ""), "m:app"]
            elif res[1] in ("value", "app"):
                argv = ["--" + typed + "=1", "m:app"] if rng.random() < 0.5 else ["--" + typed, "1", "m:app"]
            else:
                argv = ["--" + typed, "m:app"]
            cases.append((argv, None))
            # the resolution itself: specification against the documentation-level table

            def cbr(a, typed=typed, res=res):
                want = res if isinstance(res, str) else "found " + cps(res[0])
                if a != want:
                    R.model_bad.append(("resolve", "--%s: specification resolves to %s, the option table says %s" % (typed, a, want),
                                        {"kind": "resolve", "typed": typed, "model": a, "observed": want}))
            R.ask("resolve " + cps(typed), cbr)
    # per option: --no- on a value option, a value on a flag, --no-no-, the same option twice (last wins), on/off both ways
    for name, c in castname.items():
        o = name.replace("_", "-")
        if c == "CBool":
            for argv, intent in (([("--%s=1" % o), "m:app"], ("REFUSED", "unexpected-value")), (["--no-%s=" % o, "m:app"], ("REFUSED", "unexpected-value")),
                                 (["--no-no-" + o, "m:app"], ("REFUSED", "unknown")),
                                 (["--" + o, "--no-" + o, "m:app"], ("KW", "m:app", False, [[name, "B0"]])),
                                 (["--no-" + o, "--" + o, "m:app"], ("KW", "m:app", False, [[name, "B1"]])),
                                 (["--no-" + o, "--" + o, "--no-" + o, "m:app"], ("KW", "m:app", False, [[name, "B0"]]))):
                cases.append((argv, intent))
        else:
            v1, v2 = CLI_GOOD[c][0], CLI_GOOD[c][-1]
            two = "S" + cps(v1 + " " + v2) if name == "listen" else "S" + cps(v2)
            two_r = "S" + cps(v2 + " " + v1) if name == "listen" else "S" + cps(v1)
            for argv, intent in ((["--no-" + o, "m:app"], ("REFUSED", "unknown")), (["--no-%s=%s" % (o, v1), "m:app"], ("REFUSED", "unknown")),
                                 (["--" + o, "m:app"], ("APP", "missing")),            # m:app is the value
                                 (["--%s=%s" % (o, v1), "--" + o, v2, "m:app"], ("KW", "m:app", False, [[name, two]])),
                                 (["--" + o, v2, "--%s=%s" % (o, v1), "m:app"], ("KW", "m:app", False, [[name, two_r]])),
                                 (["--%s=%s" % (o, v1), "--threads=3", "--%s=%s" % (o, v2), "m:app"],
                                  ("KW", "m:app", False, [[name, two], ["threads", "S51"]] if name != "threads" else [[name, "S" + cps(v2)]]))):
                cases.append((argv, intent))
    for _ in range(n):
        cases.append(gen_argv(rng, T, castname, stats))
    sizes = {}
    for argv, intent in cases:
        nopt = sum(1 for w in argv if w.startswith("--") and w != "--")
        sizes[min(nopt, 9)] = sizes.get(min(nopt, 9), 0) + 1
        run_res, got = real_run(A, argv)
        cli_res = real_cli(A, argv)
        parse_res, parse_kw = real_parse(A, argv)
        R.evaluations += 3
        R.count("cli-multi", run_res[0] if run_res[0] in ("OK", "HELP") else run_res[1])
        if run_res[0] == "OK":
            R.nontrivial.add(("run", repr(argv)))
        rep = {"argv": list(argv), "failing_input_found": True}
        if run_res != cli_res:
            R.violation("run-vs-parse_args", "runner.run(%r) gives %s, Adjustments(**parse_args(argv)) gives %s" % (argv, show(run_res)[:200], show(cli_res)[:200]),
                        dict(rep, kind="run-vs-parse", expected="what Adjustments(**parse_args(argv)) gives: " + show(cli_res)[:600],
                             observed="runner.run: %s ; serve() got %r" % (show(run_res)[:600], None if got is None else got["kw"])))
        if got is not None and parse_kw is not None:
            want_kw = {k: v for k, v in parse_kw.items() if k not in ("help", "app")}
            if got["kw"] != want_kw or got["app"] is not parse_kw.get("app") and not (
                    isinstance(got["app"], AppMarker) and isinstance(parse_kw.get("app"), AppMarker)
                    and (got["app"].name, got["app"].call) == (parse_kw["app"].name, parse_kw["app"].call)):
                R.violation("run-serve-kw", "runner.run(%r) handed serve() %r, parse_args gave %r" % (argv, got["kw"], want_kw),
                            dict(rep, kind="run-serve-kw", expected=repr(want_kw)[:600], observed=repr(got["kw"])[:600]))
        R.cli_case("cli-multi-model", argv, real=cli_res)

        def cb(a, argv=argv, intent=intent, run_res=run_res, got=got):
            sp = parse_spec_answer(a)
            if sp[0] == "ERR":
                R.model_bad.append(("spec", "spec %r -> %s" % (argv, a[:200]), {"kind": "spec", "argv": list(argv), "model": a[:500]}))
                return
            if intent is not None:
                si = sp if sp[0] != "KW" else ("KW", sp[1], sp[2], sp[4])
                if si != intent:
                    R.model_bad.append(("spec-intent", "%r: the specification reads %r, the generator meant %r" % (argv, si, intent),
                                        {"kind": "spec", "argv": list(argv), "model": repr(si)[:800], "observed": repr(intent)[:800]}))
            if sp[0] == "REFUSED":
                want = ("EXN", "GetoptError")
                kwl = None
            elif sp[0] == "HELP":
                want, kwl = ("HELP", None), None
            elif sp[0] == "APP":
                want, kwl = ("EXN", "AppResolutionError"), None
            else:
                kwl = sp[3]
                want = real_construct(A, kwl)
                R.evaluations += 1
                if got is not None and (got["app"].name, got["app"].call) != (sp[1], sp[2]):
                    R.violation("run-app", "runner.run(%r) resolves application %r (call=%s), the specification says %r (call=%s)" % (
                        argv, got["app"].name, got["app"].call, sp[1], sp[2]),
                        {"kind": "run-app", "argv": list(argv), "expected": "%r call=%s" % (sp[1], sp[2]),
                         "observed": "%r call=%s" % (got["app"].name, got["app"].call), "failing_input_found": True})
            if run_res != want:
                what = ("the keyword form %r gives %s" % (kwl, show(want)[:200])) if kwl is not None else ("the specification says %s (%s)" % (show(want), a[:60]))
                R.violation("run-vs-keyword", "runner.run(%r) gives %s, %s" % (argv, show(run_res)[:200], what),
                            {"kind": "run-vs-kw", "argv": list(argv), "kw": None if kwl is None else kw_tokens(kwl),
                             "expected": show(want)[:800], "observed": show(run_res)[:800], "failing_input_found": True})
        if R.runner is None and intent is not None:
            # no extracted specification (the translator refused the source, or a proof input is absent):
            # the keyword form the generator intended stands in for it
            if intent[0] == "KW":
                a = "OK H0 C%s Ais:%s N0 %s" % ("1" if intent[2] else "0", cps(intent[1]), " ".join("%s:%s" % (cps(k), t) for k, t in intent[3]))
            else:
                a = {"REFUSED": "REFUSED " + intent[-1], "HELP": "OK H1 C0 Amissing N0", "APP": "OK H0 C0 A%s N0" % intent[-1]}[intent[0]]
            cb(a.rstrip(), intent=None)
            continue
        R.ask(("spec " + " ".join(cps(x) for x in argv)).rstrip(), cb)
        if len(R.q) > 4000:
            R.flush()
    R.flush()
    stats["options_per_argv"] = {str(k): v for k, v in sorted(sizes.items())}
    stats["cases"] = len(cases)


HEADER_CANDIDATES = ["x-real-ip", "x-forwarded-server", "x-forwarded-scheme", "x-forwarded-ssl", "x-forwarded-prefix", "x-forwarded-path",
                     "x-forwarded", "x-forwarded-", "forwarded-for", "forwarded-host", "x-client-ip", "via", "host", "x-forwarded-protocol",
                     "x-forwarded_for", "xforwardedfor", "true-client-ip", "cf-connecting-ip", "x-original-forwarded-for", "x-scheme", "forward"]
PROPERTY_HEADER_KINDS = ["forwarded", "x-forwarded-host", "x-forwarded-for", "x-forwarded-proto", "x-forwarded-port", "x-forwarded-by"]


def group_header_kinds(R):
    """accepted header kinds against an INDEPENDENT list: the six that docs/arguments.rst names (read here, not taken
    from the implementation) -- which must also be the six the property names"""
    A = R.A
    documented = docs_header_kinds_independent()
    R.evaluations += 1
    if sorted(documented) != sorted(PROPERTY_HEADER_KINDS):
        R.violation("header-kinds-docs", "docs/arguments.rst names the header kinds %s, the property names %s" % (sorted(documented), sorted(PROPERTY_HEADER_KINDS)),
                    {"kind": "header-docs", "expected": sorted(PROPERTY_HEADER_KINDS), "observed": sorted(documented), "failing_input_found": True})
    impl = set(A.KNOWN_PROXY_HEADERS)
    try:
        from waitress.proxy_headers import PROXY_HEADERS
        impl |= {h.lower().replace("_", "-") for h in PROXY_HEADERS}
    except Exception:  # pragma: no cover
        pass
    pool = sorted(set(HEADER_CANDIDATES) | impl | set(PROPERTY_HEADER_KINDS) | set(documented))
    for h in pool:
        for form in sorted({h, h.upper(), h.title()}):
            want_ok = form.lower() in PROPERTY_HEADER_KINDS
            kw = [("trusted_proxy", "*"), ("trusted_proxy_headers", form)]
            kres = R.kw_case("header-kind", kw)
            argv = ["--trusted-proxy=*", "--trusted-proxy-headers=" + form, "m:app"]
            rres, _ = real_run(A, argv)
            R.evaluations += 1
            for what, res in (("keyword form", kres), ("runner form", rres)):
                accepted = res[0] == "OK"
                if accepted != want_ok or (not accepted and res != ("EXN", "ValueError")):
                    R.violation("header-kind:%s" % form.lower(),
                                "trusted_proxy_headers=%r (%s): %s; the documented header kinds are %s" % (
                                    form, what, ("ACCEPTED, trusted_proxy_headers=%s" % res[1].get("trusted_proxy_headers")) if accepted else show(res),
                                    ", ".join(PROPERTY_HEADER_KINDS)),
                                {"kind": "header-kind", "header": form, "kw": kw_tokens(kw), "argv": argv,
                                 "expected": "accepted" if want_ok else "EXN ValueError", "observed": show(res)[:400], "failing_input_found": True})
    R.flush()


def doc_literal_value(lit):
    """a documented default as written -> ('none'|'bool'|'list'|'text', python value)"""
    lit = lit.strip()
    if lit == "None":
        return ("none", None)
    if lit in ("True", "False"):
        return ("bool", lit == "True")
    if lit == "[]":
        return ("list", [])
    if len(lit) >= 2 and lit[0] == lit[-1] and lit[0] in "'\"":
        lit = lit[1:-1]
    return ("text", lit)


def group_doc_defaults(R):
    """(C) every default that docs/arguments.rst, runner.HELP and docs/runner.rst state, against the attribute of the
    real Adjustments() built without arguments (a literal other than None/True/False/[] goes through the parameter's
    cast, as a user would pass it); the generated tables against the same reading; the generated class defaults
    against the real class attributes"""
    A = R.A
    import gen_adjust
    adj = A.Adjustments()
    pmap = dict(A.Adjustments._params)
    es = gen_adjust.rst_entries(os.path.join(vcommon.REPO, "docs", "arguments.rst"), r"([a-z][a-z0-9_]*)")
    sources = [("docs", "docs/arguments.rst", [(m.group(1), b) for m, b in es]),
               ("help", "runner.HELP", [(n.replace("-", "_"), b) for n, b in gen_adjust.help_entries()]),
               ("runner_rst", "docs/runner.rst", [(n.replace("-", "_"), b) for n, b in gen_adjust.runner_rst_entries()])]
    R.doc_rows = {}
    for key, what, entries in sources:
        rows = []
        for name, body in entries:
            text = " ".join(l.strip() for l in body if l.strip())
            for lit in gen_adjust.defaults_in_text(text):
                if (name, lit) not in rows:
                    rows.append((name, lit))
        R.doc_rows[what] = len(rows)
        toks = []
        for name, lit in rows:
            R.evaluations += 1
            kind, val = doc_literal_value(lit)
            toks.append("%s:%s" % (cps(name), {"none": "N", "bool": "B1" if val else "B0", "list": "K"}.get(kind) or ("S" + cps(val))))
            if name not in pmap:
                R.violation("docs-default-unknown:%s" % name, "%s states a default for %r, which is not an adjustment" % (what, name),
                            {"kind": "docs-default", "source": what, "name": name, "literal": lit, "expected": "an adjustment", "observed": "none",
                             "failing_input_found": True})
                continue
            actual = getattr(adj, name)
            try:
                doc_val = pmap[name](val) if kind == "text" else val
                ok = canon_setting(name, doc_val) == canon_setting(name, actual)
            except Exception as e:
                doc_val, ok = "EXN " + exn_name(e), False
            if not ok:
                R.violation("docs-default:%s:%s" % (key, name),
                            "%s states that %s defaults to %s; Adjustments().%s is %r" % (what, name, lit, name, actual),
                            {"kind": "docs-default", "source": what, "name": name, "literal": lit, "expected": "%r" % (actual,),
                             "observed": "documented %s" % lit, "failing_input_found": True})

        def cb(a, toks=toks, what=what):
            if a.split(" ") != toks and not (a == "" and not toks):
                R.model_bad.append(("doc-defaults", "defaults of %s: generated %s, read here %s" % (what, a[:300], " ".join(toks)[:300]),
                                    {"kind": "table", "table": "doc-defaults " + what, "model": a[:1500], "observed": " ".join(toks)[:1500]}))
        R.ask("docdefaults " + key, cb)
    # generated class defaults against the real class attributes

    def cbc(a):
        got = dict(t.split(":", 1) for t in a.split(" ")) if a else {}
        for name, _ in A.Adjustments._params:
            v = getattr(A.Adjustments, name)
            want = ("N" if v is None else ("B1" if v is True else "B0" if v is False else "I" + dec(int(v)) if isinstance(v, int)
                    else "S" + cps(str(v)) if isinstance(v, str) else "K" if v == [] else "T" if v == set()
                    else "HP" if v == ["%s:%s" % (A.Adjustments.host, A.Adjustments.port)] else "?" + repr(v)))
            if got.get(cps(name)) != want:
                R.model_bad.append(("class-defaults", "class default of %s: generated %s, imported %s" % (name, got.get(cps(name)), want),
                                    {"kind": "table", "table": "class-defaults", "model": str(got.get(cps(name))), "observed": want}))
    R.ask("classdefaults", cbc)
    for w in ("docs", "help", "rst"):
        def cbh(a, w=w):
            got = sorted(uncps(x) for x in a.split(";")) if a else []
            if got != sorted(docs_header_kinds_independent()) and w == "docs":
                R.model_bad.append(("doc-headers", "header kinds of arguments.rst: generated %s, read here %s" % (got, sorted(docs_header_kinds_independent())),
                                    {"kind": "table", "table": "doc-headers", "model": got, "observed": sorted(docs_header_kinds_independent())}))
        R.ask("dochdrs " + w, cbh)
    R.flush()


def group_unknown(R):
    for name in ["bogus", "Host", "host ", " host", "no_ipv4", "app", "help", "call", "HOST", "listen_", "socket", "_params", "trusted-proxy", ""]:
        for v in ("x", 1, None):
            kw = [(name, v)]
            real = R.kw_case("unknown", kw)
            if real != ("EXN", "ValueError"):
                R.violation("unknown-name-accepted", "unknown adjustment %r: %s" % (name, show(real)[:100]),
                            {"kind": "kw", "kw": kw_tokens(kw), "expected": "EXN ValueError", "observed": show(real)[:500],
                             "failing_input_found": True})
    R.flush()


class _DummySock:
    def setblocking(self, b):
        pass

    def fileno(self):
        return 987

    def getpeername(self):
        return ("127.0.0.1", 0)

    def getsockname(self):
        return ("127.0.0.1", 0)

    def setsockopt(self, *a):
        pass

    def getsockopt(self, *a):
        return 0

    def close(self):
        pass

    def listen(self, n):
        pass


class _DummyDispatcher:
    def set_thread_count(self, n):
        pass

    def shutdown(self, *a, **k):
        pass


def real_middleware(A, kw):
    """-> (adj, is the application wrapped by proxy_headers_middleware?)"""
    from waitress.server import TcpWSGIServer
    adj = A.Adjustments(**kw)
    app = object()
    srv = TcpWSGIServer(app, map={}, _start=False, _sock=_DummySock(), dispatcher=_DummyDispatcher(), adj=adj,
                        sockinfo=(socket.AF_INET, socket.SOCK_STREAM, 6, ("127.0.0.1", 0)), bind_socket=False)
    installed = srv.application is not app
    try:
        srv.trigger.close()
    except Exception:
        pass
    return adj, installed


def group_middleware(R):
    """server.py: the proxy-headers middleware is installed iff trusted_proxy or clear_untrusted_proxy_headers"""
    from waitress.server import TcpWSGIServer
    for tp in (None, "", "10.1.1.1", "*"):
        for clear in (True, False, None):
            kw = {}
            if tp is not None:
                kw["trusted_proxy"] = tp
            if clear is not None:
                kw["clear_untrusted_proxy_headers"] = clear
            adj, installed = real_middleware(R.A, kw)
            R.evaluations += 1
            tp_truthy = bool(adj.trusted_proxy)
            cl = bool(adj.clear_untrusted_proxy_headers)
            if tp_truthy and not installed:
                R.violation("middleware-missing", "trusted_proxy=%r but the proxy-headers middleware is not installed" % tp,
                            {"kind": "middleware", "kw": [[k, enc_value(v)] for k, v in kw.items()], "expected": "installed",
                             "observed": "not installed", "failing_input_found": True})

            def cb(a, installed=installed, kw=kw):
                if (a == "1") != installed:
                    R.model_bad.append(("middleware", "install condition on %r: model %s, implementation %s" % (kw, a, installed),
                                        {"kind": "middleware", "kw": [[k, enc_value(v)] for k, v in kw.items()], "model": a, "observed": str(installed)}))
            R.ask("mw %s%s" % ("1" if tp_truthy else "0", "1" if cl else "0"), cb)
    R.flush()


def group_tables(R):
    """generated tables against the imported module and an independent reading of the docs"""
    A = R.A
    import gen_adjust
    notes = []

    def expect(cmd, want, what, split=";"):
        def cb(a):
            got = [uncps(x) for x in a.split(split)] if a else []
            if got != want:
                R.model_bad.append(("tables", "%s: generated %s, independent reading %s" % (what, got, want),
                                    {"kind": "table", "table": what, "model": got, "observed": want}))
        R.ask(cmd, cb)
    expect("docs", docs_names_independent(), "option names in docs/arguments.rst")
    expect("truthy", sorted(A.truthy), "truthy")
    expect("known", sorted(A.KNOWN_PROXY_HEADERS), "KNOWN_PROXY_HEADERS")

    def cb_help(a):
        got = [uncps(t.split(":")[0]) for t in a.split(" ")] if a else []
        want = help_names_independent()
        if got != want:
            R.model_bad.append(("tables", "HELP options: generated %s, independent reading %s" % (got, want),
                                {"kind": "table", "table": "help", "model": got, "observed": want}))
    R.ask("help", cb_help)

    def cb_params(a):
        got = [(uncps(t.split(":")[0]), t.split(":")[1]) for t in a.split(" ")] if a else []
        want = [(n, gen_adjust.CASTS.get(f.__name__, "?" + f.__name__)) for n, f in A.Adjustments._params]
        if got != want or dict(A.Adjustments._params) != A.Adjustments._param_map:
            R.model_bad.append(("tables", "_params: generated %s, imported %s" % (got, want),
                                {"kind": "table", "table": "params", "model": got, "observed": want}))
    R.ask("params", cb_params)
    # the long option list the real parse_args hands to getopt
    seen = {}
    old = getopt.getopt

    def spy(args, shortopts, longopts=[]):
        seen["long"] = list(longopts)
        seen["short"] = shortopts
        return old(args, shortopts, longopts)
    getopt.getopt = spy
    try:
        A.Adjustments.parse_args(["--help"])
    finally:
        getopt.getopt = old
    expect("longopts", seen.get("long", []), "long_opts handed to getopt")
    if seen.get("short") != "":
        R.model_bad.append(("tables", "short options are %r, the model assumes none" % seen.get("short"), {"kind": "table", "table": "shortopts"}))
    for name, _ in A.Adjustments._params:
        for s, cmd, want in ((name, "mangle", name.replace("_", "-")), ("--" + name.replace("_", "-"), "unmangle", ("--" + name.replace("_", "-")).lstrip("-").replace("-", "_")),
                             ("--no-" + name.replace("_", "-"), "unmangle", ("no-" + name.replace("_", "-")).replace("-", "_"))):
            def cb(a, s=s, cmd=cmd, want=want):
                if uncps(a) != want:
                    R.model_bad.append(("tables", "%s(%r): generated %r, Python %r" % (cmd, s, uncps(a), want), {"kind": "table", "table": cmd}))
            R.ask("%s %s" % (cmd, cps(s)), cb)
    # str.lower() on everything outside latin-1 never lands on an ASCII letter the model compares with
    bad = [c for c in range(256, 0x110000) if any(ord(x) < 128 for x in chr(c).lower())]
    letters = set("".join(sorted(A.truthy)) + "".join(sorted(A.KNOWN_PROXY_HEADERS)))
    for c in bad:
        if set(chr(c).lower()) & letters:
            R.model_bad.append(("tables", "str.lower() maps U+%04X onto a letter used by truthy / KNOWN_PROXY_HEADERS; the model lower-cases latin-1 only" % c,
                                {"kind": "table", "table": "lower"}))
    # splitlines
    alpha = "a\n\r\x0b\x0c\x1c\x1d\x1e\x1f\x85   "
    strs = ["".join(t) for k in range(0, 4) for t in itertools.product(alpha, repeat=k)]
    for s in strs:
        def cb(a, s=s):
            want = "L" + ";".join(cps(x) for x in s.splitlines())
            if a != want:
                R.model_bad.append(("tables", "splitlines(%r): model %s, Python %s" % (s, a, want), {"kind": "table", "table": "splitlines"}))
        R.ask("splitlines " + cps(s), cb)
        R.evaluations += 1
    R.flush()
    return notes


def group_hostport_defaults(R):
    """host / port given without listen; the documented defaults the model reads"""
    cases = [([], "0.0.0.0", 8080), ([("host", "10.1.2.3")], "10.1.2.3", 8080), ([("port", 9)], "0.0.0.0", 9),
             ([("port", "9")], "0.0.0.0", 9), ([("host", "10.1.2.3"), ("port", 81)], "10.1.2.3", 81),
             ([("port", 81), ("host", "::1")], "::1", 81), ([("host", "h"), ("threads", 2)], "h", 8080)]
    for kw, h, p in cases:
        real = R.kw_case("hostport", kw)
        want = "A%s%s@%d" % ("1" if ":" in h else "0", cps(h), p)
        got = real[1].get("listen") if real[0] == "OK" else show(real)
        if got != want:
            R.violation("hostport:%s" % "+".join(k for k, _ in kw),
                        "Adjustments(%s) listens on %s, documented: %s:%d" % (", ".join("%s=%r" % kv for kv in kw), got, h, p),
                        {"kind": "kw", "kw": kw_tokens(kw), "expected": "listen " + want, "observed": "listen " + str(got)[:300],
                         "failing_input_found": True})
    # documented proxy defaults: count 1; x-forwarded-proto when a proxy is trusted without headers
    for kw, wc, wh in [([("trusted_proxy", "10.0.0.9")], "I1", "T" + cps("x-forwarded-proto")),
                       ([("trusted_proxy", "*"), ("trusted_proxy_headers", "forwarded")], "I1", "T" + cps("forwarded")),
                       ([("trusted_proxy", "*"), ("trusted_proxy_count", 3)], "I3", "T" + cps("x-forwarded-proto")),
                       ([], "I1", "T")]:
        real = R.kw_case("proxy-defaults", kw)
        got = (real[1].get("trusted_proxy_count"), real[1].get("trusted_proxy_headers")) if real[0] == "OK" else (show(real), "")
        if got != (wc, wh):
            R.violation("proxy-defaults:%d" % len(kw), "Adjustments(%s): trusted_proxy_count/headers %s, documented %s" % (
                ", ".join("%s=%r" % kv for kv in kw), got, (wc, wh)),
                {"kind": "kw", "kw": kw_tokens(kw), "expected": "count %s headers %s" % (wc, wh), "observed": "count %s headers %s" % got,
                 "failing_input_found": True})
    R.flush()


def group_truthy(R):
    """asbool: exactly t / true / y / yes / on / 1 (any case, surrounding whitespace) are true"""
    A = R.A
    yes = ["t", "true", "y", "yes", "on", "1"]
    no = ["", "f", "false", "n", "no", "off", "0", "2", "tr", "ye", "o", "ok", "enable", "truee", "t rue", "11", "yes1", "on "[:2] + "n"]
    for w in yes + no:
        for form in {w, w.upper(), w.capitalize(), " " + w, w + "\n", "\t" + w.upper() + " "}:
            want = w in yes
            R.evaluations += 1
            try:
                got = A.asbool(form)
            except Exception as e:
                got = "EXN " + exn_name(e)
            if got is not want:
                R.violation("asbool:%s" % w, "asbool(%r) = %r, documented %r" % (form, got, want),
                            {"kind": "asbool", "value": enc_value(form), "expected": str(want), "observed": str(got), "failing_input_found": True})


def group_docs(R):
    """documented option names against the implemented ones, read directly"""
    A = R.A
    names = [n for n, _ in A.Adjustments._params]
    docs = docs_names_independent()
    helpn = help_names_independent()
    for n in names:
        R.evaluations += 1
        if n not in docs:
            R.violation("docs-missing:%s" % n, "adjustment %r is not documented in docs/arguments.rst" % n,
                        {"kind": "docs", "name": n, "expected": "a definition-list entry in docs/arguments.rst", "observed": "none",
                         "failing_input_found": True})
        if n != "sockets" and n.replace("_", "-") not in helpn:
            R.violation("help-missing:%s" % n, "adjustment %r has no --%s entry in runner.HELP" % (n, n.replace("_", "-")),
                        {"kind": "docs", "name": n, "expected": "--%s in runner.HELP" % n.replace("_", "-"), "observed": "none",
                         "failing_input_found": True})
    for d in docs:
        if d not in names:
            R.violation("docs-unknown:%s" % d, "docs/arguments.rst documents %r, which is not an adjustment" % d,
                        {"kind": "docs", "name": d, "expected": "an entry of Adjustments._params", "observed": "none", "failing_input_found": True})
    for h in helpn:
        if h.replace("-", "_") not in names + ["help", "call", "app"] or "_" in h:
            R.violation("help-unknown:%s" % h, "runner.HELP documents --%s, which the pre-parser does not accept" % h,
                        {"kind": "docs", "name": h, "expected": "a long option of parse_args", "observed": "none", "failing_input_found": True})


def run_all(ctx, runner):
    import sys
    sys.path.insert(0, os.path.join(vcommon.VERIF, "translate"))
    with stubs() as A:
        R = Run(ctx, runner, A)
        names = []
        if runner is not None:
            try:
                names = [uncps(x) for x in runner.query(["exclnames"])[0].split(";")]
            except Exception as e:  # pragma: no cover
                ctx.notes.append("exclnames query failed: %r" % (e,))
        subsets = group_excl(R, names)
        R.flush()
        group_proxy(R)
        R.flush()
        group_sockets(R)
        group_families(R)
        R.flush()
        group_unknown(R)
        group_hostport_defaults(R)
        group_truthy(R)
        group_docs(R)
        group_values(R, set(A.truthy))
        group_cli_shapes(R)
        group_cli_random(R, set(A.truthy))
        group_cli_multi(R)
        group_header_kinds(R)
        group_doc_defaults(R)
        group_middleware(R)
        group_tables(R)
        R.flush()
        close_socks()
    R.subsets = subsets
    return R


def replay_one(data):
    """re-run one replay dict on the real code; 0 if it no longer fails"""
    with stubs() as A:
        kind = data.get("kind")
        if kind in ("kw", "families"):
            kw = [(k, dec_token(t)) for k, t in data["kw"]]
            if kind == "families":
                calls = []
                old = socket.getaddrinfo

                def spy(*a, **k):
                    calls.append(int(a[2]))
                    return old(*a, **k)
                socket.getaddrinfo = spy
                try:
                    real = real_construct(A, kw)
                finally:
                    socket.getaddrinfo = old
                now = "families %s" % sorted(set(calls))
                print("kw=%r -> %s (%s)" % (kw, show(real)[:200], now))
                return 1 if now == data.get("observed") else 0
            real = real_construct(A, kw)
            now = "EXN ValueError" if real == ("EXN", "ValueError") else ("accepted" if real[0] == "OK" else show(real))
            print("Adjustments(**%r) -> %s ; expected %s" % (kw, show(real)[:300], data.get("expected")))
            return 0 if now == data.get("expected") else 1
        if kind == "cli-vs-kw":
            kw = [(k, dec_token(t)) for k, t in data["kw"]]
            c = real_cli(A, data["argv"])
            k = real_construct(A, kw)
            print("runner form %r -> %s\nkeyword form %r -> %s" % (data["argv"], show(c)[:400], kw, show(k)[:400]))
            return 0 if c == k else 1
        if kind == "cli":
            c = real_cli(A, data["argv"])
            print("runner form %r -> %s ; model said %s" % (data["argv"], show(c)[:400], data.get("model")))
            return 0 if show(c)[:2000] != data.get("observed") else 1
        if kind == "cli-accept":
            c = real_cli(A, data["argv"])
            now = "EXN ValueError" if c == ("EXN", "ValueError") else ("accepted" if c[0] == "OK" else show(c))
            print("runner form %r -> %s ; expected %s" % (data["argv"], show(c)[:300], data.get("expected")))
            return 0 if now == data.get("expected") else 1
        if kind == "middleware":
            kw = {k: dec_token(t) for k, t in data["kw"]}
            adj, installed = real_middleware(A, kw)
            print("Adjustments(**%r): trusted_proxy=%r, middleware installed=%s" % (kw, adj.trusted_proxy, installed))
            return 0 if (installed or not adj.trusted_proxy) else 1
        if kind == "docs":
            import importlib
            n = data["name"]
            names = [x for x, _ in A.Adjustments._params]
            ok = True
            if "arguments.rst" in data.get("expected", ""):
                ok = n in docs_names_independent()
            elif "runner.HELP" in data.get("expected", ""):
                ok = n.replace("_", "-") in help_names_independent()
            elif "_params" in data.get("expected", ""):
                ok = n in names
            else:
                ok = n.replace("-", "_") in names + ["help", "call", "app"] and "_" not in n
            print("documentation entry %r: %s" % (n, "present/consistent now" if ok else "still inconsistent"))
            return 0 if ok else 1
        if kind == "asbool":
            v = dec_token(data["value"])
            got = str(A.asbool(v))
            print("asbool(%r) = %s ; expected %s" % (v, got, data.get("expected")))
            return 0 if got == data.get("expected") else 1
        if kind == "cast":
            import gen_adjust
            v = dec_token(data["value"])
            fn = [f for n, f in A.Adjustments._params if gen_adjust.CASTS.get(f.__name__) == data["cast"]]
            try:
                r = canon_setting("sockets" if data["cast"] == "CSockets" else data["cast"], fn[0](py_value(v)))
            except Exception as e:
                r = "EXN " + exn_name(e)
            print("%s(%r) = %s ; the model says %s" % (data["cast"], v, r, data.get("model")))
            return 0 if r == canon_model_token(data.get("model", "")) else 1
        if kind == "parse":
            r, _ = real_parse(A, data["argv"])
            print("parse_args(%r) -> %s ; the model says %s" % (data["argv"], show(r)[:400], data.get("model")))
            return 0 if show(r)[:2000] != data.get("observed") else 1
        if kind in ("run-vs-parse", "run-serve-kw"):
            r, got = real_run(A, data["argv"])
            c = real_cli(A, data["argv"])
            _, pk = real_parse(A, data["argv"])
            want_kw = None if pk is None else {k: v for k, v in pk.items() if k not in ("help", "app")}
            print("runner.run(%r) -> %s ; serve() got %r\nAdjustments(**parse_args(argv)) -> %s ; parse_args gave %r" % (
                data["argv"], show(r)[:400], None if got is None else got["kw"], show(c)[:400], want_kw))
            return 0 if r == c and (got is None or got["kw"] == want_kw) else 1
        if kind == "run-vs-kw":
            r, got = real_run(A, data["argv"])
            if data.get("kw") is None:
                print("runner.run(%r) -> %s ; expected %s" % (data["argv"], show(r)[:400], data.get("expected")))
                return 0 if show(r)[:800] == data.get("expected") else 1
            kw = [(k, dec_token(t)) for k, t in data["kw"]]
            k = real_construct(A, kw)
            print("runner.run(%r) -> %s\nkeyword form %r -> %s" % (data["argv"], show(r)[:400], kw, show(k)[:400]))
            return 0 if r == k else 1
        if kind == "run-app":
            r, got = real_run(A, data["argv"])
            now = None if got is None else "%r call=%s" % (got["app"].name, got["app"].call)
            print("runner.run(%r) resolves %s ; expected %s" % (data["argv"], now, data.get("expected")))
            return 0 if now == data.get("expected") else 1
        if kind == "header-kind":
            kw = [(k, dec_token(t)) for k, t in data["kw"]]
            k = real_construct(A, kw)
            r, _ = real_run(A, data["argv"])
            def cls(x):
                return "accepted" if x[0] == "OK" else show(x)
            print("trusted_proxy_headers=%r: keyword form %s, runner form %s ; expected %s" % (data["header"], cls(k), cls(r), data.get("expected")))
            return 0 if cls(k) == cls(r) == data.get("expected") else 1
        if kind == "header-docs":
            now = sorted(docs_header_kinds_independent())
            print("docs/arguments.rst names %s ; the property names %s" % (now, data.get("expected")))
            return 0 if now == data.get("expected") else 1
        if kind == "docs-default":
            import gen_adjust
            name, lit = data["name"], data["literal"]
            pmap = dict(A.Adjustments._params)
            if name not in pmap:
                print("%s is not an adjustment" % name)
                return 1
            k2, val = doc_literal_value(lit)
            actual = getattr(A.Adjustments(), name)
            try:
                ok = canon_setting(name, pmap[name](val) if k2 == "text" else val) == canon_setting(name, actual)
            except Exception:
                ok = False
            # is the statement still in the document?
            src = data.get("source", "")
            if src == "runner.HELP":
                entries = [(n.replace("-", "_"), b) for n, b in gen_adjust.help_entries()]
            elif src == "docs/runner.rst":
                entries = [(n.replace("-", "_"), b) for n, b in gen_adjust.runner_rst_entries()]
            else:
                entries = [(m.group(1), b) for m, b in gen_adjust.rst_entries(os.path.join(vcommon.REPO, "docs", "arguments.rst"), r"([a-z][a-z0-9_]*)")]
            still = any(n == name and lit in gen_adjust.defaults_in_text(" ".join(l.strip() for l in b if l.strip())) for n, b in entries)
            print("%s %s: documented default %s ; Adjustments().%s = %r" % (src, "still states" if still else "no longer states", lit, name, actual))
            return 1 if (still and not ok) else 0
        print("replay kind %r: re-run ./check C20" % kind)
        return 1
