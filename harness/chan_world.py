"""A closed world around ONE real HTTPChannel for deterministic schedule
exploration: the real HTTPChannel, the real ThreadedTaskDispatcher (worker
pool), the real wasyncore.poll / poll2 loop, a scripted client socket and a
scripted WSGI application, all running as logical threads of
harness/sched.py.  Nothing in /repo is modified: module globals (threading,
time, select) of the imported waitress modules are replaced for the duration
of a case.

Logical threads
  io        while map: wasyncore.poll(...)   (blocks in the fake select until a
            descriptor is ready or the trigger was pulled: no poll timeout exists)
  waitress-N  the pool's handler_thread (created by the real set_thread_count)
  client    performs the client script: ("send", bytes) | ("close",) | ("stall",)
            | ("resume",) | ("wait_wire", nbytes)  one labelled step each

Labelled operations (yield points) in addition to those of fake_threading:
  select       enabled iff some polled descriptor is ready or the trigger is pulled
  sock_send    the channel calls socket.send(data): result from the socket's
               plan (bytes accepted / errno), recorded in world.wire
  sock_recv    socket.recv
  pull_trigger server.pull_trigger()
  client:*     the client's steps
  R:<attr> / W:<attr>   (granularity="attrs") every read / write of a shared
               channel attribute listed in SHARED

Semantic events are recorded with sched.note(kind, detail) and end up in
world.sched.events next to the labelled operations:
  service_start <req path>   first statement of HTTPChannel.service()
  service_end   <req path>
  app_call      <req path>   the WSGI application is entered
  decide        (attr, thread)  will_close / close_when_flushed set True, or
                connected set False (only the first of each is noted)
  close         thread name  wasyncore.dispatcher.close() / socket.close()
  map_del       thread name  the channel leaves the socket map
  wire          hex of the bytes a send() accepted

A schedule (list of ints) replays a case exactly; World.run returns the
scheduler verdict ("finished" / "blocked" = quiescent / "overrun").
"""
import errno
import os

from harness.sched import Scheduler, Op, ThreadKilled
from harness.fake_threading import FakeThreading, FakeTime, patched

SHARED = frozenset({
    "requests", "request", "will_close", "close_when_flushed", "connected", "total_outbufs_len",
    "current_outbuf_count", "sent_continue", "last_activity", "outbufs",
})

CHAN_FD = 7
TRIG_FD = 5


class ScriptSock:
    """The accepted connection's socket.  send_plan: list consumed one entry
    per send(): int n (accept at most n bytes), None (accept all),
    ("err", errno).  recv_plan likewise may inject ("err", errno) before data.
    When the plan is exhausted sends accept everything."""

    def __init__(self, world, send_plan=(), recv_faults=None, sndbuf=1 << 16, setup_faults=None):
        self.w = world
        self.rx = []              # chunks the client has sent and the server has not read
        self.client_gone = False  # client closed (EOF after rx is drained)
        self.client_reading = True
        self.send_plan = list(send_plan)
        self.recv_faults = dict(recv_faults or {})   # k-th recv (0-based) -> errno
        self.setup_faults = dict(setup_faults or {})  # "getsockopt" / "setblocking" -> errno
        self.nrecv = 0
        self.nsend = 0
        self.closed = False
        self.closed_by = None
        self.sndbuf = sndbuf

    # --- socket API used by waitress
    def fileno(self):
        return CHAN_FD

    def setblocking(self, flag):
        if "setblocking" in self.setup_faults:
            raise OSError(self.setup_faults["setblocking"], "injected")

    def getsockopt(self, level, opt, buflen=None):
        if "getsockopt" in self.setup_faults:
            raise OSError(self.setup_faults["getsockopt"], "injected")
        import socket as _s
        if opt == _s.SO_SNDBUF:
            return self.sndbuf
        return 0

    def setsockopt(self, *a):
        pass

    def getpeername(self):
        return ("127.0.0.1", 40000)

    def recv(self, n):
        w = self.w
        w.sched.yield_(Op("sock_recv", None))
        k = self.nrecv
        self.nrecv += 1
        if k in self.recv_faults:
            raise OSError(self.recv_faults[k], "injected")
        if self.rx:
            data = self.rx[0][:n]
            rest = self.rx[0][n:]
            if rest:
                self.rx[0] = rest
            else:
                self.rx.pop(0)
            w.sched.note("recv", data.hex())
            return data
        if self.client_gone:
            return b""
        raise OSError(errno.EWOULDBLOCK, "would block")

    def send(self, data):
        w = self.w
        w.sched.yield_(Op("sock_send", len(data)))
        self.nsend += 1
        if self.closed:
            raise OSError(errno.EBADF, "closed")
        plan = self.send_plan.pop(0) if self.send_plan else None
        if isinstance(plan, tuple):
            raise OSError(plan[1], "injected")
        if self.client_gone:
            raise OSError(errno.EPIPE, "gone")
        if not self.client_reading:
            raise OSError(errno.EWOULDBLOCK, "would block")
        n = len(data) if plan is None else min(plan, len(data))
        if n == 0:
            raise OSError(errno.EWOULDBLOCK, "would block")
        chunk = bytes(data[:n])
        w.wire += chunk
        w.sched.note("wire", chunk.hex())
        return n

    def close(self):
        self.closed = True
        me = self.w.sched.me()
        self.closed_by = me.name if me else "-"
        self.w.sched.note("close", self.closed_by)

    # --- readiness, evaluated by the controller while nobody runs
    def read_ready(self):
        return bool(self.rx) or self.client_gone

    def write_ready(self):
        return self.client_reading or self.client_gone


class FakeTrigger:
    """Stands in for waitress.trigger.trigger in the socket map."""
    accepting = False
    connected = True

    def __init__(self, world):
        self.w = world
        self.pulled = False

    def readable(self):
        return True

    def writable(self):
        return False

    def handle_read_event(self):
        self.pulled = False
        self.w.sched.note("trigger_read")

    def handle_write_event(self):  # pragma: no cover
        pass

    def handle_expt_event(self):
        pass

    def handle_error(self):  # pragma: no cover
        self.w.sched.note("trigger_error")

    def handle_close(self):
        self.w.sched.note("trigger_closed")


class FakeServer:
    def __init__(self, world, adj, dispatcher):
        self.w = world
        self.adj = adj
        self.active_channels = {}
        self.task_dispatcher = dispatcher
        self.effective_port = 8080
        self.effective_host = "127.0.0.1"
        self.server_name = "localhost"
        self.application = world._app
        self.trigger = world.trigger

    def add_task(self, task):
        self.w.sched.note("add_task")
        self.task_dispatcher.add_task(task)

    def pull_trigger(self):
        self.w.sched.yield_(Op("pull_trigger", None))
        self.w.trigger.pulled = True


class FakeSelect:
    """select.select / select.poll over the world's two descriptors; blocks (as
    a labelled operation) until something is ready: there is no timeout."""
    POLLIN, POLLPRI, POLLOUT, POLLERR, POLLHUP, POLLNVAL = 1, 2, 4, 8, 16, 32
    error = OSError

    def __init__(self, world):
        self.w = world

    def _ready(self, r, w_):
        rr, ww = [], []
        for fd in r:
            if fd == TRIG_FD and self.w.trigger.pulled:
                rr.append(fd)
            elif fd == CHAN_FD and self.w.sock.read_ready():
                rr.append(fd)
        for fd in w_:
            if fd == CHAN_FD and self.w.sock.write_ready():
                ww.append(fd)
        return rr, ww

    def select(self, r, w_, e, timeout=None):
        world = self.w
        world.sched.yield_(Op("select", None, enabled=lambda: any(self._ready(r, w_)) or world.stopping))
        if world.stopping:
            raise ThreadKilled()
        rr, ww = self._ready(r, w_)
        world.sched.note("selected", (rr, ww))
        return rr, ww, []

    def poll(self):
        outer = self

        class _P:
            def __init__(self):
                self.reg = {}

            def register(self, fd, flags):
                self.reg[fd] = flags

            def poll(self, timeout=None):
                r = [fd for fd, f in self.reg.items() if f & outer.POLLIN]
                w_ = [fd for fd, f in self.reg.items() if f & outer.POLLOUT]
                rr, ww, _ = outer.select(r, w_, [], timeout)
                out = {}
                for fd in rr:
                    out[fd] = out.get(fd, 0) | outer.POLLIN
                for fd in ww:
                    out[fd] = out.get(fd, 0) | outer.POLLOUT
                return sorted(out.items())
        return _P()


class World:
    def __init__(self, app, client_script, schedule=(), policy=None, adj_kw=None, n_workers=1,
                 send_plan=(), recv_faults=None, setup_faults=None, granularity="locks",
                 use_poll=False, max_steps=20000, sndbuf=1 << 16):
        self.app_fn = app
        self.client_script = list(client_script)
        self.sched = Scheduler(schedule, policy=policy, max_steps=max_steps)
        self.ft = FakeThreading(self.sched)
        self.ftime = FakeTime(self.sched)
        self.adj_kw = dict(adj_kw or {})
        self.n_workers = n_workers
        self.granularity = granularity
        self.use_poll = use_poll
        self.wire = b""
        self.stopping = False
        self.trigger = FakeTrigger(self)
        self.sock = ScriptSock(self, send_plan, recv_faults, sndbuf, setup_faults)
        self.map = {}
        self.channel = None
        self.io_error = None
        self.decided = set()
        self.tracing = False

    # the WSGI application seen by the tasks
    def _app(self, environ, start_response):
        self.sched.note("app_call", environ.get("PATH_INFO"))
        return self.app_fn(environ, start_response)

    def _make_channel_class(self):
        from waitress.channel import HTTPChannel
        world = self

        class TracedChannel(HTTPChannel):
            def service(self):
                path = None
                try:
                    path = object.__getattribute__(self, "requests")[0].path
                except Exception:
                    pass
                world.sched.note("service_start", path)
                try:
                    return HTTPChannel.service(self)
                finally:
                    world.sched.note("service_end", path)

            def del_channel(self, map=None):
                me = world.sched.me()
                world.sched.note("map_del", me.name if me else "-")
                return HTTPChannel.del_channel(self, map)

            def __setattr__(self, name, value):
                if world.tracing and name in SHARED:
                    if world.granularity == "attrs" and world.sched.me() is not None:
                        world.sched.yield_(Op("W:" + name, None))
                    if (name in ("will_close", "close_when_flushed") and value is True) or (
                            name == "connected" and value is False):
                        if name not in world.decided:
                            world.decided.add(name)
                            me = world.sched.me()
                            world.sched.note("decide", (name, me.name if me else "-"))
                object.__setattr__(self, name, value)

            def __getattribute__(self, name):
                if name in SHARED and world.tracing and world.granularity == "attrs" \
                        and world.sched.me() is not None:
                    world.sched.yield_(Op("R:" + name, None))
                return object.__getattribute__(self, name)

        return TracedChannel

    def _io_main(self):
        import waitress.wasyncore as wasyncore
        fn = wasyncore.poll2 if self.use_poll else wasyncore.poll
        try:
            while self.map and not self.stopping:
                fn(None if not self.use_poll else None, self.map)
        except ThreadKilled:
            raise
        except BaseException as e:  # the loop died: C13 territory
            self.io_error = e
            self.sched.note("io_loop_died", repr(e))

    def _client_main(self):
        for step in self.client_script:
            kind = step[0]
            if kind == "send":
                self.sched.yield_(Op("client:send", len(step[1])))
                self.sock.rx.append(bytes(step[1]))
            elif kind == "close":
                self.sched.yield_(Op("client:close", None))
                self.sock.client_gone = True
            elif kind == "stall":
                self.sched.yield_(Op("client:stall", None))
                self.sock.client_reading = False
            elif kind == "resume":
                self.sched.yield_(Op("client:resume", None))
                self.sock.client_reading = True
            elif kind == "wait_wire":
                n = step[1]
                self.sched.yield_(Op("client:wait_wire", n, enabled=lambda n=n: len(self.wire) >= n))
            else:  # pragma: no cover
                raise ValueError(step)

    def run(self):
        """Build the objects, run to quiescence, tear down.  Returns the
        scheduler verdict."""
        import waitress.channel as wchannel
        import waitress.task as wtask
        import waitress.wasyncore as wasyncore
        from waitress.adjustments import Adjustments
        fsel = FakeSelect(self)
        with patched(wchannel, threading=self.ft, time=self.ftime), \
                patched(wtask, threading=self.ft, time=self.ftime), \
                patched(wasyncore, select=fsel, time=self.ftime):
            adj = Adjustments(**self.adj_kw)
            self.adj = adj
            dispatcher = wtask.ThreadedTaskDispatcher()
            self.dispatcher = dispatcher
            self.server = FakeServer(self, adj, dispatcher)
            self.map[TRIG_FD] = self.trigger
            cls = self._make_channel_class()
            verdict = None
            try:
                def boot():
                    dispatcher.set_thread_count(self.n_workers)
                    try:
                        self.channel = cls(self.server, self.sock, ("127.0.0.1", 40000), adj, map=self.map)
                    except OSError as e:
                        self.sched.note("channel_init_failed", repr(e))
                        return
                    self.tracing = True
                    self.sched.spawn("io", self._io_main)
                    self.sched.spawn("client", self._client_main)
                self.sched.spawn("boot", boot)
                verdict = self.sched.run()
                self.blocked_at_end = self.sched.blocked()
                self.final = self.quiescent_state()
            finally:
                self.tracing = False
                self.stopping = True
                self.sched.kill()
        self.verdict = verdict
        return verdict

    # ---- helpers for monitors
    def events(self, kind=None):
        ev = self.sched.events
        return [e for e in ev if kind is None or e[1] == kind]

    def quiescent_state(self):
        ch = self.channel
        g = lambda n: object.__getattribute__(ch, n)
        return {
            "blocked": getattr(self, "blocked_at_end", None) or self.sched.blocked(),
            "total_outbufs_len": g("total_outbufs_len") if ch else None,
            "requests": len(g("requests")) if ch else None,
            "will_close": g("will_close") if ch else None,
            "close_when_flushed": g("close_when_flushed") if ch else None,
            "connected": g("connected") if ch else None,
            "in_map": CHAN_FD in self.map,
            "trigger_pulled": self.trigger.pulled,
            "queue": len(self.dispatcher.queue),
        }


def simple_app(bodies):
    """bodies: dict PATH_INFO -> (status, headers, [chunks]) ; default 200 with the path as body"""
    def app(environ, start_response):
        path = environ.get("PATH_INFO")
        status, headers, chunks = bodies.get(path, ("200 OK", None, [path.encode()]))
        if headers is None:
            headers = [("Content-Length", str(sum(len(c) for c in chunks)))]
        start_response(status, headers)
        return list(chunks)
    return app
