"""Structured generators of HTTP/1.x request byte streams.

Three streams, all driven by one random.Random:
  * grammar: mostly valid messages (all three body framings, trailers, chunk
    extensions, obs-fold, the target forms, pipelines);
  * mutation: one single-token mutation applied to a valid message at a
    grammar position (numbers, terminators, framing headers, names);
  * small: short strings over a small alphabet of framing-relevant atoms.
Every case carries tags so that the distribution can be reported."""
import itertools

METHODS = [b"GET", b"POST", b"PUT", b"HEAD", b"OPTIONS", b"DELETE", b"M-SEARCH"]
TARGETS = [b"/", b"/a/b", b"/a%20b?x=1&y=%zz", b"*", b"http://example.com:80/p?q#f", b"//x/y?z",
           b"/%41%2f%2F/", b"h:1", b"/a#frag", b"/?", b"https://h/", b"/\xe9", b"//x\xe9/y", b"//a#b?c"]
VERSIONS = [b" HTTP/1.1"] * 6 + [b" HTTP/1.0"] * 2 + [b"", b" HTTP/2.0", b" HTTP/0.9"]
CONNECTION = [None, None, None, b"close", b"keep-alive", b"Close", b"Keep-Alive", b"upgrade", b"close, x", b"x,close", b"x , CLOSE ", b"closed", b"keep-alive, close",
              b"close\x85", b"x,\xa0close", b"close\xa0,x", b"\x0bclose"]
TE_VARIANTS = [b"chunked", b"chunked", b"chunked", b"Chunked", b" chunked ", b"chunked,", b",chunked",
               b"gzip, chunked", b"chunked, chunked", b"identity", b"chunked\t", b"\x85chunked", b"gzip",
               b"chunked;q=1", b"", b",", b"chunked, ", b" ", b"chunked,\t,", b"chunked, \x0b",
               # bytes that str.strip() / re's \s treat as white space but RFC 9110 does not,
               # next to the list separator and at either end of a member
               b"chunked\x85,", b",\xa0chunked", b"chunked\xa0, ", b"gzip\x85, chunked", b"chunked ,\x85",
               b"\x1fchunked", b"chunked\x1c", b"chunked,\x85chunked", b"\xa0", b"\x85,chunked\x0c"]
CL_MUTANTS = [b"+5", b"0x5", b"5 ", b" 5", b"5,5", b"5, 5", b"5\t", b"-1", b"1_0", b"", b"5a", b"\xb2",
              b"05", b"00000000000005", b"5\x0b", b"5\x00", b"5.0", b"5e0", b" ", b"4294967301", b"1" * 30]
SIZE_MUTANTS = [b"5 ", b" 5", b"0x5", b"+5", b"5\n", b"G", b"", b"5;", b"5;a", b"5;a=", b'5;a="b', b"5 ;a=b",
                b"5;a=b ", b'5;a="b\\""', b"-5", b"5_0", b"\xb5", b"00005", b"5;a=b;c", b"5;;", b"5\t",
                b"5\r", b"5;a=b\n", b'5;a="\x7f"', b"5;\x00"]
TERM_MUTANTS = [b"", b"\n", b"\r", b"X\r\n", b"\r\r\n", b"\n\r\n", b" \r\n"]
TRAILERS = [b"", b"", b"X-T: 1\r\n", b"X-T: 1\r\nY: 2\r\n", b"foo\r\n", b"a: b\nc\r\n", b"\x00: 1\r\n", b" x: 1\r\n"]
EXTS = [b"", b"", b";a", b";a=b", b';a="b c"', b';a="\\""', b";a=b;c=d"]


def rnd_body(rng, n):
    alpha = b"abc\r\n0123456789;: "
    return bytes(rng.choice(alpha) for _ in range(n))


def chunked_body(rng, body, mutate=None):
    """encode body in 0..3 chunks; mutate = (kind, value) with kind in
    size/term/trailer/last"""
    parts = []
    if body:
        k = rng.randint(1, min(3, len(body)))
        cuts = sorted(rng.sample(range(1, len(body)), k - 1)) if len(body) > 1 and k > 1 else []
        prev = 0
        for c in cuts + [len(body)]:
            parts.append(body[prev:c])
            prev = c
    out = b""
    mut_idx = rng.randrange(len(parts)) if parts else None
    for i, p in enumerate(parts):
        size = (b"%x" % len(p)) if rng.random() < 0.7 else (b"%X" % len(p))
        if rng.random() < 0.2:
            size = b"0" * rng.randint(1, 3) + size
        ext = rng.choice(EXTS)
        if rng.random() < 0.03:
            # a long (valid) chunk extension: control lines beyond any "reasonable" size
            ext = rng.choice([b";x=", b";", b';q="']) + b"a" * rng.choice([1015, 1030, 1100, 2100])
            ext += b'"' if ext.startswith(b';q="') else b""
        term = b"\r\n"
        if mutate and i == mut_idx:
            if mutate[0] == "size":
                m = mutate[1]
                # keep the numeric value when the mutant mentions 5
                size, ext = m.replace(b"5", b"%x" % len(p)), b""
            elif mutate[0] == "term":
                term = mutate[1]
        out += size + ext + b"\r\n" + p + term
    last = b"0"
    if mutate and mutate[0] == "last":
        last = mutate[1]
    trailer = rng.choice(TRAILERS)
    if mutate and mutate[0] == "trailer":
        trailer = mutate[1]
    out += last + rng.choice(EXTS[:3]) + b"\r\n" + trailer + b"\r\n"
    return out


def gen_message(rng, mutate=None):
    """-> (bytes, tags).  mutate: None or a mutation name."""
    tags = {}
    method = rng.choice(METHODS)
    target = rng.choice(TARGETS)
    version = rng.choice(VERSIONS)
    headers = []
    if rng.random() < 0.8:
        headers.append((b"Host", b"example.com"))
    conn = rng.choice(CONNECTION)
    if conn is not None:
        headers.append((b"Connection", conn))
    if rng.random() < 0.3:
        headers.append((rng.choice([b"X-Foo", b"x-foo", b"X_Foo", b"Accept", b"Cookie"]),
                        rng.choice([b"a", b"a b", b"\xe9t\xe9", b"", b"a,b", b" padded\t"])))
    if rng.random() < 0.15:
        headers.append((b"X-Foo", b"second"))
    if rng.random() < 0.1:
        headers.append((b"X-Fold", b"a\r\n\tb"))
    if rng.random() < 0.2:
        headers.append((b"Expect", rng.choice([b"100-continue", b"100-Continue", b"100-continue ", b"other"])))
    if rng.random() < 0.02:
        headers.append((b"X-Long", rng.choice([b"v", b"\xe9", b"a b"]) * rng.choice([1000, 1024, 1030, 3000])))
    framing = rng.choice(["none", "none", "cl", "cl", "chunked", "chunked", "cl+te", "cl0"])
    if version not in (b" HTTP/1.1",) and framing in ("chunked", "cl+te") and rng.random() < 0.7:
        framing = "cl"
    body = rnd_body(rng, rng.choice([0, 1, 2, 5, 5, 17, 40]))
    payload = b""
    tags["framing"] = framing
    if framing == "cl":
        headers.append((b"Content-Length", b"%d" % len(body)))
        payload = body
    elif framing == "cl0":
        headers.append((b"Content-Length", b"0"))
    elif framing == "chunked":
        te = rng.choice(TE_VARIANTS[:4]) if mutate != "te" else rng.choice(TE_VARIANTS)
        headers.append((rng.choice([b"Transfer-Encoding", b"transfer-encoding"]), te))
        payload = chunked_body(rng, body)
    elif framing == "cl+te":
        headers.append((b"Content-Length", b"%d" % rng.choice([len(body), 3, 0])))
        headers.append((b"Transfer-Encoding", b"chunked"))
        payload = chunked_body(rng, body)
    rng.shuffle(headers)
    first = method + b" " + target + version
    sep = b"\r\n"
    # ---- mutations -------------------------------------------------------
    if mutate:
        tags["mutation"] = mutate
    if mutate == "cl-value":
        m = rng.choice(CL_MUTANTS)
        headers = [(k, v) for k, v in headers if k != b"Content-Length"] + [(b"Content-Length", m)]
        payload = body[:5].ljust(5, b"x")
    elif mutate == "cl-te-empty":
        # a Transfer-Encoding that names no coding next to a (mostly invalid) Content-Length
        m = rng.choice(CL_MUTANTS + [b"5", b"5"])
        te = rng.choice([b"", b",", b" ", b"\t,", b", ,"])
        headers = [(k, v) for k, v in headers if k.lower() not in (b"content-length", b"transfer-encoding")]
        pair = [(b"Content-Length", m), (b"Transfer-Encoding", te)]
        rng.shuffle(pair)
        headers += pair
        payload = body[:5].ljust(5, b"x")
    elif mutate == "cl-dup":
        headers = [(k, v) for k, v in headers if k.lower() not in (b"content-length", b"transfer-encoding")]
        a = b"%d" % len(body)
        b = rng.choice([a, b"%d" % (len(body) + 1), b"0"])
        if rng.random() < 0.3:
            # the first occurrence empty / white space only, the second one valid
            a, b = rng.choice([b"", b" ", b"\t "]), a
        headers += [(b"Content-Length", a), (rng.choice([b"Content-Length", b"content-length", b"Content_Length"]), b)]
        payload = body
    elif mutate == "te-dup":
        headers = [(k, v) for k, v in headers if k.lower() not in (b"content-length", b"transfer-encoding")]
        headers += [(b"Transfer-Encoding", rng.choice(TE_VARIANTS)), (b"Transfer-Encoding", rng.choice(TE_VARIANTS))]
        payload = chunked_body(rng, body)
    elif mutate == "te":
        pass
    elif mutate in ("chunk-size", "chunk-term", "chunk-last", "chunk-trailer"):
        headers = [(k, v) for k, v in headers if k.lower() not in (b"content-length", b"transfer-encoding")]
        headers.append((b"Transfer-Encoding", b"chunked"))
        if not body:
            body = b"hello"
        kind = mutate.split("-")[1]
        val = {"size": rng.choice(SIZE_MUTANTS), "term": rng.choice(TERM_MUTANTS),
               "last": rng.choice([b"00", b"0x0", b" 0", b"0 ", b"", b"-0", b"0;", b"0;a=b"]),
               "trailer": rng.choice(TRAILERS[2:] + [b"a:b\r\n\r\nGET / HTTP/1.1\r\n", b"\r", b"\n\r\n"])}[kind]
        payload = chunked_body(rng, body, (kind, val))
        if not version.strip():
            version = b" HTTP/1.1"
        if version != b" HTTP/1.1" and rng.random() < 0.8:
            version = b" HTTP/1.1"
        first = method + b" " + target + version
    elif mutate == "bare-lf":
        sep = rng.choice([b"\n", b"\r", b"\r\n"])
    elif mutate == "ws-colon":
        k, v = rng.choice(headers) if headers else (b"X", b"1")
        headers.append((k + rng.choice([b" ", b"\t", b"\x0b", b"\xa0"]), v))
    elif mutate == "bad-name":
        headers.append((rng.choice([b"X(Y)", b"", b"X Y", b"X\x00", b"\xe9", b"X:Y", b"@", b"X\x7f"]), b"1"))
    elif mutate == "first-line":
        first = rng.choice([
            method + b"  " + target + version, method + b" " + target + b" HTTP/1.1 ", b" " + first,
            method.lower() + b" " + target + version, method + b" " + target + b" HTTP/11", first + b"\t",
            method + b" " + target + b" http/1.1", method + b"\t" + target + version, b"GET", b"GET /a b HTTP/1.1",
            method + b" " + target + b" HTTP/1.1\n", b"\x0b" + first, method + b" " + b"http://[" + version,
            method + b" " + b"/\x00" + version, method + b" " + b"/\t" + version])
    elif mutate == "bad-line-obs":
        # a malformed header line (bare CR/LF inside, or a first line starting with
        # SP/HTAB) that ALSO carries bytes which are not valid UTF-8 / not ASCII
        junk = rng.choice([b"\xe9", b"\xff\xfe", b"caf\xe9", b"\x80", b"\xc3(", b"\xa0x"])
        kind = rng.choice(["lf", "cr", "lead", "fold-lf", "fold-cr", "fold-mid"])
        if kind == "lead":
            headers.insert(0, (rng.choice([b" ", b"\t"]) + b"X-" + junk, b"1"))
            headers_shuffled = False
        elif kind in ("fold-lf", "fold-cr", "fold-mid"):
            # an obs-fold continuation line that itself carries a bare LF / CR
            # (at its end, or in the middle); sometimes on a framing header
            name = rng.choice([b"X-Fold", b"X-Fold", b"Content-Length", b"Transfer-Encoding"])
            first = {b"Content-Length": b"", b"Transfer-Encoding": b""}.get(name, b"a")
            cont = {b"Content-Length": b"4", b"Transfer-Encoding": b"chunked"}.get(name, b"b" + junk)
            bad = {"fold-lf": cont + b"\n", "fold-cr": cont + b"\r", "fold-mid": cont[:1] + b"\n" + cont[1:]}[kind]
            headers = [(k, v) for k, v in headers if k.lower() not in (b"content-length", b"transfer-encoding")] \
                if name in (b"Content-Length", b"Transfer-Encoding") else headers
            headers.append((name, first + b"\r\n" + rng.choice([b" ", b"\t"]) + bad))
            payload = payload if name == b"X-Fold" else b"abcd"
        elif kind == "lf":
            headers.append((b"X-Bad", b"a" + junk + b"\nb"))
        else:
            headers.append((b"X-Bad", junk + b"\rb" + junk))
    elif mutate == "lead-crlf":
        first = rng.choice([b"\r\n", b"\r\n\r\n", b"\n", b" \r\n", b"\r\n \t"]) + first
    head = first + b"\r\n"
    lines = [k + b":" + rng.choice([b" ", b"", b"  ", b"\t"]) + v for k, v in headers]
    if mutate == "bare-lf" and lines:
        i = rng.randrange(len(lines))
        head = first + (sep if rng.random() < 0.3 else b"\r\n")
        for j, l in enumerate(lines):
            head += l + (sep if j == i else b"\r\n")
    else:
        head += b"".join(l + b"\r\n" for l in lines)
    head += b"\r\n"
    tags["version"] = version.strip().decode() or "none"
    return head + payload, tags


MUTATIONS = ["cl-value", "cl-te-empty", "cl-dup", "te-dup", "te", "chunk-size", "chunk-term", "chunk-last", "chunk-trailer",
             "bare-lf", "ws-colon", "bad-name", "first-line", "lead-crlf", "bad-line-obs"]


def gen_stream(rng, stream="grammar"):
    """A pipeline of 1..4 messages, possibly followed by a partial message or
    garbage."""
    n = rng.choice([1, 1, 2, 2, 3, 4])
    msgs = []
    tags = {"stream": stream, "n": n, "framings": [], "mutations": []}
    mut_at = rng.randrange(n) if stream == "mutation" else None
    for i in range(n):
        mut = rng.choice(MUTATIONS) if i == mut_at else None
        m, t = gen_message(rng, mut)
        msgs.append(m)
        tags["framings"].append(t["framing"])
        if mut:
            tags["mutations"].append(mut)
    s = b"".join(msgs)
    r = rng.random()
    if r < 0.15:
        extra, _ = gen_message(rng)
        s += extra[: rng.randint(1, max(1, len(extra) - 1))]
        tags["tail"] = "partial"
    elif r < 0.25:
        s += rng.choice([b"\r\n", b"garbage\r\n\r\n", b"\x00\xff", b"\r\n\r\n", b"0\r\n\r\n"])
        tags["tail"] = "garbage"
    return s, tags


def segmentations(rng, s, k=3, maxcuts=6):
    """whole, byte-wise (if short) and k random cut sets"""
    out = [[s]]
    if len(s) <= 400:
        out.append([s[i:i + 1] for i in range(len(s))])
    for _ in range(k):
        ncuts = rng.randint(1, maxcuts)
        if len(s) < 2:
            break
        cuts = sorted(set(rng.randrange(1, len(s)) for _ in range(ncuts)))
        pieces = []
        prev = 0
        for c in cuts + [len(s)]:
            pieces.append(s[prev:c])
            prev = c
        out.append(pieces)
    # cuts right inside every CRLF pair of the stream (one cut set)
    idx = [i + 1 for i in range(len(s) - 1) if s[i:i + 2] == b"\r\n"]
    if idx:
        pieces = []
        prev = 0
        for c in idx + [len(s)]:
            if c > prev:
                pieces.append(s[prev:c])
                prev = c
        out.append(pieces)
    return out


def limits_for(rng, s):
    """(max_header, max_body) choices: defaults, and small values around the
    sizes that occur in s"""
    out = [(262144, 1073741824)]
    first_head = s.find(b"\r\n\r\n")
    h = first_head + 4 if first_head >= 0 else len(s)
    out.append((max(1, h + rng.choice([-2, -1, 0, 1, 2])), rng.choice([1, 2, 5, 6, 17, 18, 40, 41, 1000])))
    return out


SMALL_ATOMS = [b"GET / HTTP/1.1\r\n", b"POST / HTTP/1.1\r\n", b"GET / HTTP/1.0\r\n", b"\r\n", b"\n", b"\r",
               b"Content-Length: 3\r\n", b"Content-Length: 0\r\n", b"Transfer-Encoding: chunked\r\n",
               b"Connection: close\r\n", b"Expect: 100-continue\r\n", b"abc", b"3\r\nabc\r\n", b"0\r\n", b"X: y\r\n",
               b" ", b"3", b"0"]


def small_streams(max_atoms):
    for n in range(1, max_atoms + 1):
        for t in itertools.product(range(len(SMALL_ATOMS)), repeat=n):
            yield b"".join(SMALL_ATOMS[i] for i in t)
