"""K-buf: the REAL waitress.buffers classes against the extracted model
(coq/Model/Buffers.v) and against the FIFO specification (coq/Spec/Fifo.v,
extracted, and an independent Python reference queue), after EVERY operation.

A history is (limit, overflow, ops); ops are JSON-able lists:
  ["append", hex] ["get", n, skip] ["skip", n, allow_prune] ["len"] ["getfile"] ["close"]
A read-only case is (filekind, content_hex, pos, size, ops) with ops
  ["roget", n, skip] ["roskip", n] ["rolen"] ["roclose"].

Real BytesIO and real tempfile.TemporaryFile are used; STRBUF_LIMIT is
monkeypatched per history (the model takes it as a parameter)."""
import hashlib
import io
import itertools
import re
import tempfile

from lib.vcommon import hexb


def show(b):
    b = bytes(b)
    if len(b) <= 48:
        return hexb(b)
    return "#%d:%s" % (len(b), hashlib.md5(b).hexdigest())


def exn_s(e):
    if isinstance(e, ValueError):
        m = str(e)
        if m.startswith("Can't skip"):
            return "exn:skip"
        if "closed file" in m:
            return "exn:closed"
    return "exn:other:%s:%s" % (type(e).__name__, str(e)[:60])


# ---------------------------------------------------------------------------
# observing the real objects


def file_state(f):
    """pos / closed / whole content of a real file object, position restored."""
    if f.closed:
        return "closed=1", None, None
    pos = f.tell()
    f.seek(0)
    content = f.read()
    f.seek(pos)
    assert f.tell() == pos
    return "pos=%d closed=0 content=%s" % (pos, show(content)), pos, content


def ob_state(wb, b):
    """-> (state line, queue content or None when closed)"""
    ovfd = "1" if b.overflowed else "0"
    if b.buf is None:
        return "tag=str ovfd=%s len=%d strbuf=%s" % (ovfd, b.__len__(), show(b.strbuf)), bytes(b.strbuf)
    buf = b.buf
    f = buf.file
    if type(buf) is wb.BytesIOBasedBuffer:
        tag = "bio" if isinstance(f, io.BytesIO) else "bio-with-%s" % type(f).__name__
    elif type(buf) is wb.TempfileBasedBuffer:
        tag = "tmp" if not isinstance(f, io.BytesIO) and hasattr(f, "fileno") else "tmp-with-%s" % type(f).__name__
    else:
        tag = "other-" + type(buf).__name__
    fs, pos, content = file_state(f)
    line = "tag=%s ovfd=%s len=%d strbuf=%s remain=%d %s" % (tag, ovfd, b.__len__(), show(b.strbuf), buf.remain, fs)
    return line, (None if content is None else content[pos:])


_closed_re = re.compile(r"pos=\d+ closed=1 content=\S+")


def canon_model_state(s):
    """a closed real file cannot be asked for its position or content"""
    return _closed_re.sub("closed=1", s)


def apply_ob(b, op):
    """one operation on the real OverflowableBuffer -> output string"""
    try:
        k = op[0]
        if k == "append":
            r = b.append(bytes.fromhex(op[1]))
            return "unit" if r is None else "other:%r" % (r,)
        if k == "get":
            r = b.get(op[1], bool(op[2]))
            return "bytes:" + show(r)
        if k == "skip":
            r = b.skip(op[1], bool(op[2]))
            return "unit" if r is None else "other:%r" % (r,)
        if k == "len":
            return "len:%d" % b.__len__()
        if k == "getfile":
            f = b.getfile()
            return "file" if (b.buf is not None and f is b.buf.file) else "other:getfile"
        if k == "close":
            r = b.close()
            return "unit" if r is None else "other:%r" % (r,)
        return "other:badop"
    except Exception as e:  # noqa
        return exn_s(e)


def op_line(op):
    k = op[0]
    if k == "append":
        return "append " + (op[1] or "-")
    if k in ("get", "skip"):
        return "%s %d %d" % (k, op[1], 1 if op[2] else 0)
    if k == "roget":
        return "roget %d %d" % (op[1], 1 if op[2] else 0)
    if k == "roskip":
        return "roskip %d" % op[1]
    return k


def model_lines(hist):
    limit, ovf, ops = hist
    return ["new %d %d" % (limit, ovf)] + [op_line(o) for o in ops]


class RefQueue:
    """the property's statement, executable: an independent byte queue"""

    def __init__(self):
        self.q = b""
        self.appended = 0
        self.consumed = 0
        self.alive = True

    def check(self, op, out, qobs, length):
        """-> None or a description of how the implementation departs from the queue"""
        if not self.alive:
            return None
        k = op[0]
        q = self.q
        if k == "append":
            s = bytes.fromhex(op[1])
            if out != "unit":
                return "append answered %s" % out
            self.q = q + s
            self.appended += len(s)
        elif k == "get" and not op[2]:
            n = op[1]
            want_min = q if n < 0 else q[:n]
            if not out.startswith("bytes:"):
                return "peek answered %s" % out
            ok = out == "bytes:" + show(want_min) or out == "bytes:" + show(q)
            if not ok:
                return "peek(%d) answered %s, queue holds %s" % (n, out, show(q))
        elif k == "get":
            n = op[1]
            want = q if n < 0 else q[:n]
            if out != "bytes:" + show(want):
                return "consuming get(%d) answered %s, queue says %s" % (n, out, show(want))
            self.q = q[len(want):]
            self.consumed += len(want)
        elif k == "skip":
            n = op[1]
            if n <= len(q):
                if out != "unit":
                    return "skip(%d) of %d queued bytes answered %s" % (n, len(q), out)
                self.q = q[n:]
                self.consumed += n
            elif out != "exn:skip":
                return "skip(%d) of only %d queued bytes answered %s" % (n, len(q), out)
        elif k == "len":
            if out != "len:%d" % len(q):
                return "len answered %s, queue holds %d" % (out, len(q))
        elif k == "getfile":
            if out != "file":
                return "getfile answered %s" % out
        elif k == "close":
            if qobs is None:
                self.alive = False  # a file representation was closed: the queue is gone
                return None
        if qobs is not None and qobs != self.q:
            return "after %s the buffer holds %s, the queue %s" % (op_line(op)[:40], show(qobs), show(self.q))
        if length != len(self.q) or len(self.q) != self.appended - self.consumed:
            return "after %s len is %d, appended-consumed = %d" % (op_line(op)[:40], length, self.appended - self.consumed)
        return None


def copy_bytes_for(hist, real_value):
    """COPY_BYTES used while a history runs: the model copies the whole file at a
    migration whatever the chunk size, so small chunk sizes (several iterations
    of the real copy loop) must not change anything.  A function of (limit,
    overflow) only, so that shrinking a history keeps it."""
    limit, ovf = hist[0], hist[1]
    if limit > 64:
        return real_value
    return (1, 5, real_value)[(limit + ovf) % 3]


def run_real_ob(hist):
    """-> list of (out, state line, RefQueue verdict, bytes held) per op, preceded by the initial state"""
    import waitress.buffers as wb

    limit, ovf, ops = hist
    saved = wb.STRBUF_LIMIT
    saved_copy = wb.COPY_BYTES
    wb.STRBUF_LIMIT = limit
    wb.COPY_BYTES = copy_bytes_for(hist, saved_copy)
    res = []
    try:
        b = wb.OverflowableBuffer(ovf)
        ref = RefQueue()
        st0, _ = ob_state(wb, b)
        res.append(("ok", st0, None, None))
        for op in ops:
            out = apply_ob(b, op)
            st, qobs = ob_state(wb, b)
            res.append((out, st, ref.check(op, out, qobs, b.__len__()), None if qobs is None else show(qobs)))
        try:
            b.close()
        except Exception:
            pass
    finally:
        wb.STRBUF_LIMIT = saved
        wb.COPY_BYTES = saved_copy
    return res


def spec_verdict(op, out, specout, specq):
    """the contract between the implementation's output and the output of the
    extracted Spec/Fifo.v (specq: the specification's queue after the op)"""
    k = op[0]
    if k == "get" and not op[2]:
        # a prefix at least as long as requested, or everything
        return out == specout or out == "bytes:" + specq
    if k == "skip":
        return (specout == "unit" and out == "unit") or (specout == "err" and out == "exn:skip")
    if k == "getfile":
        return out == "file"
    return out == specout


def compare_ob(hist, real, model):
    """-> None or (step index, which, expected, observed); a departure from the
    queue (the property itself) is preferred over a disagreement with the model
    when both occur in the history"""
    fs = compare_ob_all(hist, real, model)
    for which in ("queue", "spec", "model"):
        if which in fs:
            return fs[which]
    return None


def compare_ob_all(hist, real, model):
    """first failure of each kind: {'model'|'queue'|'spec': (step, which, expected, observed)}"""
    limit, ovf, ops = hist
    alive = True
    out_f = {}
    for i, ((out, st, refv, held), mline) in enumerate(zip(real, model)):
        parts = [p.strip() for p in mline.split(" | ")]
        mout, mst = parts[0], canon_model_state(parts[1])
        if (out, st) != (mout, mst) and "model" not in out_f:
            out_f["model"] = (i, "model", "%s | %s" % (mout, mst), "%s | %s" % (out, st))
        if i == 0:
            continue
        op = ops[i - 1]
        if refv is not None and "queue" not in out_f:
            out_f["queue"] = (i, "queue", refv, "%s | %s" % (out, st))
        if op[0] == "close" and held is None:
            alive = False
        if alive and op[0] != "close" and "spec" not in out_f:
            m = re.match(r"spec=(\S+) queue=(\S+)", parts[2])
            specout, specq = m.group(1), m.group(2)
            if not spec_verdict(op, out, specout, specq) or held != specq:
                out_f["spec"] = (i, "spec", "spec=%s queue=%s" % (specout, specq), "%s | %s | holds %s" % (out, st, held))
    return out_f


# ---------------------------------------------------------------------------
# generators


class Bytesrc:
    """appended data: every byte carries its stream position (mod 251), so a
    lost, duplicated or reordered byte changes what comes out"""

    def __init__(self):
        self.n = 0

    def take(self, k):
        b = bytes(((self.n + i) % 251) for i in range(k))
        self.n += k
        return b


def size_alphabet(limit, ovf, cur):
    s = {0, 1, 2, limit - 1, limit, limit + 1, ovf - 1, ovf, ovf + 1, cur - 1, cur, cur + 1,
         limit // 2, 2 * limit + 1}
    return sorted(x for x in s if 0 <= x <= 40000)


def gen_history(rng, limit, ovf, nops, p_invalid=0.06, p_close=0.008):
    """boundary-biased history; tracks the logical length to aim sizes at it"""
    src = Bytesrc()
    cur = 0
    ops = []
    maxapp = max(4, min(3 * limit + 3, 12000))
    for _ in range(nops):
        r = rng.random()
        alpha = size_alphabet(limit, ovf, cur)
        def size(cap):
            if rng.random() < 0.7:
                c = [x for x in alpha if x <= cap]
                return rng.choice(c) if c else 0
            return rng.randint(0, max(0, min(cap, 3 * limit + 3)))
        if r < 0.36:
            k = size(maxapp)
            ops.append(["append", src.take(k).hex()])
            cur += k
        elif r < 0.50:
            n = rng.choice([-1, -1, size(40000), size(40000)])
            ops.append(["get", n, False])
        elif r < 0.64:
            n = rng.choice([-1, size(40000), size(40000), size(40000)])
            ops.append(["get", n, True])
            cur = 0 if n < 0 else max(0, cur - n)
        elif r < 0.86:
            ap = rng.random() < 0.6
            if rng.random() < p_invalid:
                n = cur + rng.choice([1, 1, 2, limit, 1000])
                ops.append(["skip", n, ap])
            else:
                n = min(size(cur), cur)
                if rng.random() < 0.25:
                    n = cur
                ops.append(["skip", n, ap])
                cur -= n
        elif r < 0.91:
            ops.append(["len"])
        elif r < 1.0 - p_close:
            ops.append(["getfile"])
        else:
            ops.append(["close"])
    return (limit, ovf, ops)


def threshold_grid(real_limit=8192):
    """(limit, overflow) pairs: small limits and the real 8192; overflow in {0, 1, small, large}"""
    out = []
    for limit in (0, 1, 2, 8, 16):
        for ovf in sorted({0, 1, limit - 1, limit, limit + 1, 2 * limit + 3, 5 * limit + 7, 1 << 20} - {-1}):
            out.append((limit, ovf))
    L = real_limit
    big = [(L, 0), (L, 1), (L, L - 1), (L, L), (L, L + 1), (L, 2 * L + 3616), (L, 1 << 20)]
    return out, big


def exhaustive_alphabet(limit, which="A"):
    if which == "A":
        return [("a", 1), ("a", limit - 1), ("a", limit + 1),
                ("g", -1, False), ("g", 2, False), ("g", 2, True), ("g", -1, True), ("g", limit + 5, True),
                ("s", 1, False), ("s", 1, True), ("s", limit - 1, True), ("s", "len", True),
                ("f",)]
    return [("a", 2), ("a", limit), ("g", 1, True), ("g", 3, False), ("s", 2, True), ("s", "len", False),
            ("s", 0, True), ("l",), ("c",)]


def exhaustive_histories(limit, ovf, length, which="A"):
    """every history of exactly `length` ops over a tiny alphabet (prefixes are
    covered because the comparison is made after every op)"""
    alpha = exhaustive_alphabet(limit, which)
    for combo in itertools.product(alpha, repeat=length):
        src = Bytesrc()
        cur = 0
        ops = []
        for c in combo:
            if c[0] == "a":
                ops.append(["append", src.take(c[1]).hex()])
                cur += c[1]
            elif c[0] == "g":
                ops.append(["get", c[1], c[2]])
                if c[2]:
                    cur = 0 if c[1] < 0 else max(0, cur - c[1])
            elif c[0] == "s":
                n = cur if c[1] == "len" else c[1]
                ops.append(["skip", n, c[2]])
                if n <= cur:
                    cur -= n
            elif c[0] == "f":
                ops.append(["getfile"])
            elif c[0] == "l":
                ops.append(["len"])
            else:
                ops.append(["close"])
        yield (limit, ovf, ops)


# ---------------------------------------------------------------------------
# the read-only buffer


def make_file(kind, content, pos):
    if kind == "bytesio":
        f = io.BytesIO(content)
    else:
        f = tempfile.TemporaryFile("w+b")
        f.write(content)
        f.flush()
    f.seek(pos)
    return f


def ro_state(b):
    fs, pos, content = file_state(b.file)
    return "remain=%d %s" % (b.remain, fs), pos


def run_real_ro(case):
    """-> list of (out, state) and the Python-side verdicts of the property"""
    import waitress.buffers as wb

    kind, content_hex, pos, size, ops = case
    content = bytes.fromhex(content_hex)
    f = make_file(kind, content, pos)
    res = []
    verdict = None
    try:
        b = wb.ReadOnlyFileBasedBuffer(f)
        res.append(("ok", ro_state(b)[0]))
        try:
            r = b.prepare(size)
            out = "len:%d" % r
        except Exception as e:  # noqa
            out = exn_s(e)
            r = 0
        res.append((out, ro_state(b)[0]))
        prepared = r
        avail = content[pos:]
        if out.startswith("len:") and size is not None and prepared > max(size, 0):
            verdict = (1, "prepare(%r) answered %d" % (size, prepared))
        if out.startswith("len:") and prepared != (len(avail) if size is None else min(len(avail), size)):
            verdict = verdict or (1, "prepare(%r) answered %d with %d bytes available" % (size, prepared, len(avail)))
        yielded = 0
        alive = True
        for i, op in enumerate(ops):
            k = op[0]
            before = None if f.closed else f.tell()
            try:
                if k == "roget":
                    out = "bytes:" + show(b.get(op[1], bool(op[2])))
                elif k == "roskip":
                    rr = b.skip(op[1], True)
                    out = "unit" if rr is None else "other:%r" % (rr,)
                elif k == "rolen":
                    out = "len:%d" % b.__len__()
                elif k == "roclose":
                    rr = b.close()
                    out = "unit" if rr is None else "other:%r" % (rr,)
                    alive = False
                else:
                    out = "other:badop"
            except Exception as e:  # noqa
                out = exn_s(e)
            st, now = ro_state(b)
            res.append((out, st))
            if verdict is None and alive and before is not None:
                # the property, directly
                left = prepared - yielded
                if k == "roget":
                    n = op[1]
                    want = avail[yielded:prepared] if (n == -1 or n > left) else avail[yielded:yielded + n]
                    if out != "bytes:" + show(want):
                        verdict = (i + 2, "get(%d,%s) answered %s, prepared window holds %s" % (n, op[2], out, show(want)))
                    elif op[2]:
                        yielded += len(want)
                    elif now != before:
                        verdict = (i + 2, "peek moved the file position %d -> %d" % (before, now))
                elif k == "roskip":
                    if op[1] <= left:
                        if out != "unit":
                            verdict = (i + 2, "skip(%d) with %d left answered %s" % (op[1], left, out))
                        yielded += op[1]
                    elif out != "exn:skip":
                        verdict = (i + 2, "skip(%d) with only %d left answered %s" % (op[1], left, out))
                elif k == "rolen":
                    if out != "len:%d" % left:
                        verdict = (i + 2, "len answered %s, %d left" % (out, left))
                if verdict is None and (yielded > prepared or now != pos + yielded):
                    verdict = (i + 2, "yielded %d of %d prepared; file at %d, expected %d" % (yielded, prepared, now, pos + yielded))
    finally:
        try:
            f.close()
        except Exception:
            pass
    return res, verdict


def ro_model_lines(case):
    kind, content_hex, pos, size, ops = case
    return ["ronew %s %d" % (content_hex or "-", pos), "prepare %s" % ("none" if size is None else size)] + \
        [op_line(o) for o in ops]


def compare_ro(case, real, verdict, model):
    for i, ((out, st), mline) in enumerate(zip(real, model)):
        parts = [p.strip() for p in mline.split(" | ")]
        mout, mst = parts[0], canon_model_state(parts[1])
        if (out, st) != (mout, mst):
            return (i, "model", "%s | %s" % (mout, mst), "%s | %s" % (out, st))
    if verdict is not None:
        return (verdict[0], "property", verdict[1], "%s | %s" % real[min(verdict[0], len(real) - 1)])
    return None


def gen_ro_case(rng, big=False):
    kind = rng.choice(["bytesio", "tempfile"])
    n = rng.choice([0, 1, 2, 5, 17, 40]) if not big else rng.choice([8191, 8192, 40000])
    content = bytes((i * 7 + 3) % 251 for i in range(n))
    pos = rng.choice([0, 0, n, max(0, n - 1), rng.randint(0, n)])
    fsize = n - pos
    size = rng.choice([None, 0, 1, max(0, fsize - 1), fsize, fsize + 1, fsize + 1000, rng.randint(0, fsize + 2)])
    left = fsize if size is None else min(fsize, size)
    ops = []
    for _ in range(rng.randint(1, 12)):
        r = rng.random()
        sizes = sorted({0, 1, 2, max(0, left - 1), left, left + 1, 18000, rng.randint(0, left + 3)})
        if r < 0.35:
            ops.append(["roget", rng.choice([-1] + sizes), False])
        elif r < 0.6:
            nn = rng.choice([-1] + sizes)
            ops.append(["roget", nn, True])
            left = 0 if (nn == -1 or nn > left) else left - nn
        elif r < 0.88:
            if rng.random() < 0.1:
                ops.append(["roskip", left + rng.choice([1, 2, 50])])
            else:
                nn = rng.choice([x for x in sizes if x <= left] or [0])
                ops.append(["roskip", nn])
                left -= nn
        elif r < 0.97:
            ops.append(["rolen"])
        else:
            ops.append(["roclose"])
    return (kind, content.hex(), pos, size, ops)


# ---------------------------------------------------------------------------
# shrinking a failing history (fewer operations, same kind of failure)


def shrink_ob(hist, fails):
    limit, ovf, ops = hist
    ops = list(ops)
    changed = True
    while changed and len(ops) > 1:
        changed = False
        for i in range(len(ops)):
            cand = ops[:i] + ops[i + 1:]
            if fails((limit, ovf, cand)):
                ops = cand
                changed = True
                break
    return (limit, ovf, ops)


# ---------------------------------------------------------------------------
# operating-system faults at representation changes
#
# A fault is (target, method, nth, exception kind): the nth call of `method` on
# a file object of kind `target` made while ONE chosen operation runs raises.
#   target "tmp":  tempfile.TemporaryFile  -- method "ctor" is TemporaryFile() itself
#   target "bio":  io.BytesIO              -- method "ctor" is BytesIO() itself
# Observation (file_state) happens with the plan disarmed.

import errno as _errno

EXC_KINDS = {
    "EMFILE": lambda: OSError(_errno.EMFILE, "Too many open files (injected)"),
    "ENOSPC": lambda: OSError(_errno.ENOSPC, "No space left on device (injected)"),
    "EACCES": lambda: OSError(_errno.EACCES, "Permission denied (injected)"),
    "MemoryError": lambda: MemoryError("injected"),
}


class FaultPlan:
    def __init__(self):
        self.armed = False
        self.recording = False
        self.fault = None      # (target, method, nth, exckind)
        self.count = {}
        self.fired = None      # the exception object raised
        self.site = None       # where in waitress/buffers.py it was raised

    def reset(self):
        self.count = {}
        self.fired = None
        self.site = None

    def hit(self, target, method):
        if not (self.armed or self.recording):
            return
        k = (target, method)
        self.count[k] = self.count.get(k, 0) + 1
        if self.armed and self.fault is not None and self.fired is None:
            t, m, nth, ek = self.fault
            if (t, m) == k and self.count[k] == nth:
                self.fired = EXC_KINDS[ek]()
                self.site = _site_of_stack(m)
                raise self.fired


def _site_of_stack(method):
    """which part of waitress/buffers.py is executing: decided from the call stack"""
    import sys
    names = []
    f = sys._getframe(2)
    while f is not None:
        if f.f_code.co_filename.replace("\\", "/").endswith("waitress/buffers.py"):
            names.append(f.f_code.co_name)
        f = f.f_back
    if method == "ctor":
        return "ctor"
    if "__init__" in names:
        return "copy"            # FileBasedBuffer.__init__(file, from_buffer): the copy loop
    if "_create_buffer" in names:
        return "create_append"   # _create_buffer: buf.append(self.strbuf)
    if names and names[0] == "append":
        return "append"          # FileBasedBuffer.append(s)
    return names[0] if names else "?"


PLAN = FaultPlan()


class FaultyBytesIO(io.BytesIO):
    def __init__(self, *a):
        PLAN.hit("bio", "ctor")
        io.BytesIO.__init__(self, *a)

    def write(self, b):
        PLAN.hit("bio", "write")
        return io.BytesIO.write(self, b)

    def read(self, *a):
        PLAN.hit("bio", "read")
        return io.BytesIO.read(self, *a)

    def seek(self, *a):
        PLAN.hit("bio", "seek")
        return io.BytesIO.seek(self, *a)

    def tell(self):
        PLAN.hit("bio", "tell")
        return io.BytesIO.tell(self)


class FaultyTmp:
    """a real TemporaryFile behind a delegating wrapper"""

    def __init__(self, real):
        self._f = real

    def write(self, b):
        PLAN.hit("tmp", "write")
        return self._f.write(b)

    def read(self, *a):
        PLAN.hit("tmp", "read")
        return self._f.read(*a)

    def seek(self, *a):
        PLAN.hit("tmp", "seek")
        return self._f.seek(*a)

    def tell(self):
        PLAN.hit("tmp", "tell")
        return self._f.tell()

    def close(self):
        return self._f.close()

    def flush(self):
        return self._f.flush()

    def fileno(self):
        return self._f.fileno()

    @property
    def closed(self):
        return self._f.closed


class FaultEnv:
    """context manager: waitress.buffers uses the fault-capable file classes"""

    def __init__(self, hist):
        self.hist = hist

    def __enter__(self):
        import waitress.buffers as wb
        self.wb = wb
        self.saved = (wb.STRBUF_LIMIT, wb.COPY_BYTES, wb.BytesIO, tempfile.TemporaryFile)
        real_tmp = tempfile.TemporaryFile

        def faulty_temporary_file(*a, **kw):
            PLAN.hit("tmp", "ctor")
            return FaultyTmp(real_tmp(*a, **kw))
        wb.STRBUF_LIMIT = self.hist[0]
        wb.COPY_BYTES = copy_bytes_for(self.hist, self.saved[1])
        wb.BytesIO = FaultyBytesIO
        tempfile.TemporaryFile = faulty_temporary_file
        PLAN.armed = PLAN.recording = False
        PLAN.fault = None
        PLAN.reset()
        return self

    def __exit__(self, *a):
        wb = self.wb
        wb.STRBUF_LIMIT, wb.COPY_BYTES, wb.BytesIO, tempfile.TemporaryFile = self.saved
        PLAN.armed = PLAN.recording = False
        PLAN.fault = None


def fault_sites(hist):
    """fault-free run with call recording: -> list of (op index, from tag, to tag,
    {(target, method): number of calls made while that op ran}) for every op
    at which the representation changes"""
    limit, ovf, ops = hist
    sites = []
    with FaultEnv(hist) as env:
        b = env.wb.OverflowableBuffer(ovf)
        tag = "str"
        for i, op in enumerate(ops):
            PLAN.reset()
            PLAN.recording = True
            apply_ob(b, op)
            PLAN.recording = False
            st, _ = ob_state(env.wb, b)
            t2 = st.split()[0][4:]
            if t2 != tag:
                sites.append((i, tag, t2, dict(PLAN.count)))
            tag = t2
        try:
            b.close()
        except Exception:
            pass
    return sites


def run_faulted(hist, at, fault):
    """ops[:at] fault-free, op `at` with the fault armed, the rest fault-free.
    -> (rows, fired) where rows[i] = (out, state line, bytes held or None, len)
    for every op, and fired = the injected exception was raised"""
    limit, ovf, ops = hist
    rows = []
    with FaultEnv(hist) as env:
        b = env.wb.OverflowableBuffer(ovf)
        fired = False
        site = None
        for i, op in enumerate(ops):
            if i == at:
                PLAN.reset()
                PLAN.fault = fault
                PLAN.armed = True
            try:
                out = apply_ob(b, op) if i != at else apply_ob_raw(b, op)
            finally:
                PLAN.armed = False
            if i == at:
                fired = PLAN.fired is not None
                site = PLAN.site
            content = None
            try:
                st, held = ob_state(env.wb, b)
                ln = b.__len__()
                if b.buf is not None and not b.buf.file.closed:
                    content = file_state(b.buf.file)[2]
            except Exception as e:  # noqa
                st, held, ln = "unobservable:%s" % type(e).__name__, None, -1
            rows.append((out, st, held, ln, content))
        try:
            b.close()
        except Exception:
            pass
    return rows, fired, site


MODEL_FAULT = {("tmp", "ctor"): "ctor-tmp", ("bio", "ctor"): "ctor-bio", ("tmp", "write"): "copywrite"}


def faults_at(site, hist):
    """the faults injected at one representation change: constructor faults with
    every exception kind, and every position of every file method call"""
    i, t1, t2, counts = site
    out = []
    for (tgt, meth), n in sorted(counts.items()):
        if meth == "ctor":
            kinds = ("EMFILE", "ENOSPC", "EACCES", "MemoryError") if tgt == "tmp" else ("MemoryError",)
            for ek in kinds:
                out.append((tgt, meth, 1, ek))
        else:
            ek = "ENOSPC" if tgt == "tmp" else "MemoryError"
            for nth in range(1, n + 1):
                out.append((tgt, meth, nth, ek))
    return out


def fault_model_lines(hist, at, fault, where=None):
    """model lines for a faulted run, or None when the model does not carry this fault.
    `where` is the part of buffers.py in which the injected exception was raised:
    a failing write inside _create_buffer's buf.append(self.strbuf) is FCreateWrite,
    inside OverflowableBuffer.append's buf.append(s) FAppendWrite (each is the only
    write made there), the first write of the copy loop FCopyWrite."""
    if fault[1] == "write" and where == "create_append":
        kind = "createwrite"
    elif fault[1] == "write" and where == "append":
        kind = "appendwrite"
    elif fault[1] == "write" and where not in (None, "copy"):
        return None
    else:
        kind = MODEL_FAULT.get((fault[0], fault[1]))
        if kind is None or fault[2] != 1:
            return None
    limit, ovf, ops = hist
    lines = ["new %d %d" % (limit, ovf)]
    for i, op in enumerate(ops):
        lines.append(("fault %s " % kind if i == at else "") + op_line(op))
    return lines


def judge_faulted(hist, at, fault, rows, fired, site, q_before):
    """the fault specification, on the real code.
    -> (verdict, detail): verdict 'notfired' | 'ok' | 'weak' | 'bad'
       ok:   the exception propagated, the buffer is the queue it was (or, for append,
             that queue plus the appended bytes), len is truthful, later operations behave
       weak: not ok, but nothing is destroyed: the buffer is open, every queued byte is
             still stored (file content / strbuf) and the counters are those of the queue
       bad:  anything else"""
    limit, ovf, ops = hist
    if not fired:
        return "notfired", ""
    out, st, held, ln = rows[at][:4]
    op = ops[at]
    acceptable = [q_before]
    if op[0] == "append":
        acceptable.append(q_before + bytes.fromhex(op[1]))
    problem = None
    if not out.startswith("fault:"):
        problem = "the injected exception did not propagate: %s" % out
    elif held is None or held not in acceptable:
        problem = "after the failed %s the buffer holds %s, before it held %s" % (op[0], "nothing readable" if held is None else show(held), show(q_before))
    elif ln != len(held):
        problem = "after the failed %s len is %d but %d bytes are held" % (op[0], ln, len(held))
    else:
        ref = RefQueue()
        ref.q = held
        ref.appended = len(held)
        for j in range(at + 1, len(ops)):
            o2, st2, held2, ln2 = rows[j][:4]
            v = ref.check(ops[j], o2, held2, ln2)
            if v is not None:
                problem = "operation %d after the fault: %s" % (j + 1, v)
                break
    if problem is None:
        return "ok", ""
    # nothing destroyed?  the buffer is open and every queued byte is still stored
    weak = False
    content = rows[at][4]
    if st.startswith("tag=") and not st.startswith("tag=str") and "closed=0" in st and content is not None:
        sb = re.search(r"strbuf=(\S+)", st).group(1)
        remain = int(re.search(r"remain=(-?\d+)", st).group(1))
        if sb != "-":
            # _create_buffer: buf.append(self.strbuf) did not complete; strbuf still holds everything
            weak = sb == show(q_before)
        else:
            # the file holds every queued byte and remain is the length of the queue (before or after)
            weak = any(content.endswith(acc) for acc in acceptable) and remain in [len(acc) for acc in acceptable]
    return ("weak" if weak else "bad"), problem


def compare_faulted_model(rows, model):
    """real rows of a faulted run against the model's lines (lines[0] is 'new')"""
    for i, (row, mline) in enumerate(zip(rows, model[1:])):
        parts = [p.strip() for p in mline.split(" | ")]
        mout, mst = parts[0], canon_model_state(parts[1])
        out = "exn:fault" if row[0].startswith("fault:") else row[0]
        if (out, row[1]) != (mout, mst):
            return (i + 1, "model", "%s | %s" % (mout, mst), "%s | %s" % (out, row[1]))
    return None


def apply_ob_raw(b, op):
    """like apply_ob, but an injected exception is reported by identity"""
    try:
        k = op[0]
        if k == "append":
            b.append(bytes.fromhex(op[1]))
            return "unit"
        if k == "get":
            return "bytes:" + show(b.get(op[1], bool(op[2])))
        if k == "skip":
            b.skip(op[1], bool(op[2]))
            return "unit"
        if k == "len":
            return "len:%d" % b.__len__()
        if k == "getfile":
            b.getfile()
            return "file"
        if k == "close":
            b.close()
            return "unit"
        return "other:badop"
    except BaseException as e:  # noqa
        if e is PLAN.fired:
            return "fault:" + type(e).__name__
        return exn_s(e)
