"""C05 -- no lost wake-up.  Scenarios, the quiescence MONITOR on the real
HTTPChannel (driven by harness/chan_world.World: no poll timeout exists, so a
run that ends "blocked" is a quiescent state of the real code), the mapping of
real traces to the labels of the narrow model coq/Model/ChanWake.v, and the
ast shape audit of the wake-up sites.

A scenario is a JSON-able dict:
  reqs      list of {"path", "chunks": [sizes], "cl": bool (Content-Length given,
            else chunked on 1.1), "close": bool (Connection: close), "v": "1.1"|"1.0",
            "expect": bool (Expect: 100-continue with a body sent in a later segment)}
  cuts      how the concatenated request bytes are cut into client sends
  adj       Adjustments keywords (send_bytes, outbuf_high_watermark, channel_request_lookahead)
  sndbuf    SO_SNDBUF reported by the socket (the size of one send() attempt)
  send_plan per-send() plan of the socket: int n (accept <= n), None (all), ["err", errno]
  workers   pool size
  gran      "locks" | "attrs"
  poll      False: wasyncore.poll (select order), True: wasyncore.poll2
  client_close  the client closes after its last send (half of the runs do not)
"""
import ast
import errno
import hashlib
import json
import logging
import os

from harness.chan_world import World, ScriptSock, CHAN_FD
from harness.sched import RandomPolicy, PCTPolicy, explore

logging.disable(logging.CRITICAL)


# ----------------------------------------------------------------------------
# scenarios

def parts_of(sc):
    """-> list of (kind, bytes): kind 'r' complete request, 'h' head of an expecting
    request, 'b' its body."""
    out = []
    for r in sc["reqs"]:
        v = "1.1" if r.get("expect") else r.get("v", "1.1")   # the parser honours Expect only for HTTP/1.1
        h = "GET %s HTTP/%s\r\nHost: h\r\n" % (r["path"], v)
        if r.get("close"):
            h += "Connection: close\r\n"
        elif v == "1.0" and r.get("ka"):
            h += "Connection: keep-alive\r\n"
        if r.get("expect"):
            body = b"B" * int(r.get("body", 3))
            h += "Expect: 100-continue\r\nContent-Length: %d\r\n" % len(body)
            out.append(("h", h.encode() + b"\r\n"))
            out.append(("b", body))
        else:
            out.append(("r", h.encode() + b"\r\n"))
    return out


def segments(sc):
    """-> list of (items string, bytes) the client sends, in order"""
    parts = parts_of(sc)
    segs = sc.get("segs", "per_part")
    if segs == "one":
        groups = [list(range(len(parts)))]
    elif segs == "per_part":
        groups = [[i] for i in range(len(parts))]
    else:
        groups = [list(g) for g in segs]
    flat = [i for g in groups for i in g]
    assert flat == list(range(len(parts))), "segs must partition the parts in order"
    return [("".join(parts[i][0] for i in g), b"".join(parts[i][1] for i in g)) for g in groups if g]


def make_app(reqs):
    table = {r["path"]: r for r in reqs}

    def app(environ, start_response):
        r = table.get(environ.get("PATH_INFO"))
        chunks = [b"x" * n for n in (r["chunks"] if r else [1])]
        if r is not None and r.get("raise") == "before":
            raise ValueError("app")
        hdrs = []
        if r is None or r.get("cl", True):
            hdrs.append(("Content-Length", str(sum(len(c) for c in chunks))))
        start_response("200 OK", hdrs)
        if r is not None and r.get("iter"):
            return iter(chunks)
        return chunks
    return app


def client_script(sc):
    steps = [("send", data) for _, data in segments(sc)]
    if sc.get("client_close"):
        steps.append(("close",))
    return steps


class NotingSock(ScriptSock):
    """ScriptSock that records the answer of every send()/recv() in the trace."""

    def send(self, data):
        try:
            n = ScriptSock.send(self, data)
        except OSError as e:
            code = e.args[0]
            self.w.sched.note("send_result", "z" if code == errno.EWOULDBLOCK else ("d" if code in _DISC else "e"))
            raise
        self.w.sched.note("send_result", "ok%d" % n)
        return n

    def recv(self, n):
        try:
            d = ScriptSock.recv(self, n)
        except OSError as e:
            self.w.sched.note("recv_result", "01" if e.args[0] in _DISC else "00")
            raise
        self.w.sched.note("recv_result", "10" if d else "01")
        return d


_DISC = frozenset({errno.ECONNRESET, errno.ENOTCONN, errno.ESHUTDOWN, errno.ECONNABORTED, errno.EPIPE, errno.EBADF})
SNAP_FIELDS = ("wc", "cwf", "conn", "total", "nreq", "ol", "rl", "closed", "pulled", "queue", "pend")


class WakeWorld(World):
    """World + the notes the model alignment needs (application writes, end of
    the task with close_on_finish, what handle_close left in the buffers, send /
    recv answers) + a snapshot of the shared state before every labelled operation."""

    def __init__(self, *a, **kw):
        sndbuf = kw.get("sndbuf", 1 << 16)
        World.__init__(self, *a, **kw)
        self.sock = NotingSock(self, kw.get("send_plan", ()), kw.get("recv_faults"), sndbuf, kw.get("setup_faults"))
        self.sched.observer = self._observe

    def _tname(self, lt):
        if lt is None:
            return "-"
        n = lt.name
        return "io" if n == "io" else ("w" + n.split("-")[1] if n.startswith("waitress-") else n)

    def _observe(self, sched, t, op):
        ch = self.channel
        if ch is None or not self.tracing:
            return None
        g = lambda n: object.__getattribute__(ch, n)
        closed = CHAN_FD not in self.map
        try:
            pend = sum(b.__len__() for b in g("outbufs"))
        except Exception:
            pend = -1
        return (int(g("will_close")), int(g("close_when_flushed")), int(bool(g("connected"))), g("total_outbufs_len"),
                len(g("requests")), self._tname(g("outbuf_lock").lock.owner), self._tname(g("requests_lock").owner),
                int(closed), int(self.trigger.pulled), len(self.dispatcher.queue),
                "x" if closed else ("*" if (g("outbuf_lock").lock.owner is not None or not g("connected")) else pend))

    def _make_channel_class(self):
        base = World._make_channel_class(self)
        world = self
        from waitress.task import WSGITask, ErrorTask

        def noting(cls):
            class T(cls):
                def service(self):
                    raised = True
                    try:
                        r = cls.service(self)
                        raised = False
                        return r
                    finally:
                        world.sched.note("task_end", int(bool(raised or self.close_on_finish)))
            T.__name__ = cls.__name__
            return T

        class WakeChannel(base):
            task_class = noting(WSGITask)
            error_task_class = noting(ErrorTask)

            def write_soon(self, data):
                n = len(data)
                if n:
                    world.sched.note("write_soon", n)
                return base.write_soon(self, data)

            def send_continue(self):
                world.sched.note("send_continue", None)
                return base.send_continue(self)

            def handle_close(self):
                try:
                    return base.handle_close(self)
                finally:
                    try:
                        left = sum(b.__len__() for b in object.__getattribute__(self, "outbufs"))
                    except Exception:
                        left = 0
                    world.sched.note("hc_keep", int(left > 0))

        return WakeChannel


def make_world(sc, schedule=(), policy=None, max_steps=6000):
    plan = [tuple(p) if isinstance(p, list) else p for p in sc.get("send_plan", [])]
    rf = {int(k): v for k, v in (sc.get("recv_faults") or {}).items()}
    return WakeWorld(make_app(sc["reqs"]), client_script(sc), schedule=schedule, policy=policy,
                     adj_kw=dict(sc.get("adj", {})), n_workers=sc.get("workers", 1), send_plan=plan,
                     recv_faults=rf, granularity=sc.get("gran", "locks"), use_poll=bool(sc.get("poll")),
                     max_steps=max_steps, sndbuf=sc.get("sndbuf", 1 << 16))


# ----------------------------------------------------------------------------
# the monitor: the predicate of theorem C05 on the final (quiescent) state

def parked(world):
    """-> dict thread name -> where: 'select' | 'queue_cv' | 'outbuf_cv' | other"""
    ch = world.channel
    out = {}
    ob = object.__getattribute__(ch, "outbuf_lock") if ch is not None else None
    qcv = world.dispatcher.queue_cv
    for name, kind, detail in world.blocked_at_end:
        if kind == "select":
            out[name] = "select"
        elif kind == "wake":
            cv = detail[0]
            if cv == qcv.name:
                out[name] = "queue_cv"
            elif ob is not None and cv == ob.name:
                out[name] = "outbuf_cv"
            else:
                out[name] = "cv:" + str(cv)
        else:
            out[name] = "%s:%s" % (kind, detail)
    return out


def monitor(world, sc):
    """-> (class, problems).  class: 'quiescent' (the run ended in a quiescent
    state, problems lists the conjuncts of C05 that fail there), 'overrun'
    (no quiescence within max_steps: a spin, reported separately), 'finished'
    (every thread ended: the map became empty)."""
    v = world.verdict
    if world.io_error is not None:
        return "io_died", ["io loop died: %r" % (world.io_error,)]
    if v == "overrun":
        return "overrun", ["no quiescent state within %d steps" % world.sched.max_steps]
    f = world.final
    pk = parked(world) if v == "blocked" else {}
    probs = []
    if v == "blocked":
        for name, where in pk.items():
            if where not in ("select", "queue_cv", "outbuf_cv"):
                probs.append("thread %s blocked at %s (deadlock, not a park)" % (name, where))
    if f["trigger_pulled"] and v == "blocked":
        probs.append("trigger pulled but io blocked")
    hw = world.adj.outbuf_high_watermark
    if f["total_outbufs_len"]:
        probs.append("undelivered output: total_outbufs_len=%d" % f["total_outbufs_len"])
    if f["queue"] and f["in_map"]:
        probs.append("dispatcher queue holds %d unserviced task(s)" % f["queue"])
    if f["requests"] and f["in_map"]:
        probs.append("requests holds %d unserviced request(s)" % f["requests"])
    for name, where in pk.items():
        if where == "outbuf_cv":
            if (not f["connected"]) or f["total_outbufs_len"] <= hw:
                probs.append("producer %s parked on outbuf_lock with space available (total=%d, high_watermark=%d, connected=%s)"
                             % (name, f["total_outbufs_len"], hw, f["connected"]))
    if (f["will_close"] or f["close_when_flushed"]) and f["in_map"]:
        probs.append("closing (will_close=%s close_when_flushed=%s) but the channel is still in the map"
                     % (f["will_close"], f["close_when_flushed"]))
    # a client that sent all its requests and keeps reading: everything it sent
    # must have been read unless the channel closed or stopped reading for a reason
    if world.sock.rx and f["in_map"] and v == "blocked":
        probs.append("client bytes unread (%d chunk(s)) while the channel is open and quiescent" % len(world.sock.rx))
    return ("quiescent" if v == "blocked" else "finished"), probs


def classify(sc, probs):
    """Known-finding class of a failing quiescent state, or None."""
    hw = sc.get("adj", {}).get("outbuf_high_watermark", 16777216)
    if probs and hw == 0 and all(p.startswith("producer ") or p.startswith("requests holds") for p in probs):
        return "kf_c05_watermark0"
    return None


class Fair:
    """Wraps a policy: after `after` decisions every thread other than the I/O
    thread is preferred (workers and client run until they block), so that a
    run which has not become quiescent by then is a genuine spin of the I/O
    loop and not an artefact of an unfair random schedule (the I/O thread
    polling a lock that an enabled worker holds)."""

    def __init__(self, inner, after=1500):
        self.inner = inner
        self.after = after

    def __call__(self, sched, enabled, cont):
        if sched.step_no < self.after and self.inner is not None:
            return self.inner(sched, enabled, cont)
        if sched.step_no < self.after:
            return cont if cont is not None else 0
        for i, t in enumerate(enabled):
            if t.name != "io":
                return i
        return 0


def run_one(sc, schedule=(), policy=None, max_steps=4000):
    w = make_world(sc, schedule, Fair(policy), max_steps)
    w.run()
    cls, probs = monitor(w, sc)
    return w, cls, probs


def replay_dict(sc, world, cls, probs):
    return {"scenario": sc, "choices": list(world.sched.choices), "expected": "quiescent state satisfies C05",
            "observed": {"class": cls, "problems": probs, "final": {k: v for k, v in world.final.items() if k != "blocked"},
                         "parked": parked(world) if world.verdict == "blocked" else {}},
            "failing_input_found": True}


# ----------------------------------------------------------------------------
# mapping of a real trace to the event stream of the model (ocaml/chanwake/driver.ml: trace)

ATTR = {"will_close": "wc", "close_when_flushed": "cwf", "connected": "conn", "total_outbufs_len": "tot",
        "requests": "req", "request": "rq"}


def model_tokens(world, sc):
    """-> (header words, tokens) for the driver's `trace` command."""
    ch = world.channel
    g = lambda n: object.__getattribute__(ch, n)
    disp = world.dispatcher
    locks = {disp.lock.name: "d", g("requests_lock").name: "r", g("outbuf_lock").lock.name: "o"}
    cvs = {disp.queue_cv.name: "q", g("outbuf_lock").name: "o"}
    ev = world.sched.events
    segs = segments(sc)
    nseg = 0

    def tname(n):
        if n == "io":
            return "io"
        if n == "client":
            return "c"
        if n.startswith("waitress-"):
            return "w" + n.split("-")[1]
        return None

    # the last task_end of every service() span is the task's verdict
    last_task_end = set()
    open_span = {}
    for i, (th, kind, det) in enumerate(ev):
        if kind == "service_start":
            open_span[th] = None
        elif kind == "task_end":
            open_span[th] = i
        elif kind == "service_end":
            if open_span.get(th) is not None:
                last_task_end.add(open_span[th])
            open_span[th] = None
    for th, i in open_span.items():      # service() still running at the end of the run
        if i is not None:
            last_task_end.add(i)

    toks = []   # (event index, thread, label, arg)
    for i, (th, kind, det) in enumerate(ev):
        t = tname(th)
        if t is None:
            continue
        lab = arg = None
        if kind == "begin":
            lab = "Begin"
        elif kind.startswith("R:") or kind.startswith("W:"):
            a = ATTR.get(kind[2:])
            if a:
                lab = kind[0] + a
        elif kind in ("acquire", "try_acquire", "release", "reacquire"):
            l = locks.get(det)
            if l:
                lab = {"acquire": "Aq", "try_acquire": "Tr", "release": "Rl", "reacquire": "Aq"}[kind] + l
        elif kind == "wait":
            if det in cvs:
                lab = "Wt" + cvs[det]
        elif kind == "wake":
            if det[0] in cvs:
                lab = "Wk" + cvs[det[0]]
        elif kind in ("notify", "notify_all"):
            if det[0] in cvs:
                lab = "Nf" + cvs[det[0]]
        elif kind == "sock_send":
            lab = "Sd"
            arg = "?"
            for j in range(i + 1, len(ev)):
                if ev[j][0] == th and ev[j][1] == "send_result":
                    arg = ev[j][2]
                    break
                if ev[j][0] == th and ev[j][1] == "sock_send":
                    break
        elif kind == "sock_recv":
            lab = "Rv"
            arg = "?"
            for j in range(i + 1, len(ev)):
                if ev[j][0] == th and ev[j][1] == "recv_result":
                    arg = ev[j][2]
                    break
        elif kind == "select":
            lab = "Sel"
        elif kind == "pull_trigger":
            lab = "Pull"
        elif kind == "add_task":
            lab = "AddTask"
        elif kind == "map_del":
            lab = "MapDel"
        elif kind == "write_soon":
            lab, arg = "Write", str(det)
        elif kind == "task_end":
            if i in last_task_end:
                lab, arg = "Done", str(det)
        elif kind == "hc_keep":
            lab, arg = "Keep", str(det)
        elif kind == "client:send":
            lab, arg = "Client", segs[nseg][0]
            nseg += 1
        elif kind == "client:close":
            lab = "ClientClose"
        if lab is not None:
            if arg == "?":
                continue   # the operation was announced but the run ended before it was performed
            toks.append([i, t, lab, arg if arg is not None else "-", "-"])
    # snapshots: snaps[j] is the state before the labelled operation recorded as event j
    snaps = sorted((j, v) for j, v in world.sched.snaps.items() if v is not None)
    k = 0
    for j, v in snaps:
        while k < len(toks) and toks[k][0] < j:
            k += 1
        if k > 0 and toks[k - 1][0] < j:
            toks[k - 1][4] = ",".join(str(x) for x in v)
    if toks and world.channel is not None:
        v = world._observe(None, None, None)
        if v is not None:
            toks[-1][4] = ",".join(str(x) for x in v)
    adj = world.adj
    head = ["trace", str(adj.channel_request_lookahead), str(adj.send_bytes), str(adj.outbuf_high_watermark),
            "1" if world.use_poll else "0", str(world.n_workers), world.granularity]
    return head, ["%s;%s;%s;%s" % (t, lab, arg, snap) for _, t, lab, arg, snap in toks]
