"""C05 -- no lost wake-up.  Scenarios, the quiescence MONITOR on the real
HTTPChannel (driven by harness/chan_world.World: no poll timeout exists, so a
run that ends "blocked" is a quiescent state of the real code), the mapping of
real traces to the labels of the narrow model coq/Model/ChanWake.v, and the
ast shape audit of the wake-up sites.

A scenario is a JSON-able dict:
  reqs      list of {"path", "chunks": [sizes], "cl": bool (Content-Length given,
            else chunked on 1.1), "close": bool (Connection: close), "v": "1.1"|"1.0",
            "expect": bool (Expect: 100-continue with a body sent in a later segment),
            "wait": bool (streaming application that waits for its consumer after every chunk)}
  segs      how the request parts (heads, bodies) are grouped into client sends
  adj       Adjustments keywords (send_bytes, outbuf_high_watermark, channel_request_lookahead)
  sndbuf    SO_SNDBUF reported by the socket (the size of one send() attempt)
  send_plan per-send() plan of the socket: int n (accept <= n), None (all), ["err", errno],
            ["left", k] (accept all but k bytes)
  workers   pool size
  gran      "locks" | "attrs"
  poll      False: wasyncore.poll (select order), True: wasyncore.poll2
  client_close  the client closes after its last send (half of the runs do not)
  real_trigger  True: the REAL waitress.trigger.trigger over harness/fake_pipe.FakeOS instead of the
            flag-only FakeTrigger (os.read / os.write and the trigger's lock are scheduling points)
  conn2     a second connection on the same map and dispatcher: {"reqs", "segs", "client_close"};
            requests may carry "wait_for": path (the application blocks until that request's
            application has been entered).  Runs with conn2 are monitored, not aligned with the
            single-channel model.
"""
import ast
import errno
import hashlib
import json
import logging
import os

from harness.chan_world import World, ScriptSock, FakeSelect, FakeServer, CHAN_FD, TRIG_FD
from harness.fake_pipe import FakeOS
from harness.fake_threading import patched
from harness.sched import Op, ThreadKilled
from harness.sched import RandomPolicy, PCTPolicy, explore

logging.disable(logging.CRITICAL)


# ----------------------------------------------------------------------------
# scenarios

def parts_of(sc):
    """-> list of (kind, bytes): kind 'r' complete request, 'h' head of an expecting
    request, 'b' its body."""
    out = []
    for r in sc["reqs"]:
        v = "1.1" if r.get("expect") else r.get("v", "1.1")   # the parser honours Expect only for HTTP/1.1
        h = "GET %s HTTP/%s\r\nHost: h\r\n" % (r["path"], v)
        if r.get("close"):
            h += "Connection: close\r\n"
        elif v == "1.0" and r.get("ka"):
            h += "Connection: keep-alive\r\n"
        if r.get("expect"):
            body = b"B" * int(r.get("body", 3))
            h += "Expect: 100-continue\r\nContent-Length: %d\r\n" % len(body)
            out.append(("h", h.encode() + b"\r\n"))
            out.append(("b", body))
        else:
            out.append(("r", h.encode() + b"\r\n"))
    return out


def segments(sc):
    """-> list of (items string, bytes) the client sends, in order"""
    parts = parts_of(sc)
    segs = sc.get("segs", "per_part")
    if segs == "one":
        groups = [list(range(len(parts)))]
    elif segs == "per_part":
        groups = [[i] for i in range(len(parts))]
    else:
        groups = [list(g) for g in segs]
    flat = [i for g in groups for i in g]
    assert flat == list(range(len(parts))), "segs must partition the parts in order"
    return [("".join(parts[i][0] for i in g), b"".join(parts[i][1] for i in g)) for g in groups if g]


def make_app(reqs, holder=None):
    """holder: a list that will contain the World (for requests with "wait": the application is
    a streaming one that, after each chunk, waits until everything it has written so far -- as
    far as waitress is supposed to send it: at least send_bytes pending -- has reached the
    client; a labelled blocking operation `app:wait`)."""
    table = {r["path"]: r for r in reqs}

    def waiting(chunks):
        from harness.sched import Op
        for c in chunks:
            yield c
            w = holder[0]
            ch = w.channel
            pend = object.__getattribute__(ch, "total_outbufs_len")
            sbytes = max(1, w.adj.send_bytes)
            # waitress sends while at least send_bytes are pending: fewer than send_bytes may stay behind
            target = len(w.wire) + (pend - (sbytes - 1) if pend >= sbytes else 0)
            w.sched.yield_(Op("app:wait", target,
                              enabled=lambda: len(w.wire) >= target or not object.__getattribute__(ch, "connected")))

    def app(environ, start_response):
        r = table.get(environ.get("PATH_INFO"))
        chunks = [b"x" * n for n in (r["chunks"] if r else [1])]
        if holder:
            w0 = holder[0]
            w0.app_called.add(environ.get("PATH_INFO"))
            if r is not None and r.get("wait_for"):
                # a request that depends on another one (long poll woken by a second request):
                # blocks inside the application until that request's application has been entered
                other = r["wait_for"]
                w0.sched.yield_(Op("app:wait_event", other, enabled=lambda: other in w0.app_called))
        if r is not None and r.get("raise") == "before":
            raise ValueError("app")
        hdrs = []
        if r is None or r.get("cl", True):
            hdrs.append(("Content-Length", str(sum(len(c) for c in chunks))))
        start_response("200 OK", hdrs)
        if r is not None and r.get("wait") and holder is not None:
            return waiting(chunks)
        if r is not None and r.get("iter"):
            return iter(chunks)
        return chunks
    return app


def client_script(sc):
    steps = [("send", data) for _, data in segments(sc)]
    if sc.get("client_close"):
        steps.append(("close",))
    return steps


class NotingSock(ScriptSock):
    """ScriptSock that records the answer of every send()/recv() in the trace."""

    def send(self, data):
        # plan entry ("left", k): accept all but k bytes of this send (at least one byte)
        if self.send_plan and isinstance(self.send_plan[0], tuple) and self.send_plan[0][0] == "left":
            k = self.send_plan[0][1]
            self.send_plan[0] = max(1, len(data) - k)
        try:
            n = ScriptSock.send(self, data)
        except OSError as e:
            code = e.args[0]
            self.w.sched.note("send_result", "z" if code == errno.EWOULDBLOCK else ("d" if code in _DISC else "e"))
            raise
        self.w.sched.note("send_result", "ok%d" % n)
        return n

    def recv(self, n):
        try:
            d = ScriptSock.recv(self, n)
        except OSError as e:
            self.w.sched.note("recv_result", "01" if e.args[0] in _DISC else "00")
            raise
        self.w.sched.note("recv_result", "10" if d else "01")
        return d


class _Pulled:
    def __init__(self, v):
        self.pulled = v


class ConnSock(NotingSock):
    """The socket of a second connection: its own descriptor and its own wire."""
    FD = 9

    def __init__(self, *a, **kw):
        NotingSock.__init__(self, *a, **kw)
        self.wire = b""

    def fileno(self):
        return self.FD

    def send(self, data):
        w = self.w
        w.sched.yield_(Op("sock_send", len(data)))
        self.nsend += 1
        if self.closed:
            raise OSError(errno.EBADF, "closed")
        plan = self.send_plan.pop(0) if self.send_plan else None
        if isinstance(plan, tuple) and plan[0] == "err":
            raise OSError(plan[1], "injected")
        if self.client_gone:
            raise OSError(errno.EPIPE, "gone")
        n = len(data) if plan is None else min(plan, len(data))
        if n == 0:
            raise OSError(errno.EWOULDBLOCK, "would block")
        self.wire += bytes(data[:n])
        return n


class WakeSelect(FakeSelect):
    """Readiness over the trigger (fake flag, or the fake pipe of the real trigger) and one or
    two connections."""

    def _ready(self, r, w_):
        world = self.w
        socks = {world.sock.fileno(): world.sock}
        if world.sock2 is not None:
            socks[world.sock2.fileno()] = world.sock2
        rr, ww = [], []
        for fd in r:
            if world.fos is not None and world.fos.readable(fd):
                rr.append(fd)
            elif world.fos is None and fd == TRIG_FD and world.trigger.pulled:
                rr.append(fd)
            elif fd in socks and socks[fd].read_ready():
                rr.append(fd)
        for fd in w_:
            if fd in socks and socks[fd].write_ready():
                ww.append(fd)
        return rr, ww


_DISC = frozenset({errno.ECONNRESET, errno.ENOTCONN, errno.ESHUTDOWN, errno.ECONNABORTED, errno.EPIPE, errno.EBADF})
SNAP_FIELDS = ("wc", "cwf", "conn", "total", "nreq", "ol", "rl", "closed", "pulled", "queue", "pend")


class WakeWorld(World):
    """World + the notes the model alignment needs (application writes, end of
    the task with close_on_finish, what handle_close left in the buffers, send /
    recv answers) + a snapshot of the shared state before every labelled operation."""

    def __init__(self, *a, **kw):
        sndbuf = kw.get("sndbuf", 1 << 16)
        self.real_trigger = bool(kw.pop("real_trigger", False))
        self.client2_script = list(kw.pop("client2_script", None) or [])
        send_plan2 = kw.pop("send_plan2", ())
        World.__init__(self, *a, **kw)
        self.sock = NotingSock(self, kw.get("send_plan", ()), kw.get("recv_faults"), sndbuf, kw.get("setup_faults"))
        self.sock2 = ConnSock(self, send_plan2, None, sndbuf, None) if self.client2_script else None
        self.channel2 = None
        self.fos = None
        self.app_called = set()
        self.sched.observer = self._observe

    def _pulled(self):
        if self.fos is not None:
            return bool(self.fos.pipe_obj.buf)      # the abstraction: pulled <-> the pipe is not empty
        return self.trigger.pulled

    def _final_of(self, ch, fd):
        g = lambda n: object.__getattribute__(ch, n)
        return {"total_outbufs_len": g("total_outbufs_len"), "requests": len(g("requests")),
                "will_close": g("will_close"), "close_when_flushed": g("close_when_flushed"),
                "connected": g("connected"), "in_map": fd in self.map}

    def run(self):
        """World.run, with the options real_trigger (the real waitress.trigger.trigger over a
        fake pipe) and a second connection on the same map / dispatcher."""
        if not self.real_trigger and self.sock2 is None:
            return World.run(self)
        import waitress.channel as wchannel
        import waitress.task as wtask
        import waitress.wasyncore as wasyncore
        import waitress.trigger as wtrigger
        from waitress.adjustments import Adjustments
        import contextlib
        world = self
        fsel = WakeSelect(self)
        with contextlib.ExitStack() as stack:
            stack.enter_context(patched(wchannel, threading=self.ft, time=self.ftime))
            stack.enter_context(patched(wtask, threading=self.ft, time=self.ftime))
            if self.real_trigger:
                self.fos = FakeOS(self.sched)
                stack.enter_context(patched(wasyncore, select=fsel, time=self.ftime, os=self.fos))
                stack.enter_context(patched(wtrigger, threading=self.ft, os=self.fos))
            else:
                stack.enter_context(patched(wasyncore, select=fsel, time=self.ftime))
            adj = Adjustments(**self.adj_kw)
            self.adj = adj
            dispatcher = wtask.ThreadedTaskDispatcher()
            self.dispatcher = dispatcher
            if self.real_trigger:
                self.trigger = wtrigger.trigger(self.map)     # registers its read end in the map
                self.trig_fd = self.trigger._fileno

                class RealServer(FakeServer):
                    def pull_trigger(self):                   # as BaseWSGIServer.pull_trigger
                        self.trigger.pull_trigger()
                self.server = RealServer(self, adj, dispatcher)
            else:
                self.server = FakeServer(self, adj, dispatcher)
                self.map[TRIG_FD] = self.trigger
                self.trig_fd = TRIG_FD
            cls = self._make_channel_class()
            verdict = None
            try:
                def boot():
                    dispatcher.set_thread_count(self.n_workers)
                    try:
                        self.channel = cls(self.server, self.sock, ("127.0.0.1", 40000), adj, map=self.map)
                        if self.sock2 is not None:
                            self.channel2 = cls(self.server, self.sock2, ("127.0.0.1", 40001), adj, map=self.map)
                    except OSError as e:
                        self.sched.note("channel_init_failed", repr(e))
                        return
                    self.tracing = True
                    self.sched.spawn("io", self._io_main)
                    self.sched.spawn("client", self._client_main)
                    if self.sock2 is not None:
                        self.sched.spawn("client2", self._client2_main)
                self.sched.spawn("boot", boot)
                verdict = self.sched.run()
                self.blocked_at_end = self.sched.blocked()
                self.final = self.quiescent_state()
                self.final["trigger_pulled"] = self._pulled()
                if self.channel2 is not None:
                    self.final2 = self._final_of(self.channel2, self.sock2.fileno())
            finally:
                self.tracing = False
                self.stopping = True
                self.sched.kill()
                if self.real_trigger:
                    # close the fake descriptors while the fake os is still installed, so that
                    # file_wrapper.__del__ never reaches the real os.close
                    try:
                        self.trigger.close()
                    except Exception:
                        pass
        self.verdict = verdict
        return verdict

    def quiescent_state(self):
        if self.fos is None:
            return World.quiescent_state(self)
        real, self.trigger = self.trigger, _Pulled(self._pulled())
        try:
            return World.quiescent_state(self)
        finally:
            self.trigger = real

    def _client2_main(self):
        for step in self.client2_script:
            if step[0] == "send":
                self.sched.yield_(Op("client2:send", len(step[1])))
                self.sock2.rx.append(bytes(step[1]))
            elif step[0] == "close":
                self.sched.yield_(Op("client2:close", None))
                self.sock2.client_gone = True

    def _tname(self, lt):
        if lt is None:
            return "-"
        n = lt.name
        return "io" if n == "io" else ("w" + n.split("-")[1] if n.startswith("waitress-") else n)

    def _observe(self, sched, t, op):
        ch = self.channel
        if ch is None or not self.tracing:
            return None
        g = lambda n: object.__getattribute__(ch, n)
        closed = CHAN_FD not in self.map
        try:
            pend = sum(b.__len__() for b in g("outbufs"))
        except Exception:
            pend = -1
        return (int(g("will_close")), int(g("close_when_flushed")), int(bool(g("connected"))), g("total_outbufs_len"),
                len(g("requests")), self._tname(g("outbuf_lock").lock.owner), self._tname(g("requests_lock").owner),
                int(closed), int(self._pulled()), len(self.dispatcher.queue),
                "x" if closed else ("*" if (g("outbuf_lock").lock.owner is not None or not g("connected")) else pend))

    def _make_channel_class(self):
        base = World._make_channel_class(self)
        world = self
        from waitress.task import WSGITask, ErrorTask

        def noting(cls):
            class T(cls):
                def service(self):
                    raised = True
                    try:
                        r = cls.service(self)
                        raised = False
                        return r
                    finally:
                        world.sched.note("task_end", int(bool(raised or self.close_on_finish)))
            T.__name__ = cls.__name__
            return T

        class WakeChannel(base):
            task_class = noting(WSGITask)
            error_task_class = noting(ErrorTask)

            def write_soon(self, data):
                n = len(data)
                if n:
                    world.sched.note("write_soon", n)
                return base.write_soon(self, data)

            def send_continue(self, *a, **kw):
                world.sched.note("send_continue", None)
                try:
                    return base.send_continue(self, *a, **kw)
                except ValueError:     # append to a buffer that handle_close has closed
                    world.sched.note("sc_append_raised", None)
                    raise

            def handle_close(self):
                try:
                    return base.handle_close(self)
                finally:
                    try:
                        left = sum(b.__len__() for b in object.__getattribute__(self, "outbufs"))
                    except Exception:
                        left = 0
                    world.sched.note("hc_keep", int(left > 0))

        return WakeChannel


def make_world(sc, schedule=(), policy=None, max_steps=6000):
    plan = [tuple(p) if isinstance(p, list) else p for p in sc.get("send_plan", [])]
    rf = {int(k): v for k, v in (sc.get("recv_faults") or {}).items()}
    holder = []
    c2 = sc.get("conn2")
    reqs = list(sc["reqs"]) + (list(c2["reqs"]) if c2 else [])
    w = WakeWorld(make_app(reqs, holder), client_script(sc), schedule=schedule, policy=policy,
                  adj_kw=dict(sc.get("adj", {})), n_workers=sc.get("workers", 1), send_plan=plan,
                  recv_faults=rf, granularity=sc.get("gran", "locks"), use_poll=bool(sc.get("poll")),
                  max_steps=max_steps, sndbuf=sc.get("sndbuf", 1 << 16),
                  real_trigger=bool(sc.get("real_trigger")),
                  client2_script=(client_script(c2) if c2 else None),
                  send_plan2=[tuple(p) if isinstance(p, list) else p for p in (c2.get("send_plan", []) if c2 else [])])
    holder.append(w)
    return w


# ----------------------------------------------------------------------------
# the monitor: the predicate of theorem C05 on the final (quiescent) state

def parked(world):
    """-> dict thread name -> where: 'select' | 'queue_cv' | 'outbuf_cv' | other"""
    ch = world.channel
    out = {}
    ob = object.__getattribute__(ch, "outbuf_lock") if ch is not None else None
    qcv = world.dispatcher.queue_cv
    for name, kind, detail in world.blocked_at_end:
        if kind == "select":
            out[name] = "select"
        elif kind == "wake":
            cv = detail[0]
            if cv == qcv.name:
                out[name] = "queue_cv"
            elif ob is not None and cv == ob.name:
                out[name] = "outbuf_cv"
            else:
                out[name] = "cv:" + str(cv)
        else:
            out[name] = "%s:%s" % (kind, detail)
    return out


def monitor(world, sc):
    """-> (class, problems).  class: 'quiescent' (the run ended in a quiescent
    state, problems lists the conjuncts of C05 that fail there), 'overrun'
    (no quiescence within max_steps: a spin, reported separately), 'finished'
    (every thread ended: the map became empty)."""
    v = world.verdict
    if world.io_error is not None:
        return "io_died", ["io loop died: %r" % (world.io_error,)]
    if v == "overrun":
        return "overrun", ["no quiescent state within %d steps" % world.sched.max_steps]
    f = world.final
    pk = parked(world) if v == "blocked" else {}
    probs = []
    if v == "blocked":
        # the pool: a queued task must not sit there while a worker sleeps on queue_cv
        idle = [n for n, where in pk.items() if where == "queue_cv"]
        if f["queue"] and idle:
            probs.append("dispatcher queue holds %d task(s) while worker(s) %s sleep on queue_cv"
                         % (f["queue"], ",".join(sorted(idle))))
        for name, where in pk.items():
            if where.startswith("app:wait_event"):
                continue        # waits for another request; judged by the pool condition above
            if where.startswith("app:wait"):
                # the application waits for its consumer: everything waitress is supposed to send
                # (at least send_bytes pending) must be on its way
                if f["connected"] and f["total_outbufs_len"] >= max(1, world.adj.send_bytes):
                    probs.append("undelivered output while the application waits for its consumer: total_outbufs_len=%d send_bytes=%d"
                                 % (f["total_outbufs_len"], world.adj.send_bytes))
            elif where not in ("select", "queue_cv", "outbuf_cv"):
                probs.append("thread %s blocked at %s (deadlock, not a park)" % (name, where))
        if any(wh.startswith("app:wait") for wh in pk.values()):
            return "quiescent-app", probs
    if f["trigger_pulled"] and v == "blocked":
        probs.append("trigger pulled but io blocked")
    hw = world.adj.outbuf_high_watermark
    if f["total_outbufs_len"] and f["in_map"]:      # a closed channel has nobody to deliver to
        probs.append("undelivered output: total_outbufs_len=%d" % f["total_outbufs_len"])
    if f["queue"] and f["in_map"]:
        probs.append("dispatcher queue holds %d unserviced task(s)" % f["queue"])
    if f["requests"] and f["in_map"]:
        probs.append("requests holds %d unserviced request(s)" % f["requests"])
    for name, where in pk.items():
        if where == "outbuf_cv":
            if (not f["connected"]) or f["total_outbufs_len"] <= hw:
                probs.append("producer %s parked on outbuf_lock with space available (total=%d, high_watermark=%d, connected=%s)"
                             % (name, f["total_outbufs_len"], hw, f["connected"]))
    if (f["will_close"] or f["close_when_flushed"]) and f["in_map"]:
        probs.append("closing (will_close=%s close_when_flushed=%s) but the channel is still in the map"
                     % (f["will_close"], f["close_when_flushed"]))
    # a client that sent all its requests and keeps reading: everything it sent
    # must have been read unless the channel closed or stopped reading for a reason
    if world.sock.rx and f["in_map"] and v == "blocked":
        probs.append("client bytes unread (%d chunk(s)) while the channel is open and quiescent" % len(world.sock.rx))
    f2 = getattr(world, "final2", None)
    if f2 is not None:      # the second connection: the same conjuncts
        if f2["total_outbufs_len"] and f2["in_map"]:
            probs.append("connection 2: undelivered output: total_outbufs_len=%d" % f2["total_outbufs_len"])
        if f2["requests"] and f2["in_map"]:
            probs.append("connection 2: requests holds %d unserviced request(s)" % f2["requests"])
        if (f2["will_close"] or f2["close_when_flushed"]) and f2["in_map"]:
            probs.append("connection 2: closing but still in the map")
        if world.sock2.rx and f2["in_map"] and v == "blocked":
            probs.append("connection 2: client bytes unread while the channel is open and quiescent")
    return ("quiescent" if v == "blocked" else "finished"), probs


def classify(sc, world, cls, probs):
    """Known-finding class of a failing run: none is open any more (every class this check
    found has been repaired in /repo), so every failing run is a violation."""
    return None


class Fair:
    """Wraps a policy: after `after` decisions every thread other than the I/O
    thread is preferred (workers and client run until they block), so that a
    run which has not become quiescent by then is a genuine spin of the I/O
    loop and not an artefact of an unfair random schedule (the I/O thread
    polling a lock that an enabled worker holds)."""

    def __init__(self, inner, after=1500):
        self.inner = inner
        self.after = after

    def __call__(self, sched, enabled, cont):
        if sched.step_no < self.after and self.inner is not None:
            return self.inner(sched, enabled, cont)
        if sched.step_no < self.after:
            return cont if cont is not None else 0
        for i, t in enumerate(enabled):
            if t.name != "io":
                return i
        return 0


def run_one(sc, schedule=(), policy=None, max_steps=4000):
    w = make_world(sc, schedule, Fair(policy), max_steps)
    w.run()
    cls, probs = monitor(w, sc)
    return w, cls, probs


def replay_dict(sc, world, cls, probs):
    return {"scenario": sc, "choices": list(world.sched.choices), "expected": "quiescent state satisfies C05",
            "observed": {"class": cls, "problems": probs, "final": {k: v for k, v in world.final.items() if k != "blocked"},
                         "parked": parked(world) if world.verdict == "blocked" else {}},
            "failing_input_found": True}


# ----------------------------------------------------------------------------
# mapping of a real trace to the event stream of the model (ocaml/chanwake/driver.ml: trace)

ATTR = {"will_close": "wc", "close_when_flushed": "cwf", "connected": "conn", "total_outbufs_len": "tot",
        "requests": "req", "request": "rq"}


def model_tokens(world, sc):
    """-> (header words, tokens) for the driver's `trace` command."""
    ch = world.channel
    g = lambda n: object.__getattribute__(ch, n)
    disp = world.dispatcher
    locks = {disp.lock.name: "d", g("requests_lock").name: "r", g("outbuf_lock").lock.name: "o"}
    if getattr(world, "fos", None) is not None:
        locks[world.trigger.lock.name] = "t"      # the real trigger's lock
    cvs = {disp.queue_cv.name: "q", g("outbuf_lock").name: "o"}
    ev = world.sched.events
    segs = segments(sc)
    nseg = 0

    def tname(n):
        if n == "io":
            return "io"
        if n == "client":
            return "c"
        if n.startswith("waitress-"):
            return "w" + n.split("-")[1]
        return None

    # the last task_end of every service() span is the task's verdict
    last_task_end = set()
    open_span = {}
    for i, (th, kind, det) in enumerate(ev):
        if kind == "service_start":
            open_span[th] = None
        elif kind == "task_end":
            open_span[th] = i
        elif kind == "service_end":
            if open_span.get(th) is not None:
                last_task_end.add(open_span[th])
            open_span[th] = None
    for th, i in open_span.items():      # service() still running at the end of the run
        if i is not None:
            last_task_end.add(i)

    toks = []   # (event index, thread, label, arg)
    for i, (th, kind, det) in enumerate(ev):
        t = tname(th)
        if t is None:
            continue
        lab = arg = None
        if kind == "begin":
            lab = "Begin"
        elif kind.startswith("R:") or kind.startswith("W:"):
            a = ATTR.get(kind[2:])
            if a:
                lab = kind[0] + a
        elif kind in ("acquire", "try_acquire", "release", "reacquire"):
            l = locks.get(det)
            if l:
                lab = {"acquire": "Aq", "try_acquire": "Tr", "release": "Rl", "reacquire": "Aq"}[kind] + l
        elif kind == "wait":
            if det in cvs:
                lab = "Wt" + cvs[det]
        elif kind == "wake":
            if det[0] in cvs:
                lab = "Wk" + cvs[det[0]]
        elif kind in ("notify", "notify_all"):
            if det[0] in cvs:
                lab = "Nf" + cvs[det[0]]
        elif kind == "sock_send":
            lab = "Sd"
            arg = "?"
            for j in range(i + 1, len(ev)):
                if ev[j][0] == th and ev[j][1] == "send_result":
                    arg = ev[j][2]
                    break
                if ev[j][0] == th and ev[j][1] == "sock_send":
                    break
        elif kind == "sock_recv":
            lab = "Rv"
            arg = "?"
            for j in range(i + 1, len(ev)):
                if ev[j][0] == th and ev[j][1] == "recv_result":
                    arg = ev[j][2]
                    break
        elif kind == "select":
            lab = "Sel"
        elif kind in ("pull_trigger", "pipe_write"):
            lab = "Pull"            # the fake flag is set / one byte is written to the real trigger's pipe
        elif kind in ("trigger_read", "pipe_read"):
            lab = "TrigRead"        # the trigger's handle_read (os.read drains the pipe)
        elif kind == "add_task":
            lab = "AddTask"
        elif kind == "map_del":
            lab = "MapDel"
        elif kind == "write_soon":
            lab, arg = "Write", str(det)
        elif kind == "task_end":
            if i in last_task_end:
                lab, arg = "Done", str(det)
        elif kind == "hc_keep":
            lab, arg = "Keep", str(det)
        elif kind == "send_continue" and th != "io":
            lab, arg = "ScAppend", "0"
            for j in range(i + 1, len(ev)):
                if ev[j][0] == th and ev[j][1] == "service_end":
                    break
                if ev[j][0] == th and ev[j][1] == "sc_append_raised":
                    arg = "1"
                    break
        elif kind == "client:send":
            lab, arg = "Client", segs[nseg][0]
            nseg += 1
        elif kind == "client:close":
            lab = "ClientClose"
        if lab is not None:
            if arg == "?":
                continue   # the operation was announced but the run ended before it was performed
            toks.append([i, t, lab, arg if arg is not None else "-", "-"])
            if kind == "trigger_read":
                # the FakeTrigger has no lock: the model's step for it is matched by two pseudo events
                toks.append([i, t, "Aqt", "-", "-"])
                toks.append([i, t, "Rlt", "-", "-"])
    # snapshots: snaps[j] is the state before the labelled operation recorded as event j
    snaps = sorted((j, v) for j, v in world.sched.snaps.items() if v is not None)
    k = 0
    for j, v in snaps:
        while k < len(toks) and toks[k][0] < j:
            k += 1
        if k > 0 and toks[k - 1][0] < j:
            toks[k - 1][4] = ",".join(str(x) for x in v)
    if toks and world.channel is not None:
        v = world._observe(None, None, None)
        if v is not None:
            toks[-1][4] = ",".join(str(x) for x in v)
    adj = world.adj
    head = ["trace", str(adj.channel_request_lookahead), str(adj.send_bytes), str(adj.outbuf_high_watermark),
            "1" if world.use_poll else "0", str(world.n_workers), world.granularity]
    return head, ["%s;%s;%s;%s" % (t, lab, arg, snap) for _, t, lab, arg, snap in toks]


# ----------------------------------------------------------------------------
# shape audit: the lock scopes, shared-attribute accesses, flag tests and wake-up calls of
# the methods that Model/ChanWake.v represents, as a token string per method

AUDIT_ATTRS = frozenset({"will_close", "close_when_flushed", "connected", "total_outbufs_len", "requests",
                         "request", "sent_continue", "outbufs", "current_outbuf_count",
                         "outbuf_lock", "requests_lock", "lock", "queue_cv", "queue", "stop_count",
                         "thunks", "trigger", "_fds", "_closed", "fd"})
AUDIT_CALLS = frozenset({"pull_trigger", "add_task", "notify", "notify_all", "wait", "acquire", "release", "send", "recv",
                         "handle_close", "handle_read", "handle_write", "handle_error", "send_continue", "received",
                         "_flush_some", "_flush_some_if_lockable", "_flush_exception",
                         "_flush_outbufs_below_high_watermark", "service", "close", "del_channel", "append", "pop",
                         "popleft", "readable", "writable", "handle_read_event", "handle_write_event",
                         "handle_expt_event", "select", "poll", "register", "get", "skip", "read", "write",
                         "readwrite", "_physical_pull", "_close", "pipe", "dup", "set_blocking", "set_file",
                         "add_channel"})

AUDITED = [
    ("channel.py", "HTTPChannel", m) for m in (
        "writable", "handle_write", "_flush_exception", "readable", "handle_read", "send_continue", "received",
        "_flush_some_if_lockable", "_flush_some", "handle_close", "write_soon",
        "_flush_outbufs_below_high_watermark", "service")
] + [
    ("task.py", "ThreadedTaskDispatcher", "handler_thread"), ("task.py", "ThreadedTaskDispatcher", "add_task"),
    ("wasyncore.py", None, "read"), ("wasyncore.py", None, "write"), ("wasyncore.py", None, "readwrite"),
    ("wasyncore.py", None, "poll"), ("wasyncore.py", None, "poll2"),
    ("wasyncore.py", "dispatcher", "send"), ("wasyncore.py", "dispatcher", "recv"),
    ("wasyncore.py", "dispatcher", "close"), ("wasyncore.py", "dispatcher", "handle_read_event"),
    ("wasyncore.py", "dispatcher", "handle_write_event"),
    ("trigger.py", "_triggerbase", "pull_trigger"), ("trigger.py", "_triggerbase", "handle_read"),
    ("trigger.py", "_triggerbase", "__init__"), ("trigger.py", "_triggerbase", "close"),
    ("trigger.py", "trigger", "__init__"), ("trigger.py", "trigger", "_physical_pull"), ("trigger.py", "trigger", "_close"),
    ("wasyncore.py", "file_wrapper", "recv"), ("wasyncore.py", "file_wrapper", "send"),
    ("wasyncore.py", "file_dispatcher", "__init__"), ("wasyncore.py", "file_dispatcher", "set_file"),
]


class _Shape(ast.NodeVisitor):
    def __init__(self):
        self.out = []

    def emit(self, t):
        self.out.append(t)

    def block(self, stmts):
        self.emit("{")
        for s in stmts:
            self.visit(s)
        self.emit("}")

    # expressions
    def visit_Attribute(self, node):
        self.visit(node.value)
        if node.attr in AUDIT_ATTRS:
            self.emit(("W:" if isinstance(node.ctx, ast.Store) else "R:") + node.attr)
        elif node.attr in AUDIT_CALLS:
            self.emit("m:" + node.attr)       # a method taken as a value (flush = self._flush_some_if_lockable)

    def visit_Name(self, node):
        if isinstance(node.ctx, ast.Load) and node.id not in ("self", "True", "False", "None"):
            self.emit("v:" + node.id)

    def visit_Call(self, node):
        f = node.func
        name = f.attr if isinstance(f, ast.Attribute) else (f.id if isinstance(f, ast.Name) else None)
        self.visit(f)
        for a in node.args:
            self.visit(a)
        for k in node.keywords:
            self.visit(k.value)
        if name in AUDIT_CALLS:
            kws = ",".join("%s=%s" % (k.arg, ast.unparse(k.value)) for k in node.keywords)
            self.emit("call:%s(%s)" % (name, kws))

    def visit_AugAssign(self, node):
        self.visit(node.value)
        t = node.target
        if isinstance(t, ast.Attribute):
            self.visit(t.value)
            if t.attr in AUDIT_ATTRS:
                self.emit("R:" + t.attr)
                self.emit("W:" + t.attr)

    def visit_Assign(self, node):
        self.visit(node.value)
        for t in node.targets:
            self.visit(t)

    def visit_AnnAssign(self, node):          # x: int = 0  ==  x = 0
        if node.value is not None:
            self.visit(node.value)
            self.visit(node.target)

    def visit_BoolOp(self, node):
        self.emit("and(" if isinstance(node.op, ast.And) else "or(")
        for v in node.values:
            self.visit(v)
            self.emit(",")
        self.emit(")")

    def visit_Compare(self, node):
        self.generic_visit(node)
        self.emit("cmp:" + ",".join(type(o).__name__ for o in node.ops) + ":" +
                  ",".join(ast.unparse(c) for c in node.comparators if isinstance(c, ast.Constant)))

    def visit_UnaryOp(self, node):
        if isinstance(node.op, ast.Not):
            self.emit("not")
        self.visit(node.operand)

    # statements
    def visit_With(self, node):
        for it in node.items:
            self.visit(it.context_expr)
        self.emit("with")
        self.block(node.body)

    def visit_If(self, node):
        self.emit("if")
        self.visit(node.test)
        self.block(node.body)
        if node.orelse:
            self.emit("else")
            self.block(node.orelse)

    def visit_While(self, node):
        self.emit("while")
        self.visit(node.test)
        self.block(node.body)
        if node.orelse:
            self.emit("else")
            self.block(node.orelse)

    def visit_For(self, node):
        self.emit("for")
        self.visit(node.iter)
        self.block(node.body)

    def visit_Try(self, node):
        self.emit("try")
        self.block(node.body)
        for h in node.handlers:
            self.emit("except:" + (ast.unparse(h.type) if h.type is not None else "*"))
            self.block(h.body)
        if node.orelse:
            self.emit("else")
            self.block(node.orelse)
        if node.finalbody:
            self.emit("finally")
            self.block(node.finalbody)

    def visit_Return(self, node):
        if node.value is not None:
            self.visit(node.value)
        self.emit("return")

    def visit_Raise(self, node):
        self.emit("raise:" + (ast.unparse(node.exc) if node.exc is not None else ""))

    def visit_Break(self, node):
        self.emit("break")

    def visit_Continue(self, node):
        self.emit("continue")


def _normalise_locals(fn):
    """Rename the function-LOCAL names (everything bound inside the body: assignment, augmented
    and annotated assignment, for / with-as / except-as targets, comprehension variables, :=)
    to v1, v2, ... in order of first binding occurrence.  Parameters, globals, builtins and
    attributes keep their names: a renamed local cannot change behaviour, anything else can."""
    params = {a.arg for a in fn.args.posonlyargs + fn.args.args + fn.args.kwonlyargs}
    if fn.args.vararg:
        params.add(fn.args.vararg.arg)
    if fn.args.kwarg:
        params.add(fn.args.kwarg.arg)
    declared = set()
    order = []

    def bind(name):
        if name not in params and name not in declared and name not in order:
            order.append(name)

    class Binder(ast.NodeVisitor):
        def visit_Global(self, node):
            declared.update(node.names)

        visit_Nonlocal = visit_Global

        def visit_Name(self, node):
            if isinstance(node.ctx, (ast.Store, ast.Del)):
                bind(node.id)

        def visit_ExceptHandler(self, node):
            if node.name:
                bind(node.name)
            self.generic_visit(node)

        def visit_FunctionDef(self, node):      # a nested function: its name is a local binding
            bind(node.name)

        visit_AsyncFunctionDef = visit_FunctionDef
        visit_ClassDef = visit_FunctionDef

    b = Binder()
    for st in fn.body:
        b.visit(st)
    ren = {n: "v%d" % (k + 1) for k, n in enumerate(order)}

    class Renamer(ast.NodeTransformer):
        def visit_Name(self, node):
            if node.id in ren:
                return ast.copy_location(ast.Name(id=ren[node.id], ctx=node.ctx), node)
            return node

        def visit_ExceptHandler(self, node):
            self.generic_visit(node)
            if node.name in ren:
                node.name = ren[node.name]
            return node

    import copy
    fn2 = copy.deepcopy(fn)
    fn2.body = [Renamer().visit(st) for st in fn2.body]
    return fn2


def shape_signatures(src_dir):
    """-> dict 'file:Class.method' -> token string"""
    out = {}
    trees = {}
    for fname, cls, meth in AUDITED:
        if fname not in trees:
            trees[fname] = ast.parse(open(os.path.join(src_dir, fname)).read())
        tree = trees[fname]
        body = tree.body
        if cls is not None:
            # classes may be nested under `if os.name == "posix":` -- the first one in source order
            body = next((n.body for n in ast.walk(tree) if isinstance(n, ast.ClassDef) and n.name == cls), [])
        fn = next((n for n in body if isinstance(n, ast.FunctionDef) and n.name == meth), None)
        key = "%s:%s.%s" % (fname, cls or "", meth)
        if fn is None:
            out[key] = "MISSING"
            continue
        v = _Shape()
        v.block(_normalise_locals(fn).body)
        out[key] = " ".join(v.out)
    return out


# The shape of the audited methods on the tree the model was written against (one token string per
# method: lock scopes `with {..}`, R:/W: of the shared attributes, tests, calls).  Which step of
# Model/ChanWake.v stands for which statement is stated in the header comment of the model.
EXPECTED_SHAPE = {
    'channel.py:HTTPChannel.writable': (
        '{ or( R:total_outbufs_len cmp:Gt:0 , R:will_close , R:close_when_flushed , ) return }'
    ),
    'channel.py:HTTPChannel.handle_write': (
        '{ if not R:requests { m:_flush_some_if_lockable } else { if or( R:total_outbufs_len cmp:GtE: , R:tot'
        'al_outbufs_len cmp:Gt: , ) { m:_flush_some_if_lockable } else { } } m:_flush_exception v:v1 call:_fl'
        'ush_exception() if and( R:close_when_flushed , not R:total_outbufs_len , ) { W:close_when_flushed W:'
        'will_close } if R:will_close { m:handle_close call:handle_close() } }'
    ),
    'channel.py:HTTPChannel._flush_exception': (
        '{ if v:flush { try { v:flush v:do_close return } except:OSError { if { } W:will_close return } excep'
        't:Exception { W:will_close return } } return }'
    ),
    'channel.py:HTTPChannel.readable': (
        '{ not or( R:will_close , R:close_when_flushed , v:len R:requests cmp:Gt: , R:total_outbufs_len , ) r'
        'eturn }'
    ),
    'channel.py:HTTPChannel.handle_read': (
        '{ try { m:recv call:recv() } except:OSError { if { } m:handle_close call:handle_close() return } if '
        'v:v1 { v:time m:received v:v1 call:received() } else { W:connected } }'
    ),
    'channel.py:HTTPChannel.send_continue': (
        '{ R:request v:len v:v1 R:outbuf_lock with { R:outbufs m:append v:v1 call:append() v:v2 R:current_out'
        'buf_count W:current_outbuf_count v:v2 R:total_outbufs_len W:total_outbufs_len W:sent_continue m:_flu'
        'sh_exception m:_flush_some v:do_close call:_flush_exception(do_close=do_close) } }'
    ),
    'channel.py:HTTPChannel.received': (
        '{ if not v:data { return } R:requests_lock with { if or( R:will_close , R:close_when_flushed , ) { r'
        'eturn } while v:data { if R:request cmp:Is:None { W:request } R:request m:received v:data call:recei'
        'ved() if and( R:request , R:request , not R:requests , not R:sent_continue , ) { m:send_continue cal'
        'l:send_continue() } if R:request { W:sent_continue if not R:request { R:requests m:append R:request '
        'call:append() if v:len R:requests cmp:Eq:1 { m:add_task call:add_task() } } W:request } if v:v1 v:le'
        'n v:data cmp:GtE: { break } v:data v:v1 } } return }'
    ),
    'channel.py:HTTPChannel._flush_some_if_lockable': (
        '{ if R:outbuf_lock m:acquire call:acquire() { try { m:_flush_some v:do_close call:_flush_some(do_clo'
        'se=do_close) if R:total_outbufs_len cmp:LtE: { R:outbuf_lock m:notify call:notify() } } finally { R:'
        'outbuf_lock m:release call:release() } } }'
    ),
    'channel.py:HTTPChannel._flush_some': (
        '{ while { R:outbufs v:v3 while v:v4 cmp:Gt:0 { v:v3 m:get call:get() m:send v:v5 v:do_close call:sen'
        'd(do_close=do_close) if v:v6 { v:v3 m:skip v:v6 call:skip() v:v6 v:v6 v:v6 R:total_outbufs_len W:tot'
        'al_outbufs_len } else { break } } else { if v:len R:outbufs cmp:Gt:1 { R:outbufs m:pop call:pop() tr'
        'y { v:v7 m:close call:close() } except:Exception { } } else { } } if v:v2 { break } } if v:v1 { v:ti'
        'me return } return }'
    ),
    'channel.py:HTTPChannel.handle_close': (
        '{ R:outbuf_lock with { for R:outbufs { try { v:v1 m:close call:close() } except:Exception { } } W:to'
        'tal_outbufs_len W:connected R:outbuf_lock m:notify call:notify() } v:wasyncore m:close call:close() '
        '}'
    ),
    'channel.py:HTTPChannel.write_soon': (
        '{ if not R:connected { raise:ClientDisconnected } if v:data { R:outbuf_lock with { m:_flush_outbufs_'
        'below_high_watermark call:_flush_outbufs_below_high_watermark() if not R:connected { raise:ClientDis'
        'connected } v:len v:data if v:isinstance v:data v:ReadOnlyFileBasedBuffer { R:outbufs m:append v:dat'
        'a call:append() v:OverflowableBuffer R:outbufs m:append v:v2 call:append() W:current_outbuf_count } '
        'else { if R:current_outbuf_count cmp:GtE: { v:OverflowableBuffer R:outbufs m:append v:v2 call:append'
        '() W:current_outbuf_count } R:outbufs m:append v:data call:append() v:v1 R:current_outbuf_count W:cu'
        'rrent_outbuf_count } v:v1 R:total_outbufs_len W:total_outbufs_len if R:total_outbufs_len cmp:GtE: { '
        'm:_flush_exception m:_flush_some call:_flush_exception(do_close=False) if or( v:v4 , not v:v3 , R:to'
        'tal_outbufs_len cmp:GtE: , ) { m:pull_trigger call:pull_trigger() } } } v:v1 return } return }'
    ),
    'channel.py:HTTPChannel._flush_outbufs_below_high_watermark': (
        '{ if R:total_outbufs_len cmp:Gt: { R:outbuf_lock with { if not R:connected { return } m:_flush_excep'
        'tion m:_flush_some call:_flush_exception(do_close=False) if v:v2 { m:pull_trigger call:pull_trigger('
        ') R:outbuf_lock m:wait call:wait() return } while and( R:connected , R:total_outbufs_len cmp:Gt: , )'
        ' { m:pull_trigger call:pull_trigger() R:outbuf_lock m:wait call:wait() } } } }'
    ),
    'channel.py:HTTPChannel.service': (
        '{ R:requests if v:v1 { v:v1 } else { v:v1 } try { if and( R:connected , not R:will_close , ) { v:v2 '
        'm:service call:service() } else { v:v2 } } except:ClientDisconnected { v:v2 R:request v:v2 } except:'
        'BaseException { v:v2 R:request if not v:v2 { if { v:traceback } else { } v:v1 v:v1 v:InternalServerE'
        'rror v:v3 v:v6 v:v4 v:v6 v:getattr v:v1 v:v6 try { v:v5 v:v6 } except:KeyError { } v:v6 try { v:v2 m'
        ':service call:service() } except:ClientDisconnected { v:v2 } } else { v:v2 } } if v:v2 { R:requests_'
        'lock with { W:close_when_flushed for R:requests { v:v1 m:close call:close() } W:requests } } else { '
        'if v:len R:requests cmp:Gt:1 { m:_flush_outbufs_below_high_watermark call:_flush_outbufs_below_high_'
        'watermark() } if R:current_outbuf_count cmp:Gt:0 { W:current_outbuf_count } v:v1 m:close call:close('
        ') R:requests_lock with { R:requests m:pop call:pop() if and( R:connected , R:requests , ) { m:add_ta'
        'sk call:add_task() } else { if and( R:connected , R:request cmp:IsNot:None , R:request , R:request ,'
        ' not R:sent_continue , ) { m:send_continue call:send_continue(do_close=False) } } } } if R:connected'
        ' { m:pull_trigger call:pull_trigger() } v:time }'
    ),
    'task.py:ThreadedTaskDispatcher.handler_thread': (
        '{ while { R:lock with { while and( not R:queue , R:stop_count cmp:Eq:0 , ) { R:queue_cv m:wait call:'
        'wait() } if R:stop_count cmp:Gt:0 { R:stop_count W:stop_count v:thread_no m:notify call:notify() bre'
        'ak } R:queue m:popleft call:popleft() } try { v:v1 m:service call:service() } except:BaseException {'
        ' v:v1 } } }'
    ),
    'task.py:ThreadedTaskDispatcher.add_task': (
        '{ R:lock with { R:queue m:append v:task call:append() R:queue_cv m:notify call:notify() v:len R:queu'
        'e v:len R:stop_count if v:v1 v:v2 cmp:Gt: { v:v1 v:v2 } } }'
    ),
    'wasyncore.py:.read': (
        '{ try { v:obj m:handle_read_event call:handle_read_event() } except:_reraised_exceptions { raise: } '
        'except:* { v:obj m:handle_error call:handle_error() } }'
    ),
    'wasyncore.py:.write': (
        '{ try { v:obj m:handle_write_event call:handle_write_event() } except:_reraised_exceptions { raise: '
        '} except:* { v:obj m:handle_error call:handle_error() } }'
    ),
    'wasyncore.py:.readwrite': (
        '{ try { if v:flags v:select { v:obj m:handle_read_event call:handle_read_event() } if v:flags v:sele'
        'ct { v:obj m:handle_write_event call:handle_write_event() } if v:flags v:select { v:obj m:handle_exp'
        't_event call:handle_expt_event() } if v:flags v:select v:select v:select { v:obj m:handle_close call'
        ':handle_close() } } except:OSError { if v:v1 v:_DISCONNECTED cmp:NotIn: { v:obj m:handle_error call:'
        'handle_error() } else { v:obj m:handle_close call:handle_close() } } except:_reraised_exceptions { r'
        'aise: } except:* { v:obj m:handle_error call:handle_error() } }'
    ),
    'wasyncore.py:.poll': (
        '{ if v:map cmp:Is:None { v:socket_map } if v:map { for v:list v:map { v:v5 m:readable call:readable('
        ') v:v5 m:writable call:writable() if v:v6 { v:v1 m:append v:v4 call:append() } if and( v:v7 , not v:'
        'v5 , ) { v:v2 m:append v:v4 call:append() } if or( v:v6 , v:v7 , ) { v:v3 m:append v:v4 call:append('
        ') } } if v:v1 v:v2 v:v3 cmp:Eq,Eq,Eq: { v:time v:timeout return } try { v:select m:select v:v1 v:v2 '
        'v:v3 v:timeout call:select() } except:OSError { if v:v8 v:EINTR cmp:NotEq: { raise: } else { return '
        '} } for v:v1 { v:map m:get v:v4 call:get() if v:v5 cmp:Is:None { continue } v:read v:v5 call:read() '
        '} for v:v2 { v:map m:get v:v4 call:get() if v:v5 cmp:Is:None { continue } v:write v:v5 call:write() '
        '} for v:v3 { v:map m:get v:v4 call:get() if v:v5 cmp:Is:None { continue } v:_exception v:v5 } } }'
    ),
    'wasyncore.py:.poll2': (
        '{ if v:map cmp:Is:None { v:socket_map } if v:timeout cmp:IsNot:None { v:int v:timeout } v:select m:p'
        'oll call:poll() if v:map { for v:list v:map { if v:v3 m:readable call:readable() { v:select v:select'
        ' } if and( v:v3 m:writable call:writable() , not v:v3 , ) { v:select } if v:v4 { v:v1 m:register v:v'
        '2 v:v4 call:register() } } try { v:v1 m:poll v:timeout call:poll() } except:OSError { if v:v6 v:EINT'
        'R cmp:NotEq: { raise: } } for v:v5 { v:map m:get v:v2 call:get() if v:v3 cmp:Is:None { continue } v:'
        'readwrite v:v3 v:v4 call:readwrite() } } }'
    ),
    'wasyncore.py:dispatcher.send': (
        '{ try { m:send v:data call:send() v:v1 return } except:OSError { if v:v2 v:EWOULDBLOCK cmp:Eq: { ret'
        'urn } else { if v:v2 v:_DISCONNECTED cmp:In: { if v:do_close { m:handle_close call:handle_close() } '
        'return } else { raise: } } } }'
    ),
    'wasyncore.py:dispatcher.recv': (
        '{ try { m:recv v:buffer_size call:recv() if not v:v1 { m:handle_close call:handle_close() return } e'
        'lse { v:v1 return } } except:OSError { if v:v2 v:_DISCONNECTED cmp:In: { m:handle_close call:handle_'
        'close() return } else { raise: } } }'
    ),
    'wasyncore.py:dispatcher.close': (
        '{ W:connected m:del_channel call:del_channel() if cmp:IsNot:None { try { m:close call:close() } exce'
        'pt:OSError { if v:v1 v:ENOTCONN v:EBADF cmp:NotIn: { raise: } } } }'
    ),
    'wasyncore.py:dispatcher.handle_read_event': (
        '{ if { } else { if not R:connected { if { } m:handle_read call:handle_read() } else { m:handle_read '
        'call:handle_read() } } }'
    ),
    'wasyncore.py:dispatcher.handle_write_event': (
        '{ if { return } if not R:connected { if { } } m:handle_write call:handle_write() }'
    ),
    'trigger.py:_triggerbase.pull_trigger': (
        '{ if v:thunk { R:lock with { R:thunks m:append v:thunk call:append() } } m:_physical_pull call:_phys'
        'ical_pull() }'
    ),
    'trigger.py:_triggerbase.handle_read': (
        '{ try { m:recv call:recv() } except:OSError { return } R:lock with { for R:thunks { try { v:v1 } exc'
        'ept:* { v:wasyncore v:v3 v:v4 v:v5 } } W:thunks } }'
    ),
    'trigger.py:_triggerbase.__init__': (
        '{ W:_closed v:threading W:lock W:thunks }'
    ),
    'trigger.py:_triggerbase.close': (
        '{ if not R:_closed { W:_closed m:del_channel call:del_channel() m:_close call:_close() } }'
    ),
    'trigger.py:trigger.__init__': (
        '{ v:_triggerbase v:os m:pipe call:pipe() W:trigger W:_fds v:wasyncore v:v1 v:map }'
    ),
    'trigger.py:trigger._physical_pull': (
        '{ v:os m:write R:trigger call:write() }'
    ),
    'trigger.py:trigger._close': (
        '{ for R:_fds { v:os m:close v:v1 call:close() } W:_fds v:wasyncore m:close call:close() }'
    ),
    'wasyncore.py:file_wrapper.recv': (
        '{ v:os m:read R:fd v:args call:read() return }'
    ),
    'wasyncore.py:file_wrapper.send': (
        '{ v:os m:write R:fd v:args call:write() return }'
    ),
    'wasyncore.py:file_dispatcher.__init__': (
        '{ v:dispatcher v:map W:connected try { v:fd } except:AttributeError { } m:set_file v:fd call:set_fil'
        'e() v:os m:set_blocking v:fd call:set_blocking() }'
    ),
    'wasyncore.py:file_dispatcher.set_file': (
        '{ v:file_wrapper v:fd m:add_channel call:add_channel() }'
    ),
}


# ----------------------------------------------------------------------------
# generators

SIZES = (1, 5, 40, 100, 200, 300, 600)


def gen_scenario(rng, faults=True, expect=True, hw_choices=(1, 60, 120, 250, 16777216), sb_choices=(1, 1, 50, 150),
                 sb_any=False):
    """Structured scenario: 1-3 requests, response sizes around send_bytes / the size of one
    send / the watermark, partial-send plans (absolute sizes and "all but k bytes" with k around
    send_bytes), both poll functions, both granularities."""
    nreq = rng.choice([1, 1, 2, 2, 3])
    reqs = []
    for i in range(nreq):
        reqs.append({"path": "/r%d" % i,
                     "chunks": [rng.choice(SIZES) for _ in range(rng.choice([1, 1, 2, 3]))],
                     "cl": rng.random() < 0.6, "close": rng.random() < 0.2,
                     "v": rng.choice(["1.1", "1.1", "1.0"]),
                     "expect": expect and rng.random() < 0.12, "iter": rng.random() < 0.5})
    nparts = sum(2 if r["expect"] else 1 for r in reqs)
    mode = rng.choice(["one", "per_part", "rand"])
    if mode == "rand":
        segs, cur = [], []
        for i in range(nparts):
            cur.append(i)
            if rng.random() < 0.5:
                segs.append(cur)
                cur = []
        if cur:
            segs.append(cur)
    else:
        segs = mode
    hw = rng.choice(hw_choices)
    sb = rng.choice(list(sb_choices) if sb_any else ([x for x in sb_choices if x <= hw] or [1]))
    pool = [None, None, 1, 20, 90, 0, ["left", sb], ["left", max(1, sb - 1)], ["left", sb + 1]] + \
        ([["left", hw], ["left", hw + 1]] if 0 < hw < 1000 else []) + \
        ([["err", errno.EPIPE], ["err", errno.EHOSTUNREACH]] if faults else [])
    plan = [rng.choice(pool) for _ in range(rng.choice([0, 2, 5, 9]))]
    return {"reqs": reqs, "segs": segs,
            "adj": {"send_bytes": sb, "outbuf_high_watermark": hw,
                    "channel_request_lookahead": rng.choice([0, 0, 1, 2])},
            "sndbuf": rng.choice([30, 100, 65536]), "send_plan": plan, "workers": rng.choice([1, 2, 3]),
            "gran": rng.choice(["locks", "attrs"]), "poll": rng.random() < 0.5,
            "client_close": rng.random() < 0.3, "real_trigger": rng.random() < 0.5,
            "recv_faults": ({str(rng.choice([0, 1, 2])): rng.choice([errno.ECONNRESET, errno.EIO])}
                            if faults and rng.random() < 0.08 else {})}


def gen_two_conn(rng):
    """Two connections on one socket map, one I/O loop and one worker pool (2-3 workers): both
    submit tasks; in half of the scenarios a request of connection 1 waits (inside the
    application) for a request of connection 2 to be entered, so that a task left in the queue
    while a worker sleeps shows up as a quiescent state."""
    def reqs(prefix, n):
        return [{"path": "/%s%d" % (prefix, i), "chunks": [rng.choice([1, 40, 200])], "cl": True,
                 "close": False, "v": "1.1", "expect": False, "iter": rng.random() < 0.5} for i in range(n)]
    r1 = reqs("r", rng.choice([1, 1, 2]))
    r2 = reqs("s", rng.choice([1, 1, 2]))
    if rng.random() < 0.5:
        r1[0]["wait_for"] = r2[-1]["path"]
    return {"reqs": r1, "segs": rng.choice(["one", "per_part"]),
            "conn2": {"reqs": r2, "segs": rng.choice(["one", "per_part"]), "client_close": rng.random() < 0.2,
                      "send_plan": [rng.choice([None, 20, 0]) for _ in range(rng.choice([0, 2]))]},
            "adj": {"send_bytes": 1, "outbuf_high_watermark": rng.choice([120, 16777216]),
                    "channel_request_lookahead": rng.choice([0, 1])},
            "sndbuf": 65536, "send_plan": [rng.choice([None, 20, 0]) for _ in range(rng.choice([0, 2]))],
            "workers": rng.choice([2, 2, 3]), "gran": "locks", "poll": rng.random() < 0.5,
            "client_close": rng.random() < 0.2, "real_trigger": rng.random() < 0.5, "recv_faults": {}}


def gen_policy(rng):
    import random as _r
    k = rng.random()
    if k < 0.45:
        return "random", RandomPolicy(_r.Random(rng.random()), stay=rng.choice([0, 0.5, 0.8, 0.9]))
    d = rng.choice([1, 2, 3])
    return "pct%d" % d, PCTPolicy(_r.Random(rng.random()), d, rng.choice([150, 300, 600]))


def tiny_scenarios():
    """Scenarios small enough for bounded exhaustive exploration of their schedules."""
    base = {"sndbuf": 65536, "workers": 1, "gran": "locks", "client_close": False, "recv_faults": {}}
    out = []
    for poll in (False, True):
        out.append(dict(base, reqs=[{"path": "/a", "chunks": [5], "cl": True}], segs="one",
                        adj={"send_bytes": 1, "outbuf_high_watermark": 16777216, "channel_request_lookahead": 0},
                        send_plan=[], poll=poll))
        out.append(dict(base, reqs=[{"path": "/a", "chunks": [200], "cl": True}], segs="one",
                        adj={"send_bytes": 1, "outbuf_high_watermark": 120, "channel_request_lookahead": 0},
                        send_plan=[None, 90, 0], poll=poll))
        out.append(dict(base, reqs=[{"path": "/a", "chunks": [40], "cl": True, "close": True}], segs="one",
                        adj={"send_bytes": 50, "outbuf_high_watermark": 16777216, "channel_request_lookahead": 0},
                        send_plan=[20, 0], poll=poll))
        out.append(dict(base, reqs=[{"path": "/a", "chunks": [5], "cl": True}, {"path": "/b", "chunks": [5], "cl": True}],
                        segs="one", workers=2,
                        adj={"send_bytes": 1, "outbuf_high_watermark": 16777216, "channel_request_lookahead": 1},
                        send_plan=[], poll=poll))
    # the real trigger (pipe) and two connections sharing the pool
    out.append(dict(base, reqs=[{"path": "/a", "chunks": [200], "cl": True}], segs="one", real_trigger=True,
                    adj={"send_bytes": 1, "outbuf_high_watermark": 16777216, "channel_request_lookahead": 0},
                    send_plan=[None, 90, 0], poll=False))
    # three requests sent one after the other over the real trigger: the wake-ups at the end of
    # each service() matter for the next request; explored with TWO pre-emptions (a pull_trigger
    # landing inside the trigger's handle_read needs one to get there and one to come back)
    out.append(dict(base, reqs=[{"path": "/a", "chunks": [200], "cl": True}, {"path": "/b", "chunks": [5], "cl": True},
                                {"path": "/c", "chunks": [5], "cl": True}], segs="per_part", real_trigger=True,
                    adj={"send_bytes": 1, "outbuf_high_watermark": 16777216, "channel_request_lookahead": 0},
                    send_plan=[None, 90, 0], poll=False, explore={"bound": 2, "quick": 500, "thorough": 1500}))
    out.append(dict(base, reqs=[{"path": "/a", "chunks": [5], "cl": True, "wait_for": "/s"}], segs="one", workers=2,
                    conn2={"reqs": [{"path": "/s", "chunks": [5], "cl": True}], "segs": "one"},
                    adj={"send_bytes": 1, "outbuf_high_watermark": 16777216, "channel_request_lookahead": 0},
                    send_plan=[], poll=False))
    return out


def explore_tiny(sc, max_preemptions, limit, on_world):
    """Bounded exhaustive exploration (iterative pre-emption bounding) of one tiny scenario;
    on_world(world, cls, probs) is called for every schedule."""
    def run_case(prefix):
        w, cls, probs = run_one(sc, schedule=prefix, policy=None, max_steps=3000)
        on_world(w, cls, probs)
        return w.sched
    return explore(run_case, max_preemptions, limit=limit)


def conform_lines(world, sc):
    head, toks = model_tokens(world, sc)
    return " ".join(head + toks)


def parse_trace_answer(ans):
    """-> dict: ok, fields (for OK) / message (for MISMATCH), tainted"""
    if ans.startswith("OK"):
        f = dict(t.split("=", 1) for t in ans.split()[1:] if "=" in t)
        return {"ok": True, "f": f, "tainted": f.get("taint") == "1"}
    return {"ok": False, "msg": ans, "tainted": " taint=1 " in ans}


# re-synchronised after /repo fixes b1d94ba and 1a765e6: service() reads getattr(task.request, 'path', None) in its two log
# lines and wraps the ladder's `task.service()  # must not fail` in one more handler (except BaseException: log;
# task.close_on_finish = True).  Neither touches a shared channel attribute, a lock or a call on a shared object; the
# worker now reaches the tail of service() where it used to leave it with the exception (C09_escape states the new flow).
EXPECTED_SHAPE['channel.py:HTTPChannel.service'] = (
    ('{ R:requests if v:v1 { v:v1 } else { v:v1 } try { if and( R:connected , not R:will_close , ) { v:v2 m:service '
     'call:service() } else { v:v2 } } except:ClientDisconnected { v:getattr v:v2 R:request v:v2 } except:BaseException '
     '{ v:getattr v:v2 R:request if not v:v2 { if { v:traceback } else { } v:v1 v:v1 v:InternalServerError v:v3 v:v6 '
     'v:v4 v:v6 v:getattr v:v1 v:v6 try { v:v5 v:v6 } except:KeyError { } v:v6 try { v:v2 m:service call:service() } '
     'except:ClientDisconnected { v:v2 } except:BaseException { v:v2 } } else { v:v2 } } if v:v2 { R:requests_lock with '
     '{ W:close_when_flushed for R:requests { v:v1 m:close call:close() } W:requests } } else { if v:len R:requests '
     'cmp:Gt:1 { m:_flush_outbufs_below_high_watermark call:_flush_outbufs_below_high_watermark() } if '
     'R:current_outbuf_count cmp:Gt:0 { W:current_outbuf_count } v:v1 m:close call:close() R:requests_lock with { '
     'R:requests m:pop call:pop() if and( R:connected , R:requests , ) { m:add_task call:add_task() } else { if and( '
     'R:connected , R:request cmp:IsNot:None , R:request , R:request , not R:sent_continue , ) { m:send_continue '
     'call:send_continue(do_close=False) } } } } if R:connected { m:pull_trigger call:pull_trigger() } v:time }')
)
