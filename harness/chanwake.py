"""C05 -- no lost wake-up.  Scenarios, the quiescence MONITOR on the real
HTTPChannel (driven by harness/chan_world.World: no poll timeout exists, so a
run that ends "blocked" is a quiescent state of the real code), the mapping of
real traces to the labels of the narrow model coq/Model/ChanWake.v, and the
ast shape audit of the wake-up sites.

A scenario is a JSON-able dict:
  reqs      list of {"path", "chunks": [sizes], "cl": bool (Content-Length given,
            else chunked on 1.1), "close": bool (Connection: close), "v": "1.1"|"1.0",
            "expect": bool (Expect: 100-continue with a body sent in a later segment)}
  cuts      how the concatenated request bytes are cut into client sends
  adj       Adjustments keywords (send_bytes, outbuf_high_watermark, channel_request_lookahead)
  sndbuf    SO_SNDBUF reported by the socket (the size of one send() attempt)
  send_plan per-send() plan of the socket: int n (accept <= n), None (all), ["err", errno]
  workers   pool size
  gran      "locks" | "attrs"
  poll      False: wasyncore.poll (select order), True: wasyncore.poll2
  client_close  the client closes after its last send (half of the runs do not)
"""
import ast
import errno
import hashlib
import json
import logging
import os

from harness.chan_world import World, CHAN_FD
from harness.sched import RandomPolicy, PCTPolicy, explore

logging.disable(logging.CRITICAL)


# ----------------------------------------------------------------------------
# scenarios

def request_bytes(r):
    v = r.get("v", "1.1")
    h = "GET %s HTTP/%s\r\nHost: h\r\n" % (r["path"], v)
    if r.get("close"):
        h += "Connection: close\r\n"
    elif v == "1.0" and r.get("ka"):
        h += "Connection: keep-alive\r\n"
    body = b""
    if r.get("expect"):
        body = b"B" * int(r.get("body", 3))
        h += "Expect: 100-continue\r\nContent-Length: %d\r\n" % len(body)
    return h.encode() + b"\r\n", body


def make_app(reqs):
    table = {r["path"]: r for r in reqs}

    def app(environ, start_response):
        r = table.get(environ.get("PATH_INFO"))
        chunks = [b"x" * n for n in (r["chunks"] if r else [1])]
        if r is not None and r.get("raise") == "before":
            raise ValueError("app")
        hdrs = []
        if r is None or r.get("cl", True):
            hdrs.append(("Content-Length", str(sum(len(c) for c in chunks))))
        start_response("200 OK", hdrs)
        if r is not None and r.get("iter"):
            return iter(chunks)
        return chunks
    return app


def client_script(sc):
    """The client sends every request (cut as sc['cuts'] says), expecting
    requests hold their body back until the wire shows progress is impossible
    to observe here, so the body is simply a later send."""
    stream = []
    for r in sc["reqs"]:
        head, body = request_bytes(r)
        stream.append(head)
        if body:
            stream.append(body)
    cuts = sc.get("cuts")
    if cuts == "one":
        steps = [("send", b"".join(stream))]
    elif cuts == "per_part" or cuts is None:
        steps = [("send", s) for s in stream]
    else:  # explicit list of byte offsets
        whole = b"".join(stream)
        offs = [0] + [c for c in cuts if 0 < c < len(whole)] + [len(whole)]
        steps = [("send", whole[a:b]) for a, b in zip(offs, offs[1:]) if b > a]
    if sc.get("client_close"):
        steps.append(("close",))
    return steps


def make_world(sc, schedule=(), policy=None, max_steps=6000):
    plan = [tuple(p) if isinstance(p, list) else p for p in sc.get("send_plan", [])]
    return World(make_app(sc["reqs"]), client_script(sc), schedule=schedule, policy=policy,
                 adj_kw=dict(sc.get("adj", {})), n_workers=sc.get("workers", 1), send_plan=plan,
                 granularity=sc.get("gran", "locks"), use_poll=bool(sc.get("poll")),
                 max_steps=max_steps, sndbuf=sc.get("sndbuf", 1 << 16))


# ----------------------------------------------------------------------------
# the monitor: the predicate of theorem C05 on the final (quiescent) state

def parked(world):
    """-> dict thread name -> where: 'select' | 'queue_cv' | 'outbuf_cv' | other"""
    ch = world.channel
    out = {}
    ob = object.__getattribute__(ch, "outbuf_lock") if ch is not None else None
    qcv = world.dispatcher.queue_cv
    for name, kind, detail in world.blocked_at_end:
        if kind == "select":
            out[name] = "select"
        elif kind == "wake":
            cv = detail[0]
            if cv == qcv.name:
                out[name] = "queue_cv"
            elif ob is not None and cv == ob.name:
                out[name] = "outbuf_cv"
            else:
                out[name] = "cv:" + str(cv)
        else:
            out[name] = "%s:%s" % (kind, detail)
    return out


def monitor(world, sc):
    """-> (class, problems).  class: 'quiescent' (the run ended in a quiescent
    state, problems lists the conjuncts of C05 that fail there), 'overrun'
    (no quiescence within max_steps: a spin, reported separately), 'finished'
    (every thread ended: the map became empty)."""
    v = world.verdict
    if world.io_error is not None:
        return "io_died", ["io loop died: %r" % (world.io_error,)]
    if v == "overrun":
        return "overrun", ["no quiescent state within %d steps" % world.sched.max_steps]
    f = world.final
    pk = parked(world) if v == "blocked" else {}
    probs = []
    if v == "blocked":
        for name, where in pk.items():
            if where not in ("select", "queue_cv", "outbuf_cv"):
                probs.append("thread %s blocked at %s (deadlock, not a park)" % (name, where))
    if f["trigger_pulled"] and v == "blocked":
        probs.append("trigger pulled but io blocked")
    hw = world.adj.outbuf_high_watermark
    if f["total_outbufs_len"]:
        probs.append("undelivered output: total_outbufs_len=%d" % f["total_outbufs_len"])
    if f["queue"] and f["in_map"]:
        probs.append("dispatcher queue holds %d unserviced task(s)" % f["queue"])
    if f["requests"] and f["in_map"]:
        probs.append("requests holds %d unserviced request(s)" % f["requests"])
    for name, where in pk.items():
        if where == "outbuf_cv":
            if (not f["connected"]) or f["total_outbufs_len"] <= hw:
                probs.append("producer %s parked on outbuf_lock with space available (total=%d, high_watermark=%d, connected=%s)"
                             % (name, f["total_outbufs_len"], hw, f["connected"]))
    if (f["will_close"] or f["close_when_flushed"]) and f["in_map"]:
        probs.append("closing (will_close=%s close_when_flushed=%s) but the channel is still in the map"
                     % (f["will_close"], f["close_when_flushed"]))
    # a client that sent all its requests and keeps reading: everything it sent
    # must have been read unless the channel closed or stopped reading for a reason
    if world.sock.rx and f["in_map"] and v == "blocked":
        probs.append("client bytes unread (%d chunk(s)) while the channel is open and quiescent" % len(world.sock.rx))
    return ("quiescent" if v == "blocked" else "finished"), probs


def classify(sc, probs):
    """Known-finding class of a failing quiescent state, or None."""
    hw = sc.get("adj", {}).get("outbuf_high_watermark", 16777216)
    if probs and hw == 0 and all(p.startswith("producer ") or p.startswith("requests holds") for p in probs):
        return "kf_c05_watermark0"
    return None


class Fair:
    """Wraps a policy: after `after` decisions every thread other than the I/O
    thread is preferred (workers and client run until they block), so that a
    run which has not become quiescent by then is a genuine spin of the I/O
    loop and not an artefact of an unfair random schedule (the I/O thread
    polling a lock that an enabled worker holds)."""

    def __init__(self, inner, after=1500):
        self.inner = inner
        self.after = after

    def __call__(self, sched, enabled, cont):
        if sched.step_no < self.after and self.inner is not None:
            return self.inner(sched, enabled, cont)
        if sched.step_no < self.after:
            return cont if cont is not None else 0
        for i, t in enumerate(enabled):
            if t.name != "io":
                return i
        return 0


def run_one(sc, schedule=(), policy=None, max_steps=4000):
    w = make_world(sc, schedule, Fair(policy), max_steps)
    w.run()
    cls, probs = monitor(w, sc)
    return w, cls, probs


def replay_dict(sc, world, cls, probs):
    return {"scenario": sc, "choices": list(world.sched.choices), "expected": "quiescent state satisfies C05",
            "observed": {"class": cls, "problems": probs, "final": {k: v for k, v in world.final.items() if k != "blocked"},
                         "parked": parked(world) if world.verdict == "blocked" else {}},
            "failing_input_found": True}
