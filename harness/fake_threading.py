"""Look-alikes of the `threading` and `time` modules on top of harness/sched.py.

Usage (see harness/dispatcher.py):

    sched = Scheduler(schedule)
    ft = FakeThreading(sched)
    with patched(waitress.task, threading=ft, time=FakeTime(sched)):
        ... create the real objects, sched.spawn(...) the logical threads ...
        sched.run()
        sched.kill()

Only what waitress uses is provided: Lock (context manager, acquire(blocking),
release, locked), RLock, Condition(lock) with wait(timeout=None) / notify(n) /
notify_all, Thread(target, name, args) with .daemon / .start() / .name /
is_alive / join, current_thread.

Labelled operations (each one is a yield point, announced *before* it is
performed; the trace entry is (thread, kind, detail)):

    acquire   lock name            enabled iff the lock is free
    release   lock name
    wait      cv name              releases the lock and parks (end of a critical section)
    wake      cv name, "notified" | "timeout"
                                   enabled iff (notified and the lock is free) or
                                   (not notified and the wait has a timeout); a notified
                                   waiter re-acquires the lock in this step; a timed-out
                                   one leaves the waiter list, advances the fake clock by
                                   its timeout and then needs a "reacquire" step
    reacquire lock name            enabled iff the lock is free
    notify    cv name, [names of the threads woken]   (the longest waiters first, as CPython)
    notify_all
    thread_start  name of the new thread
    begin     first step of a new thread

Difference from CPython worth knowing when reusing this: a waiter whose timeout
fired leaves the waiter list at once, whereas CPython's Condition.wait removes it
only after it has re-acquired the lock, so that a notify() arriving in between is
spent on the timed-out waiter.  With a single timed waiter per condition (as in
waitress.task) the two behave alike.

`time.time()` returns the scheduler's clock, which only moves when a timed wait
times out or `time.sleep` is called (sleep is a labelled operation too).
"""
import contextlib

from harness.sched import Op, HarnessError


class FakeLock:
    _n = 0

    def __init__(self, ft, name=None, reentrant=False):
        self._ft = ft
        self._sched = ft.sched
        FakeLock._n += 1
        self.name = name or "lock%d" % ft.new_id()
        self.owner = None
        self.count = 0
        self.reentrant = reentrant

    # the state changes, without yielding (used by Condition)
    def _take(self, me):
        self.owner = me
        self.count = 1

    def _drop(self):
        self.owner = None
        self.count = 0

    def acquire(self, blocking=True, timeout=-1):
        s = self._sched
        me = s.me()
        if self.reentrant and self.owner is me:
            self.count += 1
            return True
        if not blocking:
            s.yield_(Op("try_acquire", self.name))
            if self.owner is None:
                self._take(me)
                return True
            return False
        s.yield_(Op("acquire", self.name, enabled=lambda: self.owner is None))
        if self.owner is not None:
            raise HarnessError("lock %s granted while held" % self.name)
        self._take(me)
        return True

    def release(self):
        s = self._sched
        me = s.me()
        if self.owner is not me and not s.killing:
            raise RuntimeError("release of un-acquired lock %s" % self.name)
        if self.reentrant and self.count > 1:
            self.count -= 1
            return
        s.yield_(Op("release", self.name, preemptible=False))
        self._drop()

    def locked(self):
        return self.owner is not None

    def __enter__(self):
        self.acquire()
        return self

    def __exit__(self, *a):
        self.release()
        return False


class _Waiter:
    __slots__ = ("thread", "notified", "timeout")

    def __init__(self, thread, timeout):
        self.thread = thread
        self.notified = False
        self.timeout = timeout


class FakeCondition:
    def __init__(self, ft, lock=None, name=None):
        self._ft = ft
        self._sched = ft.sched
        self.lock = lock if lock is not None else FakeLock(ft, reentrant=True)
        self.name = name or "cv%d" % ft.new_id()
        self.waiters = []   # _Waiter, longest first, not yet notified
        ft.conditions.append(self)
        self.acquire = self.lock.acquire
        self.release = self.lock.release

    def __enter__(self):
        return self.lock.__enter__()

    def __exit__(self, *a):
        return self.lock.__exit__(*a)

    def wait(self, timeout=None):
        s = self._sched
        me = s.me()
        lk = self.lock
        if lk.owner is not me:
            raise RuntimeError("cannot wait on un-acquired lock")
        s.yield_(Op("wait", self.name, preemptible=False))
        saved = lk.count
        lk._drop()
        w = _Waiter(me, timeout)
        self.waiters.append(w)
        s.yield_(Op("wake", lambda: [self.name, "notified" if w.notified else "timeout"],
                    enabled=lambda: (lk.owner is None) if w.notified else (w.timeout is not None)))
        if w.notified:
            lk._take(me)
            lk.count = saved
            return True
        self.waiters.remove(w)
        s.clock += max(0.0, timeout)
        s.yield_(Op("reacquire", lk.name, enabled=lambda: lk.owner is None))
        lk._take(me)
        lk.count = saved
        return False

    def wait_for(self, predicate, timeout=None):
        end = None if timeout is None else self._sched.clock + timeout
        r = predicate()
        while not r:
            left = None
            if end is not None:
                left = end - self._sched.clock
                if left <= 0:
                    break
            self.wait(left)
            r = predicate()
        return r

    def notify(self, n=1):
        s = self._sched
        me = s.me()
        if self.lock.owner is not me:
            raise RuntimeError("cannot notify on un-acquired lock")
        # who is woken is decided when the operation is performed, not when it is announced
        s.yield_(Op("notify", lambda: [self.name, [w.thread.name for w in self.waiters[:n]]], preemptible=False))
        woken = self.waiters[:n]
        for w in woken:
            w.notified = True
            self.waiters.remove(w)

    def notify_all(self):
        s = self._sched
        me = s.me()
        if self.lock.owner is not me:
            raise RuntimeError("cannot notify on un-acquired lock")
        s.yield_(Op("notify_all", lambda: [self.name, [w.thread.name for w in self.waiters]], preemptible=False))
        woken = list(self.waiters)
        for w in woken:
            w.notified = True
        self.waiters = []

    notifyAll = notify_all


class FakeThread:
    def __init__(self, ft, group=None, target=None, name=None, args=(), kwargs=None, daemon=None):
        self._ft = ft
        self._sched = ft.sched
        self._target = target
        self._args = tuple(args)
        self._kwargs = dict(kwargs or {})
        self.name = name or "Thread-%d" % ft.new_id()
        self.daemon = bool(daemon)
        self._lt = None

    def run(self):
        if self._target is not None:
            self._target(*self._args, **self._kwargs)

    def start(self):
        if self._lt is not None:
            raise RuntimeError("threads can only be started once")
        self._sched.yield_(Op("thread_start", self.name, preemptible=False))
        self._lt = self._sched.spawn(self.name, self.run)
        self._lt.local["fake_thread"] = self
        self._ft.started.append(self)

    def is_alive(self):
        return self._lt is not None and not self._lt.done

    def join(self, timeout=None):
        lt = self._lt
        if lt is None:
            raise RuntimeError("cannot join thread before it is started")
        if timeout is None:
            self._sched.yield_(Op("join", self.name, enabled=lambda: lt.done))
        else:
            self._sched.yield_(Op("join", self.name))
            if not lt.done:
                self._sched.clock += max(0.0, timeout)


class FakeThreading:
    """Stands in for the `threading` module in the module under test."""

    def __init__(self, sched):
        self.sched = sched
        self._ids = 0
        self.conditions = []
        self.started = []

    def new_id(self):
        self._ids += 1
        return self._ids

    def Lock(self):
        return FakeLock(self)

    def RLock(self):
        return FakeLock(self, reentrant=True)

    def Condition(self, lock=None):
        return FakeCondition(self, lock)

    def Thread(self, group=None, target=None, name=None, args=(), kwargs=None, daemon=None):
        return FakeThread(self, group, target, name, args, kwargs, daemon)

    def current_thread(self):
        lt = self.sched.me()
        return lt.local.get("fake_thread", lt) if lt is not None else None

    def get_ident(self):
        lt = self.sched.me()
        return lt.tid if lt is not None else -1


class FakeTime:
    """Stands in for the `time` module: time() / monotonic() read the
    scheduler's clock, sleep() is a labelled operation that advances it."""

    def __init__(self, sched):
        self.sched = sched

    def time(self):
        return self.sched.clock

    monotonic = time

    def sleep(self, d):
        self.sched.yield_(Op("sleep", d))
        self.sched.clock += max(0.0, d)


@contextlib.contextmanager
def patched(module, **globals_):
    """Temporarily replace module globals (e.g. waitress.task.threading)."""
    missing = object()
    old = {k: getattr(module, k, missing) for k in globals_}
    for k, v in globals_.items():
        setattr(module, k, v)
    try:
        yield
    finally:
        for k, v in old.items():
            if v is missing:
                delattr(module, k)
            else:
                setattr(module, k, v)
