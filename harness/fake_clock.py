"""A settable clock that can stand in for the `time` module global of a
waitress module (waitress.server.time, waitress.channel.time, ...).

    clk = FakeTime(1000)
    waitress.server.time = clk        # the caller restores the real module afterwards

time() returns the current value unchanged (an int unless a float was set);
sleep(d) advances the clock instead of blocking.  Everything else (gmtime,
strftime, ...) is delegated to the real module.  Deterministic: no wall clock."""
import time as _real_time


class FakeTime:
    def __init__(self, now=0):
        self.now = now
        self.sleeps = 0

    def time(self):
        return self.now

    def monotonic(self):
        return self.now

    def sleep(self, d):
        self.sleeps += 1
        if d and d > 0:
            self.now += d

    def advance(self, d):
        self.now += d

    def __getattr__(self, name):
        return getattr(_real_time, name)
