"""A deterministic in-process kernel: listening sockets with backlogs, server
side connection sockets with a receive queue, a send buffer with limited room,
and a select() that reports readiness from that state.  Generic: used by the
C18 harness, reusable by the other connection-level harnesses.

    k = FakeKernel(first_fd=1000)
    waitress.wasyncore.socket = k.socket_module()     # create_socket() -> FakeListener
    waitress.wasyncore.select = k.select_module()     # select.select(r, w, e, t)
    conn = k.connect(listener)                        # a client connects (goes to the backlog)
    conn.client_send(b"GET / ...", tag="k") ; conn.client_stall() ; conn.client_read(n)
    conn.client_close()

File descriptors of fake sockets are allocated from first_fd upwards and never
reused; descriptors the kernel does not know (e.g. the trigger's real pipe) are
passed to the real select with timeout 0.

Semantics (the model in coq/Model/Server.v has the same):
  recv(n)  queued bytes first; b"" once the client has gone; EWOULDBLOCK otherwise
  send(b)  EPIPE once the client has gone; everything while the client reads;
           after client_stall(): min(len(b), room) bytes, EWOULDBLOCK when room == 0
  select   read-ready: bytes queued or client gone (listener: backlog not empty);
           write-ready: client gone, client reading, or room > 0
"""
import errno
import select as _real_select
import socket as _real_socket


class FakeConn:
    is_listener = False

    def __init__(self, kernel, fd, room, sndbuf_opt=65536, addr=("127.0.0.1", 40000)):
        self.kernel = kernel
        self.fd = fd
        self.rx = []            # [bytes, tag] chunks not yet read by the server
        self.gone = False       # client disconnected
        self.reading = True     # client reads as fast as the server sends
        self.room = room        # free space in the send buffer once stalled
        self.sndbuf_opt = sndbuf_opt
        self.addr = addr
        self.closed = False     # server closed its side
        self.sent = 0           # bytes the server has sent
        self.sent_data = bytearray()
        self.split_reads = 0    # recv() calls that had to cut a chunk
        self.log = []           # (op, detail) socket calls made by the server

    # ---- server side (socket API)
    def fileno(self):
        return self.fd

    def setblocking(self, flag):
        pass

    def getsockopt(self, level, opt, buflen=None):
        if opt == _real_socket.SO_SNDBUF:
            return self.sndbuf_opt
        return 0

    def setsockopt(self, *a):
        pass

    def getpeername(self):
        return self.addr

    def getsockname(self):
        return ("127.0.0.1", 8080)

    def shutdown(self, how):
        pass

    def recv(self, n):
        if self.closed:
            raise OSError(errno.EBADF, "closed")
        if self.rx:
            out = bytearray()
            while self.rx and len(out) < n:
                data, tag = self.rx[0]
                take = min(len(data), n - len(out))
                out += data[:take]
                if take == len(data):
                    self.rx.pop(0)
                else:
                    self.rx[0][0] = data[take:]
                    self.split_reads += 1
            self.log.append(("recv", len(out)))
            return bytes(out)
        if self.gone:
            self.log.append(("recv", 0))
            return b""
        raise BlockingIOError(errno.EWOULDBLOCK, "would block")

    def send(self, data):
        if self.closed:
            raise OSError(errno.EBADF, "closed")
        if self.gone:
            self.log.append(("send", "EPIPE"))
            raise BrokenPipeError(errno.EPIPE, "peer gone")
        if self.reading:
            k = len(data)
        else:
            k = min(len(data), max(0, self.room))
            if k == 0:
                self.log.append(("send", "EWOULDBLOCK"))
                raise BlockingIOError(errno.EWOULDBLOCK, "would block")
            self.room -= k
        self.sent += k
        self.sent_data += bytes(data[:k])
        self.log.append(("send", k))
        return k

    def close(self):
        self.closed = True
        self.kernel.on_close(self)

    # ---- client side
    def client_send(self, data, tag=None):
        if not self.gone and data:
            self.rx.append([bytes(data), tag])

    def client_close(self):
        self.gone = True

    def client_stall(self):
        self.reading = False

    def client_read(self, n):
        if not self.reading:
            self.room += n

    # ---- readiness
    def read_ready(self):
        return (not self.closed) and (bool(self.rx) or self.gone)

    def write_ready(self):
        return (not self.closed) and (self.gone or self.reading or self.room > 0)


class FakeListener:
    is_listener = True

    def __init__(self, kernel, fd):
        self.kernel = kernel
        self.fd = fd
        self.backlog = []
        self.addr = ("127.0.0.1", 8080)
        self.listening = False
        self.closed = False
        self.accepts = 0

    def fileno(self):
        return self.fd

    def setblocking(self, flag):
        pass

    def getsockopt(self, level, opt, buflen=None):
        return 0

    def setsockopt(self, *a):
        pass

    def bind(self, addr):
        self.addr = addr

    def listen(self, n):
        self.listening = True

    def getsockname(self):
        return self.addr

    def accept(self):
        if self.closed:
            raise OSError(errno.EBADF, "closed")
        if not self.backlog:
            raise BlockingIOError(errno.EWOULDBLOCK, "would block")
        conn = self.backlog.pop(0)
        self.accepts += 1
        return conn, conn.addr

    def close(self):
        self.closed = True
        self.kernel.on_close(self)

    def read_ready(self):
        return (not self.closed) and bool(self.backlog)

    def write_ready(self):
        return False


class _SocketModule:
    """Stands in for the `socket` module global of waitress.wasyncore:
    socket(family, type) makes a FakeListener, everything else is real."""

    def __init__(self, kernel):
        self._kernel = kernel

    def socket(self, family=_real_socket.AF_INET, type=_real_socket.SOCK_STREAM, proto=0):
        return self._kernel.new_listener()

    def __getattr__(self, name):
        return getattr(_real_socket, name)


class _SelectModule:
    """Stands in for the `select` module global of waitress.wasyncore (no
    poll attribute, so wasyncore.loop uses poll() even with use_poll)."""
    error = OSError

    def __init__(self, kernel):
        self._kernel = kernel
        self.calls = []   # (r, w, e) asked, (r, w, e) answered

    def select(self, r, w, e, timeout=None):
        k = self._kernel
        real = [fd for fd in list(r) + list(w) if fd not in k.objects]
        rr = ww = ()
        if real:
            rr, ww, _ = _real_select.select([fd for fd in r if fd not in k.objects],
                                            [fd for fd in w if fd not in k.objects], [], 0)
        out_r = [fd for fd in r if (k.objects[fd].read_ready() if fd in k.objects else fd in rr)]
        out_w = [fd for fd in w if (k.objects[fd].write_ready() if fd in k.objects else fd in ww)]
        self.calls.append(((list(r), list(w), list(e)), (out_r, out_w, [])))
        if len(self.calls) > 64:
            del self.calls[:32]
        return out_r, out_w, []


class FakePoller:
    """select.poll() object over the fake kernel.  poll() reports, in registration
    order, POLLIN / POLLOUT for registered descriptors that are ready and asked for
    it (never POLLPRI; POLLERR / POLLHUP / POLLNVAL only when injected through
    kernel.poll_inject[fd]); unknown descriptors go to a real poll object."""

    def __init__(self, kernel, module):
        self.kernel = kernel
        self.module = module
        self.registered = {}   # fd -> flags, insertion ordered

    def register(self, fd, flags=_real_select.POLLIN | _real_select.POLLPRI | _real_select.POLLOUT):
        self.registered[fd] = flags
        self.module.registrations.append((fd, flags))

    def modify(self, fd, flags):
        self.registered[fd] = flags

    def unregister(self, fd):
        del self.registered[fd]

    def poll(self, timeout=None):
        k = self.kernel
        real = _real_select.poll()
        nreal = 0
        for fd, flags in self.registered.items():
            if fd not in k.objects:
                real.register(fd, flags)
                nreal += 1
        real_ev = dict(real.poll(0)) if nreal else {}
        out = []
        for fd, flags in self.registered.items():
            if fd in k.objects:
                o = k.objects[fd]
                ev = 0
                if flags & _real_select.POLLIN and o.read_ready():
                    ev |= _real_select.POLLIN
                if flags & _real_select.POLLOUT and o.write_ready():
                    ev |= _real_select.POLLOUT
                ev |= k.poll_inject.get(fd, 0)
            else:
                ev = real_ev.get(fd, 0)
            if ev:
                out.append((fd, ev))
        return out


class _SelectPollModule(_SelectModule):
    """as _SelectModule, with select.poll() (so wasyncore.loop(use_poll=True) uses poll2)"""

    def __init__(self, kernel):
        _SelectModule.__init__(self, kernel)
        self.registrations = []   # (fd, flags) of every register() call

    def poll(self):
        if len(self.registrations) > 256:
            del self.registrations[:128]
        return FakePoller(self._kernel, self)

    def __getattr__(self, name):
        if name.startswith("POLL"):
            return getattr(_real_select, name)
        raise AttributeError(name)


class FakeKernel:
    def __init__(self, first_fd=1000, conn_room=65536, sndbuf_opt=65536):
        self.next_fd = first_fd
        self.objects = {}      # fd -> FakeConn / FakeListener (open or not)
        self.listeners = []
        self.conn_room = conn_room
        self.sndbuf_opt = sndbuf_opt
        self.closed_fds = []
        self.next_listener_fd = 100
        self.poll_inject = {}  # fd -> extra revents reported by FakePoller

    def new_listener(self):
        fd = self.next_listener_fd
        self.next_listener_fd += 1
        l = FakeListener(self, fd)
        self.objects[fd] = l
        self.listeners.append(l)
        return l

    def connect(self, listener, room=None):
        fd = self.next_fd
        self.next_fd += 1
        c = FakeConn(self, fd, self.conn_room if room is None else room, self.sndbuf_opt,
                     ("127.0.0.1", 40000 + (fd % 20000)))
        self.objects[fd] = c
        listener.backlog.append(c)
        return c

    def on_close(self, obj):
        self.closed_fds.append(obj.fd)

    def socket_module(self):
        return _SocketModule(self)

    def select_module(self, with_poll=False):
        return _SelectPollModule(self) if with_poll else _SelectModule(self)
