"""C03 on the real wire THROUGH the channel's output buffers.

harness/task.py records the arguments of write_soon (send_bytes is huge there, nothing is ever
flushed).  Here the REAL HTTPChannel flushes: a scripted socket accepts only part of each send
(partial sends, zero-byte sends = EWOULDBLOCK-like "nothing accepted"), send_bytes is 1 so that every
write_soon tries to flush in the task's thread, and `waitress.buffers.STRBUF_LIMIT` /
adj.outbuf_overflow are shrunk for the run (restored afterwards), so that an output buffer changes its
representation (bytes -> BytesIO -> temporary file, and back) while it is PARTLY SENT, i.e. with a
non-zero read position.  After service() the channel is drained with handle_write() the way the main
loop would.  What the scripted socket accepted is the wire; it is judged by checks/C03.py with the
extracted client parser (exact body bytes, framing, close / keep).

A wire configuration is a JSON-able dict:
  plan:    [n, ...]  bytes accepted by the successive socket.send calls (0 = nothing); when the plan
                     is used up everything is accepted
  strbuf:  waitress.buffers.STRBUF_LIMIT for the run
  overflow: adj.outbuf_overflow          sndbuf: SO_SNDBUF reported by the socket (size of a send chunk)
"""
from lib.vcommon import hexb

from harness import task as T


class PlanSock(T.FakeSock):
    def __init__(self, plan, sndbuf):
        T.FakeSock.__init__(self)
        self.plan = list(plan)
        self.sndbuf = sndbuf
        self.sends = 0
        self.empty_sends = 0

    def getsockopt(self, level, option):
        return self.sndbuf

    def send(self, data):
        self.sends += 1
        if not data:
            self.empty_sends += 1
        n = self.plan.pop(0) if self.plan else len(data)
        n = min(n, len(data))
        self.sent += bytes(data[:n])
        return n


def body_pattern(n, salt=0):
    """n bytes in which every window of a few bytes identifies its position"""
    return bytes(((i * 7 + salt + (i >> 8) * 13) % 251) for i in range(n))


def run_wire(case, wcfg):
    """-> (real-like result dict for checks/C03.judge, extra dict)"""
    import waitress.buffers as wbuffers
    import waitress.channel as wch
    import waitress.task as wtask
    from waitress.buffers import ReadOnlyFileBasedBuffer

    cfg, rq, app = case["cfg"], case["req"], case["app"]
    rec = T.Recorder()
    adj = T.FakeAdj(cfg)
    adj.send_bytes = 1                      # every write_soon tries to flush
    adj.outbuf_overflow = wcfg["overflow"]
    adj.outbuf_high_watermark = 1 << 30     # single thread: never wait for the main loop
    server = T.FakeServer(adj)
    request = T.StubRequest(rq["version"], rq["conn"], rq["head"], None, bool(rq.get("cclose")))

    def application(environ, start_response):
        T.run_actions_real(app["call"], start_response, rec)
        return T.make_iterable(app, start_response, rec)

    server.application = application
    migrations = []

    class NotingBuffer(wbuffers.OverflowableBuffer):
        def _note(self, kind):
            old = self.buf
            pos = None
            if old is not None:
                try:
                    pos = old.getfile().tell()
                except Exception:
                    pos = None
            migrations.append((kind, pos, old.__len__() if old is not None else len(self.strbuf)))

        def _set_small_buffer(self):
            self._note("bytes->BytesIO" if self.buf is None else "file->BytesIO")
            return wbuffers.OverflowableBuffer._set_small_buffer(self)

        def _set_large_buffer(self):
            self._note("bytes->tempfile" if self.buf is None else "BytesIO->tempfile")
            return wbuffers.OverflowableBuffer._set_large_buffer(self)

    handed = []

    class WireChannel(wch.HTTPChannel):
        def write_soon(self, data):
            if isinstance(data, ReadOnlyFileBasedBuffer):
                handed.append(1)
            return wch.HTTPChannel.write_soon(self, data)

    saved = (wtask.build_http_date, wtask.Task.logger, wbuffers.STRBUF_LIMIT, wch.OverflowableBuffer)
    sock = PlanSock(wcfg["plan"], wcfg["sndbuf"])
    escaped = None
    try:
        wtask.build_http_date = lambda when: cfg["date"]
        wtask.Task.logger = T.NullLogger()
        wbuffers.STRBUF_LIMIT = wcfg["strbuf"]
        wch.OverflowableBuffer = NotingBuffer
        ch = WireChannel(server, sock, ("127.0.0.1", 4711), adj, map={})
        ch.logger = T.NullLogger()
        ch.requests = [request]
        try:
            ch.service()
        except BaseException as e:      # noqa: the harness reports it
            escaped = T.exc_name(e)
        rec.after_service = True
        closes_by_task = rec.closes
        # the main loop: handle_write while there is something to send
        stalled = False
        idle = 0
        steps = 0
        while ch.connected and (ch.total_outbufs_len or ch.close_when_flushed or ch.will_close):
            before = (len(sock.sent), ch.total_outbufs_len, len(sock.plan))
            ch.handle_write()
            steps += 1
            if (len(sock.sent), ch.total_outbufs_len, len(sock.plan)) == before:
                idle += 1
                if idle > 3 and not sock.plan:
                    stalled = True      # the socket accepts everything, yet nothing moves
                    break
            else:
                idle = 0
            if steps > 100000:
                stalled = True
                break
        left_in_buffers = ch.total_outbufs_len
        closed = sock.closed or not ch.connected
        if ch.connected:
            ch.handle_close()
    finally:
        wtask.build_http_date, wtask.Task.logger, wbuffers.STRBUF_LIMIT, wch.OverflowableBuffer = saved
    real = {
        "w": hexb(sock.sent) if sock.sent else "none",
        "close": "1" if closed else "0",
        "next": "0" if closed else "1",
        "closes": str(closes_by_task),
        "hand": "1" if handed else "0",
        "esc": escaped or "none",
        "wh": "1", "s500": "0", "nws1": "0",
    }
    extra = {
        "migrations": migrations,
        "partly_sent_migrations": sum(1 for k, pos, n in migrations if pos),
        "stalled": stalled,
        "left_in_buffers": left_in_buffers,
        "sends": sock.sends,
        "empty_sends": sock.empty_sends,
        "file_closed": getattr(getattr(rec, "file", None), "closed", None),
    }
    return real, extra


# ---------------------------------------------------------------------------
# generators


def wire_apps():
    """(tag, case): responses of a few KB in every framing"""
    out = []
    sizes = [300, 1, 500, 0, 700, 260, 900]
    chunks = [body_pattern(n, 17 * i) for i, n in enumerate(sizes)]
    total = sum(sizes)
    ct = ("Content-Type", "application/octet-stream")
    S, W, Y, mk = T.S, T.W, T.Y, T.mk_case
    out.append(("Content-Length, generator", mk([S("200 OK", [ct, ("Content-Length", str(total))])], steps=[Y(c) for c in chunks])))
    out.append(("chunked, generator (1.1)", mk([S("200 OK", [ct])], steps=[Y(c) for c in chunks])))
    out.append(("close-delimited, generator (1.0)", mk([S("200 OK", [ct])], steps=[Y(c) for c in chunks], version="1.0")))
    out.append(("Content-Length, keep-alive 1.0", mk([S("200 OK", [ct, ("Content-Length", str(total))])], steps=[Y(c) for c in chunks],
                                                    version="1.0", conn="keep-alive")))
    out.append(("write() then chunks, chunked", mk([S("200 OK", [ct]), W(body_pattern(400, 3)), W(body_pattern(350, 5))],
                                                  steps=[Y(c) for c in chunks[:4]])))
    out.append(("write() then chunks, Content-Length", mk([S("200 OK", [ct, ("Content-Length", str(750 + sum(sizes[:4])))]),
                                                          W(body_pattern(400, 3)), W(body_pattern(350, 5))],
                                                         steps=[Y(c) for c in chunks[:4]])))
    one = body_pattern(4000, 9)
    out.append(("list of one chunk (server declares the length)", mk([S("200 OK", [ct])], kind=("sized", 1), steps=[Y(one)], has_close=False)))
    content = body_pattern(3000, 29)
    blocks = [content[i:i + 512] for i in range(0, len(content), 512)]
    out.append(("seekable file wrapper (handed over)", mk([S("200 OK", [ct])], kind=("file", True), steps=[Y(b) for b in blocks],
                                                         block_size=512, prefix=3)))
    out.append(("seekable file wrapper, declared shorter", mk([S("200 OK", [ct, ("Content-Length", "2000")])], kind=("file", True),
                                                             steps=[Y(b) for b in blocks], block_size=512)))
    out.append(("non-seekable file wrapper, chunked", mk([S("200 OK", [ct])], kind=("file", False), steps=[Y(b) for b in blocks],
                                                        block_size=512)))
    out.append(("non-seekable file wrapper, Content-Length", mk([S("200 OK", [ct, ("Content-Length", "3000")])], kind=("file", False),
                                                               steps=[Y(b) for b in blocks], block_size=512)))
    out.append(("write() before a seekable file wrapper", mk([S("200 OK", [ct]), W(body_pattern(300, 1))], kind=("file", True),
                                                            steps=[Y(b) for b in blocks], block_size=512)))
    out.append(("too few bytes for the declared length", mk([S("200 OK", [ct, ("Content-Length", str(total + 50))])],
                                                           steps=[Y(c) for c in chunks])))
    return out


WIRE_LIMITS = [
    # (strbuf, overflow, sndbuf)
    (64, 256, 64),        # bytes -> BytesIO early, BytesIO -> tempfile after a few hundred unsent bytes
    (64, 600, 2048),
    (16, 100, 32),
    (8192, 250, 64),      # bytes -> tempfile directly
    (128, 1500, 97),
]

WIRE_PLANS = [
    ("partly sent, then nothing while the task appends", [7] + [0] * 40),
    ("nothing accepted during service", [0] * 60),
    ("trickle", [3, 0, 5, 0, 11, 0, 2, 0, 30, 0, 1, 0, 64, 0, 0, 0, 9] * 4),
    ("one byte at a time, then zeros", [1] * 25 + [0] * 30 + [13] * 10),
    ("a big first bite", [200, 0, 0, 0, 0, 0, 150, 0, 0, 0, 0, 0, 0, 0, 0, 0]),
    ("everything accepted", []),
]


def wire_runs(rng, tier):
    """(tag, case, wcfg)"""
    out = []
    apps = wire_apps()
    for ai, (atag, case) in enumerate(apps):
        for li, (strbuf, overflow, sndbuf) in enumerate(WIRE_LIMITS):
            for pi, (ptag, plan) in enumerate(WIRE_PLANS):
                if tier == "quick" and (ai + li + pi) % 2 and pi not in (0, 2):
                    continue
                out.append(((atag, ptag, strbuf, overflow, sndbuf), case,
                            {"plan": list(plan), "strbuf": strbuf, "overflow": overflow, "sndbuf": sndbuf}))
    n = 150 if tier == "quick" else 4000
    for _ in range(n):
        atag, case = rng.choice(apps)
        strbuf = rng.choice([8, 16, 64, 128, 512, 8192])
        overflow = rng.choice([50, 100, 256, 600, 1500, 5000])
        sndbuf = rng.choice([16, 32, 64, 97, 512, 2048])
        plan = []
        for _ in range(rng.randint(5, 80)):
            r = rng.random()
            plan.append(0 if r < 0.55 else rng.choice([1, 2, 3, 7, 13, 40, 100, 300]))
        out.append(((atag, "random plan", strbuf, overflow, sndbuf), case,
                    {"plan": plan, "strbuf": strbuf, "overflow": overflow, "sndbuf": sndbuf}))
    return out
