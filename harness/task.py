"""K-task: the REAL WSGITask / ErrorTask / HTTPChannel.service() driven with
scripted application objects against a recording channel, compared with the
extracted model (coq/Model/Task.v), plus the extracted client parser
(coq/Spec/ClientParse.v) applied to the bytes the real task wrote.

A case is a JSON-able dict:
  cfg:  ident, expose, logsock, date, tb
  req:  version, conn (str|None), head (bool), err (None | [clsname, body])
  disc: None | k   (connected-test number j passes iff j < k; test 0 at the start
                    of service(), test j at the j-th write_soon)
  app:  call: [action], kind: ["sized", n] | ["gen"] | ["file", seekable],
        steps: [{"acts": [action], "res": ["Y", hex] | ["R", exn]}],
        has_close, close_exn (None | exn)
  action: ["S", status, [[k, v], ...], exc|None] | ["W", hex] | ["R", exn]
          | ["T", status, [[k, v], ...], exc|None]   try: start_response(...) except BaseException: pass
            (the application, or a wrapper around it, swallows the refusal and carries on;
             model: ATryStart)
  a str object is a Python str; a non-str object is {"nonstr": i}
"""
import io

from lib.vcommon import hexb, unhexb

DATE = "Thu, 01 Jan 2026 00:00:00 GMT"
TB_MARK = "Traceback (most recent call last):\n  <<MARKER-7f3a>>\n"

EXN_NAMES = ["AE", "VE", "RE", "UE", "CD", "XE", "XO", "XB"]


# ---------------------------------------------------------------------------
# serialisation for the runner


def cps(s):
    return ",".join(str(ord(c)) for c in s) if s else "-"


def is_nonstr(x):
    return isinstance(x, dict) and "nonstr" in x


def is_sub(x):
    """{"sub": characters, "shows": text}: an instance of a str subclass whose __str__ / __format__
    / __repr__ answer `shows`; the model sees the characters (what is checked is what is sent)"""
    return isinstance(x, dict) and "sub" in x


def ser_obj(x):
    if is_sub(x):
        return cps(x["sub"])
    return "N" if is_nonstr(x) else cps(x)


def ser_action(a):
    if a[0] in ("S", "T"):
        status, headers, exc = a[1], a[2], a[3]
        out = [a[0], ser_obj(status), str(len(headers))]
        for k, v in headers:
            out += [ser_obj(k), ser_obj(v)]
        out.append(exc or "none")
        return out
    if a[0] == "W":
        return ["W", a[1] or "-"]
    if a[0] == "M":
        return ["M", str(a[1]), "1" if a[2] else "0", cps(a[3])]
    return ["R", a[1]]


def ser_actions(acts):
    out = [str(len(acts))]
    for a in acts:
        out += ser_action(a)
    return out


def ser_case(case):
    c, r, app = case["cfg"], case["req"], case["app"]
    out = ["run", cps(c["ident"]), "1" if c["expose"] else "0", "1" if c["logsock"] else "0",
           cps(c["date"]), cps(c["tb"]), cps(r["version"]),
           "none" if r["conn"] is None else cps(r["conn"]), "1" if r["head"] else "0",
           "1" if r.get("cclose") else "0"]
    if r["err"] is None:
        out.append("none")
    else:
        code, reason = error_class(r["err"][0])
        out += [cps(code), cps(reason), cps(r["err"][1])]
    out.append("none" if case["disc"] is None else str(case["disc"]))
    out.append("1" if case.get("wc") else "0")
    out += ser_actions(app["call"])
    k = app["kind"]
    if k[0] == "sized":
        out += ["sized", str(k[1])]
    elif k[0] == "gen":
        out += ["gen"]
    else:
        out += ["file", "1" if k[1] else "0"]
    out.append(str(len(app["steps"])))
    for s in app["steps"]:
        out += ser_actions(s["acts"])
        out += [s["res"][0], (s["res"][1] or "-")]
    out.append("1" if app["has_close"] else "0")
    out.append(app["close_exn"] or "none")
    return " ".join(out)


def error_class(name):
    from waitress import utilities
    c = getattr(utilities, name)
    return str(c.code), c.reason


# ---------------------------------------------------------------------------
# the real code


class _HostileText:
    """application exceptions cannot be printed: str() and repr() of them raise.  The server must
    contain an application failure without formatting the exception object itself (the logging and
    traceback modules cope with that; '%s' % exc inside an except block does not)"""

    def __str__(self):
        raise RuntimeError("str() of an application exception")

    def __repr__(self):
        raise RuntimeError("repr() of an application exception")


class AppExc(_HostileText, Exception):
    pass


class AppOS(_HostileText, ConnectionResetError):   # an OSError subclass raised by the application
    pass


class AppBase(_HostileText, BaseException):
    pass


RAISE_LOG = None   # set by run_real: list of (exception name, number of successful writes so far)
WRITES_NOW = None


def make_exc(name, log=True):
    from waitress.channel import ClientDisconnected
    if log and RAISE_LOG is not None:
        RAISE_LOG.append((name, len(WRITES_NOW)))
    return {
        "AE": AssertionError, "VE": ValueError, "RE": RuntimeError, "CD": ClientDisconnected,
        "XE": AppExc, "XO": AppOS, "XB": AppBase,
    }[name]("scripted " + name) if name != "UE" else UnicodeEncodeError("latin-1", "Ā", 0, 1, "scripted")


def exc_name(e):
    from waitress.channel import ClientDisconnected
    if isinstance(e, AppExc):
        return "XE"
    if isinstance(e, AppOS):
        return "XO"
    if isinstance(e, AppBase):
        return "XB"
    if isinstance(e, ClientDisconnected):
        return "CD"
    if isinstance(e, UnicodeEncodeError):
        return "UE"
    if isinstance(e, AssertionError):
        return "AE"
    if isinstance(e, ValueError):
        return "VE"
    if isinstance(e, RuntimeError):
        return "RE"
    return "other:" + type(e).__name__


NONSTR_OBJECTS = [200, b"bytes", None, 3.5, ("t",)]


class StrSub(str):
    """a str subclass that formats as something else than its characters"""

    def __new__(cls, content, shows):
        o = str.__new__(cls, content)
        o.shows = shows
        return o

    def __str__(self):
        return self.shows

    def __format__(self, spec):
        return self.shows

    def __repr__(self):
        return repr(self.shows)


def real_obj(x):
    if is_sub(x):
        return StrSub(x["sub"], x["shows"])
    if is_nonstr(x):
        return NONSTR_OBJECTS[x["nonstr"] % len(NONSTR_OBJECTS)]
    return x


def content_obj(x):
    """the object as the WSGI rules see it: the characters of a str (subclass or not)"""
    if is_sub(x):
        return x["sub"]
    return real_obj(x)


class NullLogger:
    def __init__(self):
        self.records = []

    def _log(self, *a, **k):
        self.records.append(a)

    info = warning = exception = error = debug = critical = _log


class FakeSock:
    def __init__(self):
        self.sent = b""
        self.closed = False

    def setblocking(self, *a):
        pass

    def fileno(self):
        return 100

    def getpeername(self):
        return ("127.0.0.1", 4711)

    def getsockopt(self, level, option):
        return 2048

    def close(self):
        self.closed = True

    def send(self, data):
        self.sent += data
        return len(data)

    def recv(self, n):
        return b""


class FakeAdj:
    outbuf_overflow = 1 << 30
    outbuf_high_watermark = 1 << 30
    inbuf_overflow = 512000
    cleanup_interval = 900
    url_scheme = "http"
    channel_timeout = 300
    recv_bytes = 8192
    send_bytes = 1 << 30        # write_soon never flushes: every write stays in outbufs
    max_request_header_size = 10000
    url_prefix = ""
    channel_request_lookahead = 0
    max_request_body_size = 1 << 20
    max_request_header_size = 262144
    host = "127.0.0.1"
    port = 80

    def __init__(self, cfg):
        self.ident = cfg["ident"]
        self.expose_tracebacks = cfg["expose"]
        self.log_socket_errors = cfg["logsock"]


class FakeServer:
    effective_port = 8080
    server_name = "localhost"

    def __init__(self, adj):
        self.adj = adj
        self.tasks = []
        self.active_channels = {}
        self.trigger_pulled = 0
        self.application = None

    def add_task(self, task):
        self.tasks.append(task)

    def pull_trigger(self):
        self.trigger_pulled += 1


class StubRequest:
    """what Task / WSGITask / service() read from a parsed request"""
    path = "/"
    request_uri = "/"
    query = ""
    url_scheme = "http"
    expect_continue = False
    headers_finished = True
    completed = True
    empty = False

    def __init__(self, version, conn, head, error, connection_close=False):
        self.version = version
        self.connection_close = connection_close
        self.headers = {}
        if conn is not None:
            self.headers["CONNECTION"] = conn
        self.command = "HEAD" if head else "GET"
        self.error = error
        self.closed = 0

    def get_body_stream(self):
        return io.BytesIO(b"")

    def close(self):
        self.closed += 1


class ErrStubRequest(StubRequest):
    """a parser that stopped with an error: like the real HTTPRequestParser it has NO path /
    request_uri / query / url_scheme (they are assigned by parse_header after split_uri succeeded,
    and an error request never got that far or failed there); reading them raises AttributeError"""

    def __getattribute__(self, name):
        if name in ("path", "request_uri", "query", "url_scheme", "fragment", "proxy_scheme", "proxy_netloc"):
            raise AttributeError(name)
        return object.__getattribute__(self, name)


class FakeFile:
    """file-like object delivering [content] from position [pos]; optionally seekable"""

    def __init__(self, content, pos, seekable, fault_at, fault):
        self.content = content
        self.pos = pos
        self._seekable = seekable
        self.reads = 0
        self.fault_at = fault_at
        self.fault = fault
        self.closed = 0
        if seekable:
            self.seek = self._seek
            self.tell = self._tell
            self.seekable = lambda: True

    def read(self, n=-1):
        if self.fault_at is not None and self.reads == self.fault_at:
            self.reads += 1
            raise make_exc(self.fault)
        self.reads += 1
        if n is None or n < 0:
            n = len(self.content) - self.pos
        r = self.content[self.pos:self.pos + n]
        self.pos += len(r)
        return r

    def _seek(self, off, whence=0):
        if whence == 0:
            self.pos = off
        elif whence == 1:
            self.pos += off
        else:
            self.pos = len(self.content) + off
        return self.pos

    def _tell(self):
        return self.pos

    def close(self):
        self.closed += 1


class Recorder:
    def __init__(self):
        self.closes = 0
        self.write = None
        self.tasks = []
        self.nws_at_task = []
        self.mirror = []
        self.swallowed = []     # (exception name, writes so far) of every refusal the script swallowed


class Liar(str):
    """a str subclass whose __contains__ / lower() lie (OUTSIDE C08's quantifier: application code
    attacking itself; run for the record only)"""

    def __contains__(self, x):
        return False

    def lower(self):
        return "x-liar"


def make_container(hs, opt):
    """the header CONTAINER the application passes: opt["container"] in
      tuple     a tuple of pairs instead of a list
      gen/iter  a generator / one-shot iterator: a second iteration yields nothing
      flip      a list subclass whose FIRST iteration yields [hs] and every later one opt["later"]
      flip_pairs  pairs that are tuple subclasses whose first unpacking yields (k, v) and every later
                  one the corresponding pair of opt["later"]
    The pairs of the case (a[2]) are the FIRST snapshot: what start_response validates is what it must send."""
    kind = opt.get("container")
    later = [(real_obj(k), real_obj(v)) for k, v in opt.get("later", [])]
    if not kind:
        return hs
    if kind == "tuple":
        return tuple(hs)
    if kind == "gen":
        return (p for p in hs)
    if kind == "iter":
        return iter(hs)
    if kind == "flip":
        class Flip(list):
            passes = 0

            def __iter__(self):
                self.passes += 1
                return list.__iter__(self) if self.passes == 1 else iter(later)
        return Flip(hs)
    if kind == "flip_pairs":
        class FlipPair(tuple):
            def __new__(cls, first, other):
                o = tuple.__new__(cls, first)
                o.other = other
                o.passes = 0
                return o

            def __iter__(self):
                self.passes += 1
                return tuple.__iter__(self) if self.passes == 1 else iter(self.other)
        return [FlipPair(tuple(p), later[i % len(later)] if later else tuple(p)) for i, p in enumerate(hs)]
    if kind == "liar":
        return [(Liar(k) if isinstance(k, str) else k, Liar(v) if isinstance(v, str) else v) for k, v in hs]
    raise ValueError("unknown container " + kind)


def run_actions_real(acts, start_response, rec):
    for a in acts:
        if a[0] == "S":
            status, headers, exc = a[1], a[2], a[3]
            opt = a[4] if len(a) > 4 else {}
            mk = list if opt.get("lists") else tuple     # PEP 3333 wants tuples; lists are accepted too
            hs = [mk((real_obj(k), real_obj(v))) for k, v in headers]
            hs = make_container(hs, opt)
            if opt.get("container"):
                if exc is None:
                    rec.write = start_response(real_obj(status), hs)
                else:
                    e = make_exc(exc, log=False)
                    rec.write = start_response(real_obj(status), hs, (type(e), e, None))
                continue
            if exc is None:
                rec.write = start_response(real_obj(status), hs)
            else:
                e = make_exc(exc, log=False)
                rec.write = start_response(real_obj(status), hs, (type(e), e, None))
                rec.mirror = []
            rec.mirror = rec.mirror + hs      # the pair objects now referenced by response_headers
            # the application goes on to mutate the list it passed (no effect: extend copied it)
            for k, v in opt.get("outer", []):
                hs.append((k, v))
        elif a[0] == "T":
            # the application (or an error-handling wrapper) swallows whatever start_response raises
            status, headers, exc = a[1], a[2], a[3]
            hs = [(real_obj(k), real_obj(v)) for k, v in headers]
            hs = make_container(hs, a[4] if len(a) > 4 else {})
            try:
                if exc is None:
                    w = start_response(real_obj(status), hs)
                else:
                    e = make_exc(exc, log=False)
                    w = start_response(real_obj(status), hs, (type(e), e, None))
            except BaseException as e:
                # not an application failure: take the entry the sr() wrapper logged back
                if RAISE_LOG:
                    rec.swallowed.append(RAISE_LOG.pop())
                else:
                    rec.swallowed.append((exc_name(e), -1))
            else:
                rec.write = w
        elif a[0] == "M":
            _, i, isv, v = a
            if i < len(rec.mirror) and isinstance(rec.mirror[i], list):
                rec.mirror[i][1 if isv else 0] = v
        elif a[0] == "W":
            assert rec.write is not None, "generator bug: write() before a successful start_response"
            rec.write(unhexb(a[1]))
        else:
            raise make_exc(a[1])


def make_iterable(app, start_response, rec):
    from waitress.buffers import ReadOnlyFileBasedBuffer

    kind = app["kind"]
    steps = app["steps"]

    def do_close():
        rec.closes += 1
        if app["close_exn"]:
            raise make_exc(app["close_exn"])

    if kind[0] == "file":
        blocks = []
        fault_at = fault = None
        for i, s in enumerate(steps):
            assert not s["acts"]
            if s["res"][0] == "Y":
                blocks.append(unhexb(s["res"][1]))
            else:
                fault_at, fault = i, s["res"][1]
                break
        bs = app.get("block_size", 32768)
        prefix = b"P" * app.get("prefix", 0)
        f = FakeFile(prefix + b"".join(blocks), len(prefix), kind[1], fault_at, fault)
        rec.file = f

        class CountingWrapper(ReadOnlyFileBasedBuffer):
            def close(self):
                ReadOnlyFileBasedBuffer.close(self)
                if not getattr(rec, "after_service", False):
                    do_close()
                else:
                    rec.late_closes = getattr(rec, "late_closes", 0) + 1

        return CountingWrapper(f, bs)

    plain = all(not s["acts"] and s["res"][0] == "Y" for s in steps)
    if kind[0] == "sized" and plain and not app["has_close"] and kind[1] == len(steps) and app.get("as_list", True):
        return [unhexb(s["res"][1]) for s in steps]     # a real list

    class It:
        def __init__(self):
            self.i = 0

        def __iter__(self):
            return self

        def __next__(self):
            if self.i >= len(steps):
                raise StopIteration
            s = steps[self.i]
            self.i += 1
            run_actions_real(s["acts"], start_response, rec)
            if s["res"][0] == "Y":
                return unhexb(s["res"][1])
            raise make_exc(s["res"][1])

    ns = {}
    if kind[0] == "sized":
        ns["__len__"] = lambda self: kind[1]
    if app["has_close"]:
        ns["close"] = lambda self: do_close()
    cls = type("ScriptedIterable", (It,), ns)
    return cls()


def run_real(case):
    """-> canonical result dict of the real code"""
    import waitress.channel as wch
    import waitress.task as wtask
    from waitress import utilities
    from waitress.buffers import ReadOnlyFileBasedBuffer

    cfg, rq, app = case["cfg"], case["req"], case["app"]
    rec = Recorder()
    adj = FakeAdj(cfg)
    server = FakeServer(adj)
    err = None
    if rq["err"] is not None:
        err = getattr(utilities, rq["err"][0])(rq["err"][1])
    request = (ErrStubRequest if err is not None else StubRequest)(rq["version"], rq["conn"], rq["head"], err, bool(rq.get("cclose")))

    def application(environ, start_response):
        def sr(*a):
            try:
                return start_response(*a)
            except BaseException as e:
                raise_log.append((exc_name(e), len(writes)))   # raised by start_response in the application's frame
                raise
        run_actions_real(app["call"], sr, rec)
        it = make_iterable(app, sr, rec)
        rec.got_iterable = True
        return it

    server.application = application
    writes = []
    raise_log = []
    global RAISE_LOG, WRITES_NOW
    disc = case["disc"]

    class RecChannel(wch.HTTPChannel):
        nws = 0

        def write_soon(self, data):
            self.nws += 1
            if disc is not None and not (self.nws < disc):
                self.connected = False
            item = None
            if isinstance(data, ReadOnlyFileBasedBuffer):
                if data.remain > 0:
                    item = "F%d:%s" % (data.remain, hexb(data.get()))
                elif data.remain == 0:
                    item = "F0:-"
            elif data:
                item = hexb(bytes(data))
            r = wch.HTTPChannel.write_soon(self, data)
            if item is not None:
                writes.append(item)
            return r

    def mk(cls):
        def f(channel, req):
            t = cls(channel, req)
            rec.tasks.append(t)
            rec.nws_at_task.append(channel.nws)
            return t
        return f

    saved = (wtask.build_http_date, wch.traceback, wtask.Task.logger)

    class TB:
        @staticmethod
        def format_exc():
            return cfg["tb"]

    sock = FakeSock()
    try:
        wtask.build_http_date = lambda when: cfg["date"]
        wch.traceback = TB
        wtask.Task.logger = NullLogger()
        ch = RecChannel(server, sock, ("127.0.0.1", 4711), adj, map={})
        ch.logger = NullLogger()
        ch.task_class = mk(wtask.WSGITask)
        ch.error_task_class = mk(wtask.ErrorTask)
        ch.requests = [request]
        if case.get("pending_continue"):
            # the same recv() that completed this request also delivered the complete head of a NEXT request
            # with Expect: 100-continue whose body is outstanding: it waits in channel.request for its signal
            pend = StubRequest("1.1", None, False, None)
            pend.expect_continue = True
            pend.completed = False
            ch.request = pend
        if disc is not None and not (0 < disc):
            ch.connected = False
        if case.get("wc"):
            ch.will_close = True      # a flush error has marked the connection for closing
        escaped = None
        RAISE_LOG, WRITES_NOW = raise_log, writes
        # run service() under the REAL worker loop (ThreadedTaskDispatcher.handler_thread) in this thread
        disp = wtask.ThreadedTaskDispatcher()
        seen = []

        class WLog(NullLogger):
            def exception(self, *a, **k):
                import sys as _sys
                seen.append(_sys.exc_info()[1])

        disp.logger = WLog()

        class Job:
            def service(self_):
                try:
                    ch.service()
                finally:
                    disp.stop_count = 1   # the loop leaves after this task

            def __repr__(self_):
                return "<job>"

        disp.queue.append(Job())
        disp.threads.add(0)
        disp.active_count = 1
        worker_died = None
        try:
            disp.handler_thread(0)
        except BaseException as e:
            worker_died = exc_name(e)
        RAISE_LOG = WRITES_NOW = None
        if seen:
            escaped = exc_name(seen[0])
        rec.after_service = True
        closes = rec.closes
        handover = any(isinstance(b, ReadOnlyFileBasedBuffer) for b in ch.outbufs)
        res = {
            "w": ",".join(writes) if writes else "none",
            "close": "1" if ch.close_when_flushed else "0",
            "next": "1" if (not ch.close_when_flushed and ch.requests == [] and escaped is None) else "0",
            "closes": str(closes),
            "hand": "1" if handover else "0",
            "esc": escaped or "none",
            "wh": "1" if rec.tasks[-1].wrote_header else "0",
            "s500": "1" if (len(rec.tasks) == 2) else "0",
            "nws1": str(rec.nws_at_task[1] if len(rec.tasks) == 2 else ch.nws),
        }
        # consistency of the stub bookkeeping (not compared with the model)
        extra = {
            "worker_died": worker_died,
            "raised": raise_log,
            "swallowed": list(rec.swallowed),
            "sent_continue": bool(ch.sent_continue),
            "flushed_by_service": hexb(sock.sent) if sock.sent else "",
            "got_iterable": getattr(rec, "got_iterable", False),
            "requests_left": len(ch.requests),
            "request_closed": request.closed,
            "ntasks": len(rec.tasks),
            "task_cof": bool(rec.tasks[-1].close_on_finish),
        }
        # tear the connection down: a handed-over file must be closed exactly once
        if handover:
            ch.connected = True
            ch.handle_close()
            extra["file_closed_after_teardown"] = rec.file.closed
            extra["late_closes"] = getattr(rec, "late_closes", 0)
        return res, extra
    finally:
        wtask.build_http_date, wch.traceback, wtask.Task.logger = saved


FIELDS = ["w", "close", "next", "closes", "hand", "esc", "wh", "s500", "nws1"]


def parse_model_line(line):
    d = {}
    for tok in line.split(" "):
        k, _, v = tok.partition("=")
        d[k] = v
    return d


def wire_of(res):
    """the bytes a client receives (hand-over expanded)"""
    out = b""
    if res["w"] == "none":
        return out
    for it in res["w"].split(","):
        if it.startswith("F"):
            out += unhexb(it.split(":", 1)[1])
        else:
            out += unhexb(it)
    return out


def compare(case, model_line, real):
    """-> None if they agree, else a description"""
    if model_line.startswith("ERR"):
        return "model runner: " + model_line
    m = parse_model_line(model_line)
    for f in FIELDS:
        if m.get(f) != real[f]:
            return "field %s: model=%s real=%s" % (f, m.get(f), real[f])
    return None


# ---------------------------------------------------------------------------
# generators


def mk_case(call=None, kind=("gen",), steps=(), version="1.1", conn=None, head=False, err=None, disc=None,
            has_close=True, close_exn=None, expose=False, logsock=True, ident="waitress", cclose=False, tb=None, **kw):
    app = {"call": [list(a) for a in (call or [])], "kind": list(kind),
           "steps": [{"acts": [list(x) for x in a], "res": list(r)} for a, r in steps],
           "has_close": has_close, "close_exn": close_exn}
    wc = bool(kw.pop("wc", False))
    app.update(kw)
    return {"wc": wc, "cfg": {"ident": ident, "expose": expose, "logsock": logsock, "date": DATE,
                              "tb": TB_MARK if tb is None else tb},
            "req": {"version": version, "conn": conn, "head": head, "err": err, "cclose": cclose}, "disc": disc, "app": app}


def Y(b, acts=()):
    return (list(acts), ("Y", hexb(b)))


def RZ(e, acts=()):
    return (list(acts), ("R", e))


def S(status="200 OK", headers=(), exc=None, **opt):
    a = ["S", status, [list(h) for h in headers], exc]
    if opt:
        a.append(opt)
    return a


def W(b):
    return ["W", hexb(b)]


def TRY(status="200 OK", headers=(), exc=None, **opt):
    """start_response inside try/except BaseException: the refusal is swallowed"""
    a = ["T", status, [list(h) for h in headers], exc]
    if opt:
        a.append(opt)
    return a


VERSIONS = ["1.0", "1.1", "2.0"]
CONNS = [None, "close", "keep-alive", "Keep-Alive", "CLOSE", "upgrade"]
STATUSES = ["200 OK", "204 No Content", "304 Not Modified", "100 Continue"]
CL_MODES = ["absent", "exact", "larger", "smaller", "zero"]

# (name, kind, chunks / blocks, bytes passed to write() before returning, extras)
SHAPES = [
    ("list0", ("sized", 0), [], None, {"has_close": False}),
    ("list1", ("sized", 1), [b"hello"], None, {"has_close": False}),
    ("list1e", ("sized", 1), [b""], None, {"has_close": False}),
    ("list3", ("sized", 3), [b"ab", b"", b"cde"], None, {"has_close": False}),
    ("gen0", ("gen",), [], None, {}),
    ("gen1", ("gen",), [b"hello"], None, {}),
    ("gen3", ("gen",), [b"", b"ab", b"", b"cde", b""], None, {}),
    ("sizedlie", ("sized", 1), [b"ab", b"cd"], None, {}),
    ("sized1close", ("sized", 1), [b"hello"], None, {"as_list": False}),
    ("fileS", ("file", True), [b"abcd", b"ef"], None, {"block_size": 4, "prefix": 3}),
    ("fileS0", ("file", True), [], None, {"block_size": 4}),
    ("fileN", ("file", False), [b"abcd", b"ef"], None, {"block_size": 4}),
    ("write+gen", ("gen",), [b"xyz"], b"pre", {}),
    ("write only", ("gen",), [], b"written", {}),
    ("write+list1", ("sized", 1), [b"tail"], b"pre", {"has_close": False}),
    # added with the widened C03 frame theorems: write(b"") sends the head; write() before a file wrapper
    # (seekable: iterated, not handed over -- fix 5ee3173; non-seekable: iterated in blocks)
    ("write empty+gen", ("gen",), [b"", b"xyz"], b"", {}),
    ("write+fileS", ("file", True), [b"abcd", b"ef"], b"pre", {"block_size": 4}),
    ("write+fileN", ("file", False), [b"abcd", b"ef"], b"pre", {"block_size": 4}),
]


def table_case(head, version, conn, status, clmode, shape, cclose=False):
    name, kind, chunks, wr, extra = shape
    total = sum(len(c) for c in chunks) + (len(wr) if wr else 0)
    hs = [("Content-Type", "text/plain")]
    if clmode != "absent":
        n = {"exact": total, "larger": total + 3, "smaller": max(total - 2, 0), "zero": 0}[clmode]
        hs.append(("Content-Length", str(n)))
    call = [S(status, hs)]
    if wr is not None:
        call.append(W(wr))
    kw = {"has_close": True}
    kw.update(extra)
    return mk_case(call, kind=kind, steps=[Y(c) for c in chunks], version=version, conn=conn, head=head,
                   cclose=cclose, **kw)


ERROR_CLASSES = [("BadRequest", "Invalid header"), ("RequestEntityTooLarge", "exceeds max_body"),
                 ("RequestHeaderFieldsTooLarge", "exceeds max_header"),
                 ("ServerNotImplemented", "Transfer-Encoding requested is not supported.")]


def error_table():
    """request.error answered by ErrorTask: every error class the parser produces x method{GET,HEAD}
    x version x Connection x the parser's connection_close verdict (a response to HEAD has no body:
    fix 7243240)"""
    out = []
    for cls, body in ERROR_CLASSES:
        for head in (False, True):
            for version in VERSIONS:
                for conn in CONNS:
                    for cclose in (False, True):
                        out.append((("table-error", cls, head, version, conn, cclose),
                                    mk_case(version=version, conn=conn, head=head, err=[cls, body], cclose=cclose)))
    return out


def file_nobody_table():
    """wsgi.file_wrapper returned with a 1xx/204/304 status: seekable / not x content size (incl. the
    1000 bytes of the observed defect) x Content-Length{absent, exact, smaller, larger} x GET/HEAD x
    version x Connection.  Expected: the head only, the file closed once by the task, no hand-over
    (fix d117733)"""
    out = []
    for status in ("304 Not Modified", "204 No Content", "100 Continue", "199 X", "3040"):
        for seekable in (True, False):
            for content in (b"abcdef", b"j" * 1000):
                for clmode in ("absent", "exact", "smaller", "larger"):
                    hs = [("Content-Type", "text/plain")]
                    if clmode != "absent":
                        n = {"exact": len(content), "smaller": 3, "larger": len(content) + 5}[clmode]
                        hs.append(("Content-Length", str(n)))
                    bs = 4 if len(content) < 10 else 32768
                    steps = [Y(content[i:i + bs]) for i in range(0, len(content), bs)]
                    for head in (False, True):
                        for version, conn in (("1.1", None), ("1.0", "keep-alive"), ("1.1", "close"), ("1.0", None)):
                            out.append((("file-nobody", status, seekable, len(content), clmode, head, version, conn),
                                        mk_case([S(status, hs)], kind=("file", seekable), steps=steps, version=version,
                                                conn=conn, head=head, block_size=bs, prefix=(2 if seekable else 0))))
    return out


# ---------------------------------------------------------------------------
# the server's own error path fed hostile text: the traceback text (expose_tracebacks), the parser's
# error message (it may quote request bytes) and the ident are INPUTS of Error.to_response

HOSTILE_TEXTS = [
    "%", "%s", "%d", "%(x)s", "%%", "disk is 100% full", "%s %s %s", "%c%r%a", "% ", "%(", "50%\n",
    "{}", "{0}", "{ident}", "{", "}", "{{}}", "${x}", "\\", "\\n", "\\x00", "a\rb", "a\nb", "\r\n\r\n",
    "\r\n\r\nHTTP/1.1 200 OK\r\nContent-Length: 0\r\n\r\n", "\x00", "\x7f", "\x85", "\xe9", "\u20ac", "\U0001f600",
    "\u2028", "\ufeff", "", " ", "(generated by evil)", "x" * 5000, "%s" * 60, "\u20ac" * 700,
    "caf\udce9.txt", "\ud800", "\udfff\udc80x", "ok \ud83d alone",        # lone surrogates (surrogateescape-decoded names)
    'Malformed header line "a%zb"', "Invalid header %41", "Traceback %(lineno)d\n  raise ValueError('%d' % n)\n",
]
HOSTILE_IDENTS = ["waitress", "", "srv%s", "a%", "{}", "{0}", "Id\xe9nt", "%(x)s", "srv\\1"]
# an ident that cannot be encoded into a response head: EVERY head fails, the ladder's 500 included
# (outside the model, whose configuration strings are latin-1: judged by the monitor only)
UNENCODABLE_IDENTS = ["srv\u20ac", "\u0100"]


def ident_encodable(case):
    try:
        (case["cfg"]["ident"] or "server").encode("latin-1")
        return True
    except UnicodeEncodeError:
        return False


def expected_error_body(case, reason=None, body=None):
    """Error.to_response's body, written down independently of waitress and of the model:
    reason CRLF CRLF body CRLF CRLF "(generated by " ident ")" in UTF-8 ("server" when ident is empty).
    For request.error: that error; else the ladder's 500 (traceback text iff expose_tracebacks)."""
    cfg = case["cfg"]
    if reason is None:
        if case["req"]["err"] is not None:
            reason = error_class(case["req"]["err"][0])[1]
            body = case["req"]["err"][1]
        else:
            reason = "Internal Server Error"
            body = cfg["tb"] if cfg["expose"] else "The server encountered an unexpected internal server error"
    ident = cfg["ident"] or "server"
    text = reason + "\r\n\r\n" + body + "\r\n\r\n(generated by " + ident + ")"
    # UTF-8; a lone surrogate cannot be encoded: it must show as the six characters \udxxx
    # (and must not make the error response fail: /repo fix 0c01604)
    return b"".join(("\\u%04x" % ord(ch)).encode("ascii") if 0xD800 <= ord(ch) <= 0xDFFF else ch.encode("utf-8") for ch in text)


def hostile_error_cases(rng, tier):
    """error bodies / traceback texts / idents over a hostile alphabet, wherever the error path runs:
    request.error answered by ErrorTask, and the ladder's 500 after an application failure before output
    (expose_tracebacks on and off), GET and HEAD, a disconnect in the middle of the 500"""
    out = []
    mixes = [("1.1", None, False), ("1.0", "keep-alive", False), ("1.1", "close", True), ("1.0", None, False),
             ("1.1", "keep-alive", True)]
    failing = [
        ("raises in the call", [["R", "XE"]], []),
        ("refused start_response", [S("200 OK\r\n", [])], []),
        ("raises in the first iteration", [S("200 OK", [("X-A", "1")])], [RZ("XE")]),
        ("BaseException in the call", [["R", "XB"]], []),
        ("OSError in the call", [["R", "XO"]], []),
    ]
    k = 0
    for text in HOSTILE_TEXTS:
        # request.error: every error class the parser produces
        for cls, _ in ERROR_CLASSES:
            version, conn, head = mixes[k % len(mixes)]
            ident = HOSTILE_IDENTS[k % len(HOSTILE_IDENTS)] if k % 3 == 0 else "waitress"
            k += 1
            out.append((("hostile error body", cls, repr(text)[:24], head, repr(ident)),
                        mk_case(version=version, conn=conn, head=head, err=[cls, text], ident=ident)))
        # the ladder's 500: the text is the traceback
        for tag, call, steps in failing:
            for expose in (True, False):
                for tb in (text, TB_MARK + text + "\n"):
                    version, conn, head = mixes[k % len(mixes)]
                    ident = HOSTILE_IDENTS[k % len(HOSTILE_IDENTS)] if k % 3 == 0 else "waitress"
                    k += 1
                    out.append((("hostile traceback", tag, repr(text)[:24], expose, head, repr(ident)),
                                mk_case(call, steps=steps, version=version, conn=conn, head=head, expose=expose,
                                        ident=ident, tb=tb)))
        # a disconnect while the 500 is written
        for disc in (1, 2):
            out.append((("hostile traceback, client gone", repr(text)[:24], disc),
                        mk_case([["R", "XE"]], expose=True, tb=text, disc=disc)))
    # every ident with a plain and a hostile text
    for ident in HOSTILE_IDENTS:
        for text in ("plain", "100% {}"):
            out.append((("hostile ident", repr(ident), text), mk_case([["R", "XE"]], expose=True, tb=text, ident=ident)))
            out.append((("hostile ident, request.error", repr(ident), text),
                        mk_case(err=["BadRequest", text], ident=ident, version="1.0", conn="keep-alive")))
    # a server that cannot build any head: nothing may escape service(), the connection is wound up
    for ident in UNENCODABLE_IDENTS:
        for tag, call, steps in failing + [("healthy application", [S("200 OK", [("Content-Type", "text/plain")])], [Y(b"body")])]:
            for version, conn, head in mixes[:3]:
                out.append((("unencodable ident", tag, repr(ident), head),
                            mk_case(call, steps=steps, version=version, conn=conn, head=head, ident=ident)))
        out.append((("unencodable ident, request.error", repr(ident)),
                    mk_case(err=["BadRequest", "x"], ident=ident)))
    # random texts over the alphabet
    alpha = ["%", "s", "d", "(", ")", "{", "}", "0", "\\", "\r", "\n", "\x00", "\u20ac", "\U0001f600", "a", " ", "\xe9", "\udce9", "\ud800"]
    n = 150 if tier == "quick" else 3000
    for _ in range(n):
        text = "".join(rng.choice(alpha) for _ in range(rng.choice([1, 2, 3, 5, 8, 40])))
        version, conn, head = rng.choice(mixes)
        if rng.random() < 0.5:
            out.append((("random hostile traceback",), mk_case([["R", rng.choice(FAULT_CLASSES)]], version=version, conn=conn,
                                                              head=head, expose=rng.random() < 0.8, tb=text,
                                                              ident=rng.choice(HOSTILE_IDENTS))))
        else:
            out.append((("random hostile error body",), mk_case(version=version, conn=conn, head=head,
                                                               err=[rng.choice(ERROR_CLASSES)[0], text],
                                                               ident=rng.choice(HOSTILE_IDENTS))))
    return out


def ladder_500_table():
    """the application fails before any output: the ladder's 500, for method{GET,HEAD} x version x
    Connection x connection_close x expose_tracebacks x where the failure happens (a response to
    HEAD has no body: fix 52947ac -- the ladder's err_request inherits the command)"""
    out = []
    failing = [
        ("raises in the call", [["R", "XE"]], []),
        ("refused start_response", [S("200 OK\r\n", [])], []),
        ("raises in the first iteration after start_response", [S("200 OK", [("X-A", "1")])], [RZ("XE")]),
        ("yields before start_response", [], [Y(b"body")]),
        ("BaseException in the call", [["R", "XB"]], []),
    ]
    for tag, call, steps in failing:
        for head in (False, True):
            for version in VERSIONS:
                for conn in CONNS:
                    for cclose in (False, True):
                        for expose in (False, True):
                            out.append((("table-500", tag, head, version, conn, cclose, expose),
                                        mk_case(call, steps=steps, version=version, conn=conn, head=head,
                                                cclose=cclose, expose=expose)))
    return out


def decision_table():
    """the complete finite decision table (application responses, then the error table)"""
    out = []
    for head in (False, True):
        for version in VERSIONS:
            for conn in CONNS:
                for status in STATUSES:
                    for clmode in CL_MODES:
                        for shape in SHAPES:
                            for cclose in (False, True):
                                out.append((("table", head, version, conn, status, clmode, shape[0], cclose),
                                            table_case(head, version, conn, status, clmode, shape, cclose)))
    return out + error_table()


HOSTILE = ["\r", "\n", "\r\n", "\x00", "\x0b", "\x0c", "\x85", "Ā", " ", "中", ":", " ", "\t",
           "\xff", "\xdf", "\xb5", "\xe9", "\x7f", "\x1f"]
HOP = ["connection", "keep-alive", "proxy-authenticate", "proxy-authorization", "te", "trailer",
       "transfer-encoding", "upgrade"]


def placements(base, h):
    return [base[:p] + h + base[p:] for p in range(len(base) + 1)]


def start_variants(status, headers, opt=None):
    """the ways application strings reach start_response: (tag, call actions, steps)"""
    opt = opt or {}
    good = S("200 OK", [("X-First", "1")])
    return [
        ("initial", [S(status, headers, **opt)], [Y(b"body")]),
        ("exc_info before output", [good, S(status, headers, "XE", **opt)], [Y(b"body")]),
        ("in first iteration", [], [Y(b"body", [S(status, headers, **opt)])]),
        ("exc_info after output", [good, W(b"out")], [Y(b"more", [S(status, headers, "XE", **opt)])]),
        ("second call without exc_info", [good, S(status, headers, **opt)], [Y(b"body")]),
        # the application (or a wrapper) swallows the refusal and produces a response anyway
        ("swallowed initial call, body returned", [TRY(status, headers, **opt)], [Y(b"body")]),
        ("swallowed exc_info re-call, body returned", [good, TRY(status, headers, "XE", **opt)], [Y(b"body")]),
        ("swallowed exc_info re-call, then write()", [good, TRY(status, headers, "XE", **opt), W(b"data")], []),
        ("swallowed in first iteration", [], [Y(b"body", [TRY(status, headers, **opt)])]),
        ("swallowed initial call, then an accepted exc_info call",
         [TRY(status, headers, **opt), S("201 Created", [("X-Second", "2")], "XE")], [Y(b"body")]),
    ]


def hostile_cases(rng, tier):
    """application strings over the full alphabet at every position, both start_response calls"""
    out = []
    b_status, b_name, b_value = "200 OK", "X-Hdr", "a value"
    req_mix = [("1.1", None), ("1.0", "keep-alive"), ("1.1", "close"), ("1.0", None)]
    k = 0
    for h in HOSTILE:
        for target, base in (("status", b_status), ("name", b_name), ("value", b_value)):
            for s in placements(base, h):
                status = s if target == "status" else b_status
                name = s if target == "name" else b_name
                value = s if target == "value" else b_value
                hs = [("Content-Type", "text/plain"), (name, value), ("X-After", "z")]
                for vtag, call, steps in start_variants(status, hs):
                    version, conn = req_mix[k % len(req_mix)]
                    k += 1
                    out.append((("hostile", target, repr(h), vtag),
                                mk_case(call, steps=steps, version=version, conn=conn)))
    # structural specials
    specials = [
        [("", "empty name")], [("X-Empty", "")], [("", "")], [("-", "dash")], [("--a-", "dashes")],
        [("a:b", "colon in name")], [("a b", "space in name")], [(" lead", "v")], [("X", " lead value ")],
        [("x-lower-case-NAME", "v")], [("ß-x", "v")], [("ÿ", "v")], [("µ", "v")], [("é-É", "v")],
        [("Server", "app-server")], [("server", "")], [("Date", "app-date")], [("date", "")],
        [("Content-Length", "4")], [("content-length", "4")], [("CONTENT-LENGTH", " 4 ")], [("Content-length", "+4")],
        [("Content-Length", "4_0")], [("Content-Length", "-1")], [("Content-Length", "")], [("Content-Length", "abc")],
        [("Content-Length", "4"), ("Content-Length", "5")], [("Content-Length", "0x4")], [("Content-Length", "1__0")],
        [("Content-Length", "_1")], [("Content-Length", "\x1f4")], [("Content-Length", "\xa04 ")],
        [("Content‐Length", "4")], [("B", "2"), ("a", "1"), ("B", "1"), ("A", "3"), ("b", "0")],
        [("X-Dup", "1"), ("X-Dup", "2"), ("x-dup", "3")], [("Set-Cookie", "a=1"), ("Set-Cookie", "b=2")],
        [("Via", "app")], [("Content-Type", "x"), ("Content-Type", "y")],
    ]
    for name in HOP:
        specials.append([(name, "x")])
        specials.append([(name.title(), "x")])
        specials.append([(name.upper(), "x")])
        specials.append([("X-Ok", "1"), (name, "x")])
    specials += [[("Keep-alive", "kelvin")], [("Connectıon", "dotless")], [("TE\u0000", "x")],
                 [("Te ", "x")], [("Transfer-Encoding:", "x")], [("ſerver", "long s")]]
    # str subclasses whose __str__ / __format__ differ from their characters (isinstance passes,
    # the CR/LF checks read the characters, "%s" / f-strings would call the overrides)
    for shows in ("shown", "x\r\nInjected: 1", "a: b", ""):
        specials.append([("X-Sub", {"sub": "plain", "shows": shows})])
        specials.append([({"sub": "X-Name", "shows": shows}, "v")])
        specials.append([({"sub": "Content-Length", "shows": shows}, {"sub": "4", "shows": "9"})])
        specials.append([({"sub": "connection", "shows": "X-Ok"}, {"sub": "v", "shows": shows})])
        specials.append([({"sub": "X-Bad\n", "shows": "X-Good"}, {"sub": "v", "shows": shows})])
    nonstr = [{"nonstr": i} for i in range(len(NONSTR_OBJECTS))]
    for ns in nonstr:
        specials.append([(ns, "v")])
        specials.append([("X-K", ns)])
        specials.append([("X-Ok", "1"), (ns, ns)])
        specials.append([("X-Bad\r\n", ns)])      # value type is tested before the name's CR/LF
        specials.append([(ns, "v\r\n")])
    for hs in specials:
        for status in ("200 OK", "204 No Content"):
            for vtag, call, steps in start_variants(status, hs):
                version, conn = req_mix[k % len(req_mix)]
                k += 1
                out.append((("special", repr(hs)[:60], vtag), mk_case(call, steps=steps, version=version, conn=conn)))
    for ns in nonstr:
        for vtag, call, steps in start_variants(ns, [("X-A", "b")]):
            out.append((("nonstr status", vtag), mk_case(call, steps=steps)))
    for st in ({"sub": "200 OK", "shows": "200 OK\r\nSet-Cookie: a=b"}, {"sub": "404 Not Found", "shows": "200 OK"},
               {"sub": "200 OK\r\nX: y", "shows": "200 OK"}, {"sub": "204 No Content", "shows": "200 OK"}):
        for vtag, call, steps in start_variants(st, [("X-A", "b")]):
            out.append((("str subclass status", vtag), mk_case(call, steps=steps)))
    for st in ("", " ", "200", "2", "1", "20", "304", "3040 X", "999 Ā", "200 \xff", "abc", "204"):
        for vtag, call, steps in start_variants(st, [("X-A", "b")]):
            out.append((("odd status", st, vtag), mk_case(call, steps=steps)))
    # the list passed to start_response is mutated afterwards (no effect: extend() copied it),
    # and header pairs given as LISTS are mutated in place (aliasing: see kf_c08_pair_alias)
    for evil in ("v\r\nInjected: 1", "ok-late", "Ā"):
        out.append((("outer list mutated",), mk_case([S("200 OK", [("X-A", "a")], outer=[("X-Late", evil)])], steps=[Y(b"b")])))
        for isv in (True, False):
            for lists in (True,):
                out.append((("pair mutated", lists, isv, evil),
                            mk_case([S("200 OK", [("X-A", "a"), ("X-B", "b")], lists=lists), ["M", 1, isv, evil]], steps=[Y(b"b")])))
                out.append((("pair mutated after output", lists, isv, evil),
                            mk_case([S("200 OK", [("X-A", "a"), ("X-B", "b")], lists=lists), W(b"x"), ["M", 0, isv, evil]], steps=[Y(b"b")])))
    # every header NAME the code special-cases, crossed with hostile VALUES -- including values
    # that still parse for that branch (int() tolerates surrounding whitespace, CR and LF included)
    special_names = ["content-length", "date", "server", "via", "connection"] + HOP
    for nm in special_names:
        base = "4" if nm == "content-length" else "v1"
        for name in (nm, nm.title(), nm.upper()):
            for h in HOSTILE + ["\r\n ", " \r\n", "\n\r", "_", "+", "-", "\u2028", "\u3000", "\u0660"]:
                for val in placements(base, h):
                    hs = [("X-Before", "b"), (name, val), ("X-After", "a")]
                    sv = start_variants("200 OK", hs)
                    for vtag, call, steps in sv[:2] + [sv[5], sv[7]]:     # propagating and swallowed refusals
                        version, conn = req_mix[k % len(req_mix)]
                        k += 1
                        out.append((("special name x hostile value", nm, repr(h), vtag),
                                    mk_case(call, steps=steps, version=version, conn=conn)))
            # hostile characters in the special NAME itself
            for h in ("\r", "\n", "\r\n", "\x00", " ", ":"):
                for nm2 in (name + h, h + name):
                    hs = [(nm2, base)]
                    vtag, call, steps = start_variants("200 OK", hs)[0]
                    out.append((("special name with hostile char", nm, repr(h)), mk_case(call, steps=steps)))
    # random header lists over a hostile alphabet
    alpha = "aZ-: \r\n\x00\x0b\x85Ā\xe9" + "cont-legh"
    n = 400 if tier == "quick" else 6000
    for _ in range(n):
        hs = []
        for _ in range(rng.randint(0, 4)):
            kx = "".join(rng.choice(alpha) for _ in range(rng.randint(0, 6)))
            vx = "".join(rng.choice(alpha) for _ in range(rng.randint(0, 6)))
            if rng.random() < 0.7:
                kx = "".join(c for c in kx if c not in "\r\n")
                vx = "".join(c for c in vx if c not in "\r\n")
            hs.append((kx, vx))
        st = rng.choice(["200 OK", "404 Not Found", "204 No Content", "200 O\rK", "200 Ā"])
        vtag, call, steps = rng.choice(start_variants(st, hs))
        version, conn = rng.choice(req_mix)
        out.append((("random headers", vtag), mk_case(call, steps=steps, version=version, conn=conn,
                                                    head=rng.random() < 0.2)))
    return out


# ---------------------------------------------------------------------------
# swallowed refusals: every raise site of start_response x every way of producing output


def refused_calls():
    """(site, status, headers, needs) -- one start_response call per raise site; needs is
    None, "complete" (a call was made before) or "output" (the head has been written)"""
    ns = {"nonstr": 0}
    evil = "200 OK\r\nSet-Cookie: session=attacker\r\nX-Injected: yes"
    ok = ("X-Ok", "1")
    out = [
        ("R1 second call without exc_info", "299 Second", [("X-Second", "2")], "complete"),
        ("R1 second call without exc_info, offending strings", evil, [("X-Evil\r\n", "v\n")], "complete"),
        ("R2 exc_info after output", "500 Late", [("X-Late", "1")], "output"),
        ("R2 exc_info after output, offending strings", evil, [("X-Evil\r\n", "v\n")], "output"),
        ("R3 status not a str", ns, [ok], None),
        ("R4 CRLF in status", evil, [ok], None),
        ("R4 LF in status", "200 OK\nX-Injected: yes", [ok], None),
        ("R4 CR in status", "200\rOK", [], None),
        ("R4 CRLF at the end of status", "404 Not Found\r\n", [("Content-Length", "3")], None),
    ]
    bad_pairs = [
        ("R5 name not a str", (ns, "v")),
        ("R6 value not a str", ("X-V", ns)),
        ("R7 CRLF in value", ("X-V", "v\r\nX-Injected: yes")),
        ("R7 LF in value", ("Set-Cookie", "a=1\nb")),
        ("R8 CRLF in name", ("X-N\r\nX-Injected: yes", "v")),
        ("R8 CR in name", ("X-N\r", "v")),
        ("R9 Content-Length not an int", ("Content-Length", "abc")),
        ("R9 Content-Length empty", ("content-length", "")),
        ("R10 hop-by-hop", ("Connection", "close")),
        ("R10 hop-by-hop transfer-encoding", ("Transfer-Encoding", "chunked")),
        ("R7 before R10 (value checked first)", ("Upgrade", "h2c\r\n")),
        # refused values that int() would accept (it strips whitespace, CR and LF included; it takes an int):
        # content_length must not be assigned from them
        ("R7 CRLF after a Content-Length value", ("Content-Length", "3\r\n")),
        ("R7 LF before a Content-Length value", ("content-length", "\n2")),
        ("R7 CR inside the padding of a Content-Length value", ("CONTENT-LENGTH", " 1 \r ")),
        ("R6 Content-Length value is an int object", ("Content-Length", {"nonstr": 0})),
        ("R8 LF after the name Content-Length", ("Content-Length\n", "3")),
    ]
    cl = ("Content-Length", "3")
    for site, bad in bad_pairs:
        for status in ("200 OK", "404 Not Found", "204 No Content"):
            # position of the refused pair; a Content-Length pair BEFORE it is int()ed and stays
            out.append((site + ", only pair", status, [bad], None))
            out.append((site + ", after a plain pair", status, [ok, bad, ("X-After", "z")], None))
            out.append((site + ", after Content-Length (stale content_length)", status, [ok, cl, bad], None))
            out.append((site + ", before Content-Length", status, [bad, cl], None))
    out.append(("R9 second Content-Length not an int", "200 OK", [("Content-Length", "7"), ("CONTENT-LENGTH", "x")], None))
    out.append(("R9 Content-Length larger than the body, then refused", "200 OK", [("Content-Length", "40"), ("Te", "x")], None))
    out.append(("R9 Content-Length 0, then refused", "200 OK", [("Content-Length", "0"), ("X\n", "x")], None))
    out.append(("R9 negative Content-Length, then refused", "200 OK", [("Content-Length", "-1"), ("X\n", "x")], None))
    return out


def swallow_contexts(status, headers, needs):
    """(tag, call, kind, steps, extra): ways of reaching the refused call and of producing
    output afterwards.  write() is only ever called when a callable has been obtained."""
    good = S("200 OK", [("X-First", "1")])
    good_cl = S("200 OK", [("X-First", "1"), ("Content-Length", "5")])
    gen = ("gen",)
    out = []
    if needs is None:
        # (a) the FIRST call is refused and swallowed
        t = TRY(status, headers)
        out += [
            ("first call; list of one chunk", [t], ("sized", 1), [Y(b"hello")], {"has_close": False}),
            ("first call; generator", [t], gen, [Y(b"ab"), Y(b""), Y(b"cde")], {}),
            ("first call; empty generator", [t], gen, [], {}),
            ("first call; seekable file", [t], ("file", True), [Y(b"abcd"), Y(b"ef")], {"block_size": 4}),
            ("first call; non-seekable file", [t], ("file", False), [Y(b"abcd"), Y(b"ef")], {"block_size": 4}),
            ("first call; then an accepted exc_info call", [t, S("201 Created", [("X-Second", "2")], "XE")], gen, [Y(b"body")], {}),
            ("first call; then an accepted exc_info call and write()",
             [t, S("201 Created", [("X-Second", "2")], "XE"), W(b"data")], gen, [Y(b"more")], {}),
            ("first call; then a second call without exc_info (propagates)", [t, S("201 Created", [("X-Second", "2")])], gen, [Y(b"body")], {}),
            ("first call; then a swallowed second call without exc_info", [t, TRY("201 Created", [("X-Second", "2")])], gen, [Y(b"body")], {}),
            ("first call; then a swallowed refused exc_info call", [t, TRY("500 Oops\r\nX-Injected: 2", [("X-Second", "2")], "XE")], gen, [Y(b"body")], {}),
            ("first call twice", [t, TRY(status, headers, "XE")], ("sized", 1), [Y(b"hello")], {"has_close": False}),
            ("in the first iteration", [], gen, [Y(b"body", [t]), Y(b"more")], {}),
            ("in the first iteration, list of one chunk", [], ("sized", 1), [Y(b"body", [t])], {"as_list": False}),
            ("in the second iteration after a late accepted call", [], gen, [Y(b"", [good]), Y(b"body", [TRY(status, headers, "XE")])], {}),
        ]
        # (b) an accepted call first; the refused call is an exc_info re-call before output
        te = TRY(status, headers, "XE")
        out += [
            ("exc_info re-call; list of one chunk", [good, te], ("sized", 1), [Y(b"sorry")], {"has_close": False}),
            ("exc_info re-call after Content-Length; generator", [good_cl, te], gen, [Y(b"so"), Y(b"rry")], {}),
            ("exc_info re-call after Content-Length; seekable file", [good_cl, te], ("file", True), [Y(b"abcd"), Y(b"ef")], {"block_size": 4}),
            ("exc_info re-call; write() from the first call; empty iterable", [good, te, W(b"data")], gen, [], {}),
            ("exc_info re-call; write() from the first call; then chunks", [good_cl, te, W(b"da"), W(b"")], gen, [Y(b"ta!"), Y(b"x")], {}),
            ("exc_info re-call (BaseException class); write()", [good, TRY(status, headers, "XB"), W(b"data")], gen, [], {}),
            ("exc_info re-call; then an accepted exc_info call", [good, te, S("503 Busy", [("Retry-After", "1")], "XE")], gen, [Y(b"body")], {}),
            ("exc_info re-call; then a propagating refused exc_info call", [good, te, S("500 X\r\n", [], "XE")], gen, [Y(b"body")], {}),
            ("exc_info re-call; then the application raises", [good, te, ["R", "XE"]], gen, [Y(b"body")], {}),
            ("exc_info re-call; the iterable raises after a chunk", [good, te], gen, [Y(b"ab"), RZ("XE")], {}),
        ]
    elif needs == "complete":
        t = TRY(status, headers)
        out += [
            ("second call without exc_info; list of one chunk", [good, t], ("sized", 1), [Y(b"hello")], {"has_close": False}),
            ("second call without exc_info; write()", [good_cl, t, W(b"he")], gen, [Y(b"llo")], {}),
            ("second call without exc_info in the first iteration", [good], gen, [Y(b"body", [t])], {}),
            ("second call without exc_info after a swallowed first call", [TRY("200 OK\n", []), t], gen, [Y(b"body")], {}),
        ]
    else:
        for exc in ("XE", "XO", "XB"):
            t = TRY(status, headers, exc)
            out += [
                ("exc_info after output (%s); write() again" % exc, [good, W(b"out"), t, W(b"more")], gen, [Y(b"x")], {}),
                ("exc_info after output (%s) in an iteration" % exc, [good], gen, [Y(b"ab"), Y(b"cd", [t]), Y(b"ef")], {}),
                ("exc_info after output (%s); Content-Length" % exc, [good_cl, W(b"he"), t], gen, [Y(b"llo")], {}),
            ]
    return out


def swallow_cases(rng, tier):
    out = []
    req_mix = [("1.1", None, False), ("1.0", "keep-alive", False), ("1.1", "close", False), ("1.0", None, False),
               ("1.1", None, True)]
    k = 0
    for site, status, headers, needs in refused_calls():
        for tag, call, kind, steps, extra in swallow_contexts(status, headers, needs):
            mixes = req_mix if tier != "quick" else [req_mix[k % len(req_mix)]]
            k += 1
            for version, conn, head in mixes:
                out.append((("swallow", site, tag, version, str(conn), head),
                            mk_case(call, kind=kind, steps=steps, version=version, conn=conn, head=head, **extra)))
    return out


def _make_offending(rng, a):
    """turn one start_response action into one that some raise site refuses"""
    status, headers = a[1], [list(h) for h in a[2]]
    r = rng.randrange(8)
    if r == 0:
        status = {"nonstr": rng.randrange(5)}
    elif r == 1:
        p = rng.randint(0, len(status)) if isinstance(status, str) else 0
        status = (status if isinstance(status, str) else "200 OK")
        status = status[:p] + rng.choice(["\r\n", "\n", "\r", "\r\nX-Injected: yes"]) + status[p:]
    else:
        bad = rng.choice([
            [{"nonstr": 1}, "v"], ["X-V", {"nonstr": 2}], ["X-V", "v\r\nX-Injected: yes"], ["X-N\nX-Injected: yes", "v"],
            ["Content-Length", "x1"], ["Connection", "close"], ["transfer-encoding", "chunked"], ["Keep-Alive", "1"],
        ])
        headers.insert(rng.randint(0, len(headers)), bad)
    return [a[0], status, headers, a[3]]


def random_swallow_script(rng):
    """a random script (random_script) in which every start_response call but the first
    may be made inside try/except, about half of those with an offending argument"""
    import copy
    case = copy.deepcopy(random_script(rng))
    app = case["app"]
    seen_first = [False]

    def tr(acts):
        out = []
        for a in acts:
            if a[0] == "S":
                if not seen_first[0]:
                    seen_first[0] = True
                elif rng.random() < 0.7:
                    a = ["T", a[1], a[2], a[3]]
                    if rng.random() < 0.55:
                        a = _make_offending(rng, a)
            out.append(a)
            # an error handler that re-calls start_response(exc_info) and swallows the refusal
            if a[0] in ("S", "T") and seen_first[0] and rng.random() < 0.25:
                t = ["T", rng.choice(["500 Oops", "404 Not Found", "204 No Content"]),
                     [["X-Err", "1"]] + ([["Content-Length", str(rng.choice([0, 2, 5, 40]))]] if rng.random() < 0.4 else []),
                     rng.choice(FAULT_CLASSES + [None])]
                if rng.random() < 0.6:
                    t = _make_offending(rng, t)
                out.append(t)
        return out

    app["call"] = tr(app["call"])
    if app["kind"][0] != "file":
        for st in app["steps"]:
            st["acts"] = tr(st["acts"])
    return case


def random_swallow_cases(rng, tier):
    n = 3000 if tier == "quick" else 60000
    return [(("random swallow script",), random_swallow_script(rng)) for _ in range(n)]


# ---------------------------------------------------------------------------
# header CONTAINERS whose iteration is not repeatable or not pure (fix b4f05b1: start_response takes
# ONE snapshot of the pairs; what is validated is what is sent)

CONTAINER_LATER = [
    [("X-Evil\r\nSet-Cookie: session=attacker", "v")],
    [("X-Ok", "1\r\nX-Injected: yes")],
    [("Upgrade", "h2c")],
    [("Transfer-Encoding", "gzip"), ("X-Ok", "1")],
    [("Content-Type", "text/plain"), ("Content-Length", "999")],
    [({"nonstr": 0}, "v")],
    [("X-Other", "clean but never validated")],
    [],
]


def container_cases(rng, tier):
    out = []
    snapshots = [
        [("Content-Type", "text/plain"), ("X-Ok", "1")],
        [("Content-Type", "text/plain"), ("Content-Length", "4"), ("X-Ok", "1")],
        [("X-Ok", "1"), ("X-Bad\r\n", "refused in the first snapshot already")],
        [],
    ]
    req_mix = [("1.1", None), ("1.0", "keep-alive"), ("1.1", "close"), ("1.0", None)]
    k = 0
    for kind in ("tuple", "gen", "iter", "flip", "flip_pairs"):
        laters = CONTAINER_LATER if kind in ("flip", "flip_pairs") else [[]]
        for later in laters:
            for hs in snapshots:
                if kind == "flip_pairs" and not hs:
                    continue
                for status in ("200 OK", "204 No Content"):
                    for vtag, call, steps in start_variants(status, hs, {"container": kind, "later": later}):
                        version, conn = req_mix[k % len(req_mix)]
                        k += 1
                        out.append((("container", kind, repr(later)[:40], len(hs), status, vtag),
                                    mk_case(call, steps=steps, version=version, conn=conn)))
                # the file-wrapper path re-writes response_headers (remove_content_length_header)
                opt = {"container": kind, "later": later}
                out.append((("container", kind, repr(later)[:40], len(hs), "file wrapper, declared length differs"),
                            mk_case([S("200 OK", hs + [("content-length", "3")], **opt)], kind=("file", True),
                                    steps=[Y(b"abcd"), Y(b"ef")], block_size=4)))
    return out


def pending_continue_cases(rng, tier):
    """a partially received next request that waits for "100 Continue" (channel.request) while the task
    runs: fault bases x fault positions x exception classes x log_socket_errors x Connection.  After a
    close decision nothing more may be written -- in particular no interim response."""
    import copy
    out = []
    reqs = [("1.1", None, False), ("1.1", "close", False), ("1.0", "keep-alive", False)]
    for bi, base in enumerate(FAULT_BASES):
        if base[2][0] == "file":
            continue        # the deferred send_continue flushes: a handed-over file would be consumed by the fake socket
        for ri, (version, conn, head) in enumerate(reqs):
            if tier == "quick" and ri != bi % len(reqs):
                continue
            plain = fault_base_case(base, version=version, conn=conn, head=head)
            for pos in fault_positions(plain):
                for exc in (FAULT_CLASSES if pos != ("none",) else ["-"]):
                    for logsock in (True, False):
                        c = copy.deepcopy(with_fault(plain, pos, exc))
                        c["cfg"]["logsock"] = logsock
                        c["pending_continue"] = True
                        out.append((("pending 100-continue", base[0], pos[0], exc, logsock, version, str(conn)), c))
    return out


def name_path_cases():
    """every special-cased / nearly special-cased header NAME on every delivery path of the body: the
    application's fields must be in the head whichever way the body travels (iterable, write(), file wrapper
    handed over with / without a declared length that is equal to, smaller or larger than the file --
    prepare(size) then rewrites response_headers)."""
    out = []
    names = ["", "-", "Content", "Length", "content-", "-length", "t", "T", "Ten", "On", "Content-Lengt", "Content-Length-X",
             "XContent-Length", "Content_Length", "Date", "Dat", "Serve", "Server", "Vi", "Via", "Connectio", "Keep", "Te-x",
             "X-A", "Set-Cookie", "content-type", "ETag"]
    body = b"abcdef"
    req_mix = [("1.1", None), ("1.0", "keep-alive"), ("1.1", "close"), ("1.0", None)]
    k = 0
    for nm in names:
        for second in (None, "X-Second"):
            base = [(nm, "v1")] + ([(second, "v2"), (nm, "v3")] if second else [])
            paths = []
            for cl in (None, 6, 3, 9, 0):
                hs = base + ([("Content-Length", str(cl))] if cl is not None else [])
                for pos in (0, len(hs)) if cl is not None else (0,):
                    h2 = list(hs)
                    if cl is not None and pos == 0:
                        h2 = [h2[-1]] + h2[:-1]
                    tagc = "CL=%s@%d" % (cl, pos)
                    paths.append(("seekable file, " + tagc, [S("200 OK", h2)], ("file", True), [Y(b"abcd"), Y(b"ef")], {"block_size": 4}))
                    paths.append(("non-seekable file, " + tagc, [S("200 OK", h2)], ("file", False), [Y(b"abcd"), Y(b"ef")], {"block_size": 4}))
                    paths.append(("generator, " + tagc, [S("200 OK", h2)], ("gen",), [Y(b"abc"), Y(b"def")], {}))
                    paths.append(("write(), " + tagc, [S("200 OK", h2), W(b"abc")], ("gen",), [Y(b"def")], {}))
                    paths.append(("list of one chunk, " + tagc, [S("200 OK", h2)], ("sized", 1), [Y(body)], {"has_close": False}))
                    paths.append(("204 + seekable file, " + tagc, [S("204 No Content", h2)], ("file", True), [Y(b"abcd"), Y(b"ef")], {"block_size": 4}))
            for ptag, call, kind, steps, extra in paths:
                version, conn = req_mix[k % len(req_mix)]
                k += 1
                out.append((("name x path", repr(nm), bool(second), ptag),
                            mk_case(call, kind=kind, steps=steps, version=version, conn=conn, **extra)))
    return out


def liar_cases():
    """str subclasses whose __contains__ / lower() lie: OUTSIDE C08's quantifier (the assumption
    'application strings are plain str'); run for the record, never judged"""
    out = []
    for hs in ([("X-Evil\r\nSet-Cookie: a=b", "v")], [("X-Ok", "1\r\nX-Injected: yes")], [("Connection", "close")],
               [("X-Plain", "v")]):
        out.append((("liar", repr(hs)[:40]), mk_case([S("200 OK", hs, container="liar")], steps=[Y(b"body")])))
    return out


def caseless(c):
    return c.lower() == c and c.upper() == c and c.title() == c


def name_in_oracle_domain(k):
    """the concrete case mapping of the model (py_cap / py_lower) is exact on code
    points < 256 and the identity above: names with cased code points >= 256 are
    outside the domain on which the extracted model can be compared"""
    return all(ord(c) < 256 or caseless(c) for c in k)


def actions_of(case):
    app = case["app"]
    for a in app["call"]:
        yield a
    for s in app["steps"]:
        for a in s["acts"]:
            yield a


def in_oracle_domain(case):
    for a in actions_of(case):
        if a[0] in ("S", "T"):
            for k, v in a[2]:
                k = k["sub"] if is_sub(k) else k
                v = v["sub"] if is_sub(v) else v
                if not is_nonstr(k) and not name_in_oracle_domain(k):
                    return False
                # int() of CPython accepts every Unicode decimal digit; the model's py_int ASCII digits only
                if (not is_nonstr(k) and not is_nonstr(v) and k.lower() == "content-length"
                        and any(c.isdecimal() and ord(c) > 127 for c in v)):
                    return False
        elif a[0] == "M" and not a[2] and not name_in_oracle_domain(a[3]):
            return False
    return True


FAULT_CLASSES = ["XE", "XO", "XB"]

FAULT_BASES = [
    # (tag, call, kind, chunks, extra)
    ("gen chunked", [S("200 OK", [("Content-Type", "text/plain")])], ("gen",), [b"ab", b"", b"cd"], {}),
    ("gen with CL", [S("200 OK", [("Content-Length", "4")])], ("gen",), [b"ab", b"cd"], {}),
    ("gen short of CL", [S("200 OK", [("Content-Length", "9")])], ("gen",), [b"ab", b"cd"], {}),
    ("list1", [S("200 OK", [])], ("sized", 1), [b"hello"], {"as_list": False}),
    ("write then gen", [S("200 OK", []), W(b"pre")], ("gen",), [b"x"], {}),
    ("late start_response", [], ("gen",), None, {}),
    ("no start_response", [], ("gen",), [b"x"], {}),
    ("204", [S("204 No Content", [])], ("gen",), [], {}),
    ("fileS", [S("200 OK", [])], ("file", True), [b"abcd", b"ef"], {"block_size": 4, "prefix": 1}),
    ("fileS with CL", [S("200 OK", [("Content-Length", "3")])], ("file", True), [b"abcd", b"ef"], {"block_size": 4}),
    ("fileN", [S("200 OK", [])], ("file", False), [b"abcd", b"ef"], {"block_size": 4}),
    ("no close attr", [S("200 OK", [])], ("gen",), [b"ab"], {"has_close": False}),
    # a seekable file wrapper after a status without body is iterated and closed by the task (fix d117733)
    ("fileS 304", [S("304 Not Modified", [])], ("file", True), [b"abcd", b"ef"], {"block_size": 4, "prefix": 1}),
    ("fileS 204 with CL", [S("204 No Content", [("Content-Length", "6")])], ("file", True), [b"abcd", b"ef"], {"block_size": 4}),
]


def fault_base_case(base, **kw):
    tag, call, kind, chunks, extra = base
    if chunks is None:   # start_response in the first iteration
        steps = [Y(b"ab", [S("200 OK", [("X-Late", "1")])]), Y(b"cd")]
    else:
        steps = [Y(c) for c in chunks]
    k = dict(extra)
    k.update(kw)
    return mk_case(call, kind=kind, steps=steps, **k)


def with_fault(case, pos, exc):
    """a copy of the case with an exception of class exc injected at pos"""
    import copy
    c = copy.deepcopy(case)
    app = c["app"]
    if pos[0] == "call":
        app["call"].insert(pos[1], ["R", exc])
    elif pos[0] == "step-act":
        app["steps"][pos[1]]["acts"].insert(pos[2], ["R", exc])
    elif pos[0] == "step-res":
        app["steps"][pos[1]]["res"] = ["R", exc]
    elif pos[0] == "step-extra":     # one more __next__ that raises instead of StopIteration
        app["steps"].append({"acts": [], "res": ["R", exc]})
    elif pos[0] == "close":
        app["close_exn"] = exc
    elif pos[0] == "exc_info":       # start_response(..., exc_info) once output has begun re-raises
        app["steps"][pos[1]]["acts"].append(S("500 Oops", [], exc))
    return c


def fault_positions(case):
    app = case["app"]
    out = [("none",)]
    for i in range(len(app["call"]) + 1):
        out.append(("call", i))
    is_file = app["kind"][0] == "file"
    seekable = is_file and app["kind"][1]
    starts = [a for a in app["call"] if a[0] == "S"]
    if seekable and starts and isinstance(starts[0][1], str) and (
            starts[0][1].startswith("1") or starts[0][1].startswith("204") or starts[0][1].startswith("304")):
        seekable = False      # not handed over: the TASK reads the file, a read may fail under it
    for j, s in enumerate(app["steps"]):
        if not is_file:
            for i in range(len(s["acts"]) + 1):
                out.append(("step-act", j, i))
            out.append(("exc_info", j))
        if not seekable:
            out.append(("step-res", j))
    if not seekable:
        out.append(("step-extra",))
    if app["has_close"]:
        out.append(("close",))
    return out


def fault_cases(rng, tier):
    out = []
    reqs = [("1.1", None, False), ("1.0", "keep-alive", False), ("1.1", "close", True)]
    for bi, base in enumerate(FAULT_BASES):
        for ri, (version, conn, head) in enumerate(reqs):
            if tier == "quick" and ri != bi % len(reqs) and ri != 0:
                continue
            plain = fault_base_case(base, version=version, conn=conn, head=head)
            for pos in fault_positions(plain):
                for exc in (FAULT_CLASSES if pos != ("none",) else ["-"]):
                    for expose in (False, True):
                        for logsock in (False, True):
                            c = with_fault(plain, pos, exc)
                            c["cfg"]["expose"] = expose
                            c["cfg"]["logsock"] = logsock
                            for disc in [None, 0, 1, 2, 3, 4, 5, 6]:
                                if tier == "quick" and disc is not None and (expose or not logsock):
                                    continue
                                import copy
                                d = copy.deepcopy(c)
                                d["disc"] = disc
                                out.append((("fault", base[0], pos[0], exc, "disc=%s" % disc), d))
    # a connection already marked for closing (will_close) is not executed at all
    for bi, base in enumerate(FAULT_BASES):
        plain = fault_base_case(base)
        for pos in fault_positions(plain)[:4]:
            for exc in ("XE", "XB"):
                d = with_fault(plain, pos, exc) if pos != ("none",) else plain
                import copy
                d = copy.deepcopy(d)
                d["wc"] = True
                out.append((("will_close", base[0], pos[0], exc), d))
    # parser errors answered by ErrorTask directly
    for cls, body in (("BadRequest", "Invalid header"), ("RequestEntityTooLarge", "exceeds max_body"),
                      ("RequestHeaderFieldsTooLarge", "exceeds max_header"), ("ServerNotImplemented", "Transfer-Encoding requested is not supported."),
                      ("BadRequest", "bödy ‘quoted’")):
        for version in VERSIONS:
            for conn in CONNS:
                for disc in (None, 0, 1, 2, 3):
                    for ident in ("waitress", "", "Idént"):
                        out.append((("error task", cls), mk_case(version=version, conn=conn, err=[cls, body], disc=disc, ident=ident)))
                    # the same error answered to a HEAD request: no body is written (one write_soon less)
                    out.append((("error task", cls, "HEAD"), mk_case(version=version, conn=conn, err=[cls, body], disc=disc, head=True)))
    return out + hostile_error_cases(rng, tier) + pending_continue_cases(rng, tier)


def random_script(rng):
    """a random application script (mostly well-behaved, some not)"""
    def rbytes():
        return bytes(rng.choice(b"ab\r\n0") for _ in range(rng.choice([0, 0, 1, 2, 3, 5, 17])))

    def rheaders():
        hs = []
        if rng.random() < 0.4:
            hs.append(("Content-Length", str(rng.choice([0, 1, 2, 3, 5, 8, 40]))))
        for _ in range(rng.choice([0, 1, 1, 2])):
            hs.append((rng.choice(["X-A", "content-type", "Server", "Date", "Set-Cookie", "x-b-c", "Via"]),
                       rng.choice(["", "v", "a b", "text/plain"])))
        if rng.random() < 0.03:
            hs.append((rng.choice(["Connection", "X-Bad\n", "Transfer-Encoding"]), "close"))
        rng.shuffle(hs)
        return hs

    def ractions(started, allow_start=True):
        acts = []
        for _ in range(rng.choice([0, 0, 0, 1, 1, 2])):
            r = rng.random()
            if allow_start and (r < 0.5 or not started[0]):
                exc = rng.choice(FAULT_CLASSES) if (started[0] and rng.random() < 0.7) else None
                acts.append(S(rng.choice(STATUSES + ["200 OK", "200 OK", "404 Not Found"]), rheaders(), exc))
                started[0] = True
            elif r < 0.9 and started[0]:
                acts.append(W(rbytes()))
            elif r < 0.95:
                acts.append(["R", rng.choice(FAULT_CLASSES + ["VE", "AE", "RE", "CD"])])
        return acts

    started = [False]
    call = []
    if rng.random() < 0.85:
        call.append(S(rng.choice(STATUSES + ["200 OK"] * 4), rheaders()))
        started[0] = True
    call += ractions(started)
    kr = rng.random()
    extra = {}
    if kr < 0.3:
        n = rng.choice([0, 1, 2, 3])
        kind = ("sized", n)
        steps = [Y(rbytes()) for _ in range(n if rng.random() < 0.9 else n + 1)]
        extra["has_close"] = rng.random() < 0.3
    elif kr < 0.75:
        kind = ("gen",)
        steps = []
        for _ in range(rng.choice([0, 1, 2, 3, 4])):
            acts = ractions(started) if rng.random() < 0.3 else []
            if rng.random() < 0.06:
                steps.append(RZ(rng.choice(FAULT_CLASSES), acts))
            else:
                steps.append(Y(rbytes(), acts))
        extra["has_close"] = rng.random() < 0.8
    else:
        seekable = rng.random() < 0.6
        kind = ("file", seekable)
        bs = rng.choice([1, 2, 4, 32768])
        content = bytes(rng.choice(b"fg\r\n") for _ in range(rng.choice([0, 1, 3, 4, 9])))
        steps = [Y(content[i:i + bs]) for i in range(0, len(content), bs)]
        if not seekable and rng.random() < 0.1:
            steps = steps[:rng.randint(0, len(steps))] + [RZ(rng.choice(FAULT_CLASSES))]
        extra["block_size"] = bs
        extra["prefix"] = rng.choice([0, 0, 2])
        extra["has_close"] = True
    if extra.get("has_close") and rng.random() < 0.05:
        extra["close_exn"] = rng.choice(FAULT_CLASSES)
    version = rng.choice(VERSIONS + ["1.1", "1.1"])
    conn = rng.choice(CONNS)
    disc = rng.choice([None] * 6 + [0, 1, 2, 3, 4])
    extra["wc"] = rng.random() < 0.05
    return mk_case(call, kind=kind, steps=steps, version=version, conn=conn, head=rng.random() < 0.15,
                   disc=disc, expose=rng.random() < 0.3, logsock=rng.random() < 0.7,
                   ident=rng.choice(["waitress", "waitress", "", "srv/1.0"]), cclose=rng.random() < 0.15, **extra)


def random_cases(rng, tier):
    n = 6000 if tier == "quick" else 120000
    return [(("random script",), random_script(rng)) for _ in range(n)]


def framing_cases(rng, tier):
    """well-behaved applications with generated bodies, for the client-side search of C03"""
    out = []
    n = 1500 if tier == "quick" else 40000
    names = ["Content-Type", "x-custom", "ETag", "Set-Cookie", "Cache-control", "X-a-b-c", "Server", "Date", "Via", "Vary"]
    vals = ["text/plain", "a", "", " padded ", "a: b", "W/\"x\"", "\xe9t\xe9", "1, 2"]
    sizes = [0, 0, 1, 2, 9, 15, 16, 17, 255, 256, 300, 4096]
    for _ in range(n):
        chunks = [bytes(rng.randrange(256) for _ in range(rng.choice(sizes))) if rng.random() < 0.3
                  else bytes([rng.choice(b"ab\r\n0")]) * rng.choice(sizes)
                  for _ in range(rng.choice([0, 1, 1, 2, 3, 5]))]
        wr = None
        if rng.random() < 0.2:
            wr = bytes([rng.choice(b"wx")]) * rng.choice(sizes)
        total = sum(map(len, chunks)) + (len(wr) if wr else 0)
        hs = [(rng.choice(names), rng.choice(vals)) for _ in range(rng.choice([0, 1, 2, 3]))]
        r = rng.random()
        if r < 0.25:
            hs.append(("Content-Length", str(total)))
        elif r < 0.35:
            hs.append(("content-length", str(total + rng.choice([1, 5]))))
        elif r < 0.45 and total:
            hs.append(("CONTENT-LENGTH", str(rng.randrange(total))))
        rng.shuffle(hs)
        status = rng.choice(["200 OK", "200 OK", "404 Not Found", "201", "500 Oops", "302 Found"])
        head = rng.random() < 0.1
        if rng.random() < 0.1:
            status = rng.choice(["204 No Content", "304 Not Modified", "100 Continue"])
        if head or status[0] == "1" or status[:3] in ("204", "304"):
            chunks = [b"" for _ in chunks]
            wr = None
        kr = rng.random()
        extra = {}
        if kr < 0.35:
            kind = ("sized", len(chunks))
            extra["has_close"] = False
        elif kr < 0.75:
            kind = ("gen",)
        else:
            seekable = rng.random() < 0.6
            kind = ("file", seekable)
            bs = rng.choice([1, 3, 16, 32768])
            content = b"".join(chunks)
            chunks = [content[i:i + bs] for i in range(0, len(content), bs)]
            extra["block_size"] = bs
            extra["prefix"] = rng.choice([0, 0, 5])
        call = [S(status, hs)]
        if wr:
            call.append(W(wr))
        version = rng.choice(["1.0", "1.1", "1.1", "1.1", "0.9"])
        conn = rng.choice(CONNS)
        out.append((("framing", status, kind[0]), mk_case(call, kind=kind, steps=[Y(x) for x in chunks],
                                                        version=version, conn=conn, head=head, **extra)))
    # start_response called late (after an empty first chunk) or re-called with exc_info after an empty
    # first chunk, with declared lengths that differ between the calls: the length that counts for the
    # too-few-bytes decision is the one in force when the iteration ends
    body5 = b"12345"
    for kind in (("gen",), ("sized", 2)):
        for version in ("1.0", "1.1"):
            for conn in (None, "keep-alive", "close"):
                for cl1, cl2 in ((1000, 5), (5, 1000), (None, 1000), (None, 5), (5, None), (1000, None), (5, 5), (3, 5)):
                    h1 = [("Content-Length", str(cl1))] if cl1 is not None else []
                    h2 = [("Content-Length", str(cl2))] if cl2 is not None else []
                    ex = {"has_close": False} if kind[0] == "sized" else {}
                    # replaced: call 1, an empty chunk, then the exc_info re-call just before the body
                    out.append((("replaced call after an empty chunk", cl1, cl2, kind[0], version, conn),
                                mk_case([S("200 OK", h1)], kind=kind, steps=[Y(b""), Y(body5, [S("200 OK", h2, "XE")])],
                                        version=version, conn=conn, **ex)))
                    # late: no call before the first (empty) chunk
                    out.append((("late call after an empty chunk", cl2, kind[0], version, conn),
                                mk_case([], kind=kind, steps=[Y(b"", []), Y(body5, [S("200 OK", h2)])],
                                        version=version, conn=conn, **ex)))
    # error responses produced directly from request.error
    for cls, body in (("BadRequest", "Invalid header"), ("RequestEntityTooLarge", "exceeds max_body"),
                      ("ServerNotImplemented", "nope")):
        for version in VERSIONS:
            for conn in CONNS:
                out.append((("error task", cls, version, conn), mk_case(version=version, conn=conn, err=[cls, body])))
                out.append((("error task to HEAD", cls, version, conn),
                            mk_case(version=version, conn=conn, err=[cls, body], head=True, expose=(conn == "close"),
                                    ident=("" if version == "1.0" else "waitress"))))
    # application failures answered by the ladder's 500
    for version in VERSIONS:
        for conn in CONNS:
            c = mk_case([["R", "XE"]], version=version, conn=conn)
            out.append((("ladder 500", version, conn), c))
    return out + ladder_500_table() + file_nobody_table() + hostile_error_cases(rng, tier)
