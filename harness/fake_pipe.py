"""A fake OS layer for the REAL waitress.trigger.trigger (the pipe implementation) under the
deterministic scheduler of harness/sched.py.

Only the OS calls are faked: os.pipe / os.dup / os.read / os.write / os.close /
os.set_blocking.  Everything else of the trigger runs unmodified: _triggerbase.__init__
(lock, thunks), pull_trigger, _physical_pull, handle_read, close, and
wasyncore.file_dispatcher / file_wrapper around the read end.  os.read and os.write are
labelled operations (scheduling points) `pipe_read` / `pipe_write`; the trigger's lock is a
fake_threading lock (a scheduling point as well).  The read end is non-blocking: os.read on
an empty pipe raises BlockingIOError(EAGAIN) like the kernel does.

Readiness reported to the fake select/poll: the read end is readable iff the pipe holds
bytes.  The abstraction used by Model/ChanWake.v is  pulled  <->  the pipe is not empty.
"""
import errno
import os as _os

from harness.sched import Op

PIPE_R, PIPE_W = 3, 4      # descriptor numbers handed out by the fake os.pipe()


class FakePipe:
    def __init__(self):
        self.buf = bytearray()
        self.reads = 0
        self.writes = 0
        self.closed = set()


class FakeOS:
    """Stands in for the `os` module inside waitress.trigger and waitress.wasyncore."""

    def __init__(self, sched, first_dup=5):
        self._sched = sched
        self.pipe_obj = FakePipe()
        self._ends = {}            # fd -> "r" | "w"
        self._next_dup = first_dup

    # -- what the trigger and file_dispatcher call
    def pipe(self):
        self._ends[PIPE_R] = "r"
        self._ends[PIPE_W] = "w"
        return PIPE_R, PIPE_W

    def dup(self, fd):
        if fd not in self._ends:
            raise OSError(errno.EBADF, "bad fd")
        new = self._next_dup
        self._next_dup += 1
        self._ends[new] = self._ends[fd]
        return new

    def set_blocking(self, fd, flag):
        if fd not in self._ends:
            raise OSError(errno.EBADF, "bad fd")

    def read(self, fd, n):
        self._sched.yield_(Op("pipe_read", None))
        if self._ends.get(fd) != "r":
            raise OSError(errno.EBADF, "bad fd")
        p = self.pipe_obj
        p.reads += 1
        if not p.buf:
            raise BlockingIOError(errno.EAGAIN, "would block")
        data = bytes(p.buf[:n])
        del p.buf[:n]
        self._sched.note("pipe_drained", len(data))
        return data

    def write(self, fd, data):
        self._sched.yield_(Op("pipe_write", None))
        if self._ends.get(fd) != "w":
            raise OSError(errno.EBADF, "bad fd")
        p = self.pipe_obj
        p.writes += 1
        p.buf += bytes(data)
        return len(data)

    def close(self, fd):
        self._ends.pop(fd, None)
        self.pipe_obj.closed.add(fd)

    def read_fds(self):
        return [fd for fd, e in self._ends.items() if e == "r"]

    def readable(self, fd):
        return self._ends.get(fd) == "r" and bool(self.pipe_obj.buf)

    # everything else (os.name, os.strerror, ...) is the real module
    def __getattr__(self, name):
        return getattr(_os, name)
