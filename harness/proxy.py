"""K-proxy: the REAL waitress.proxy_headers middleware (and the application
wrapper built by the real server constructor) against the extracted Coq model
(coq/Model/Proxy.v), plus the executable specification of C15/C16
(coq/Spec/ProxySpec.v) run directly against the real middleware (search).

Shared by checks/C15.py and checks/C16.py."""
import hashlib
import re
import socket
import warnings
from collections import Counter, namedtuple

PROXY_KEYS = [
    "HTTP_X_FORWARDED_FOR", "HTTP_X_FORWARDED_HOST", "HTTP_X_FORWARDED_PROTO",
    "HTTP_X_FORWARDED_PORT", "HTTP_X_FORWARDED_BY", "HTTP_FORWARDED",
]
META_KEYS = ["REMOTE_ADDR", "REMOTE_HOST", "REMOTE_PORT", "SERVER_NAME", "SERVER_PORT",
             "HTTP_HOST", "wsgi.url_scheme"]
KIND_KEY = {
    "x-forwarded-for": "HTTP_X_FORWARDED_FOR", "x-forwarded-host": "HTTP_X_FORWARDED_HOST",
    "x-forwarded-proto": "HTTP_X_FORWARDED_PROTO", "x-forwarded-port": "HTTP_X_FORWARDED_PORT",
    "x-forwarded-by": "HTTP_X_FORWARDED_BY", "forwarded": "HTTP_FORWARDED",
}
XF_KINDS = ["x-forwarded-for", "x-forwarded-host", "x-forwarded-proto", "x-forwarded-port", "x-forwarded-by"]

Cfg = namedtuple("Cfg", "tp count tph clear")   # tph: None or frozenset of str


def hx(s):
    if not s:
        return "-"
    try:
        return s.encode("latin-1").hex()
    except UnicodeEncodeError:
        # only an OBSERVED value can be outside latin-1 (itself a violation: WSGI strings are latin-1
        # decoded bytes); keep it reportable: "!" + utf-8 hex
        return "!" + s.encode("utf-8").hex()


def unhx(h):
    if h == "-":
        return ""
    if h.startswith("!"):
        return bytes.fromhex(h[1:]).decode("utf-8")
    return bytes.fromhex(h).decode("latin-1")


def cfg_words(c):
    tp = "N" if c.tp is None else "S:" + hx(c.tp)
    tph = "N" if c.tph is None else "S:" + ",".join(hx(x) for x in sorted(c.tph))
    return "%s %d %s %d" % (tp, c.count, tph, 1 if c.clear else 0)


def env_words(env):
    return " ".join("%s %s" % (hx(k), hx(v)) for k, v in env.items())


def cfg_json(c):
    return {"trusted_proxy": c.tp, "trusted_proxy_count": c.count,
            "trusted_proxy_headers": None if c.tph is None else sorted(c.tph), "clear_untrusted": c.clear}


def cfg_from_json(d):
    t = d["trusted_proxy_headers"]
    return Cfg(d["trusted_proxy"], d["trusted_proxy_count"], None if t is None else frozenset(t), d["clear_untrusted"])


def env_json(env):
    return {k: hx(v) for k, v in env.items()}


def env_from_json(d):
    return {k: unhx(v) for k, v in d.items()}


class NullLogger:
    def warning(self, *a, **k):
        pass
    info = debug = error = exception = critical = warning


_MAL = re.compile(rb'^Bad Request\r\n\r\nHeader "(.*)" malformed\.\r\n', re.S)


def _call(wsgi, env, seen):
    status = {}

    def sr(s, h, exc_info=None):
        status["s"] = s

    e = dict(env)
    try:
        body = b"".join(wsgi(e, sr))
    except Exception as ex:  # an exception escapes the middleware: a 500 in the server
        return ("exn", type(ex).__name__)
    if "env" in seen:
        got = seen.pop("env")
        return ("ok", got)
    m = _MAL.match(body)
    if status.get("s", "").startswith("400 ") and m:
        return ("mal", m.group(1).decode("utf-8"))
    return ("other", status.get("s"), body[:80])


class RealMiddleware:
    """ONE instance of the real proxy_headers_middleware (around a recording
    application) that is fed a whole history of requests: whatever the
    middleware remembers between requests shows up as a disagreement with the
    (stateless) model on a later request."""

    def __init__(self, cfg, log_untrusted=False):
        from waitress.proxy_headers import proxy_headers_middleware

        self.cfg = cfg
        self.seen = {}

        def app(environ, start_response):
            self.seen["env"] = dict(environ)
            return [b""]

        self.mw = proxy_headers_middleware(
            app, trusted_proxy=cfg.tp, trusted_proxy_count=cfg.count,
            trusted_proxy_headers=None if cfg.tph is None else set(cfg.tph),
            clear_untrusted=cfg.clear, log_untrusted=log_untrusted, logger=NullLogger())

    def run(self, env):
        self.seen.pop("env", None)
        return _call(self.mw, env, self.seen)


def history_stream(runner, rng, n_instances, per_instance, mode):
    """histories of requests through the same middleware instance, each request
    compared with the model and (untrusted peers) with the two-run statement.
    -> (n requests, mismatches [(env,cfg,real,model,position)], tworun failures [(env,cfg,fails,position)])"""
    mism = []
    tw = []
    n = 0
    for i in range(n_instances):
        _e, cfg = gen_case(rng, mode)
        inst = RealMiddleware(cfg, log_untrusted=(i % 4 != 3))
        envs = [gen_case(rng, mode)[0] for _ in range(per_instance)]
        # repeat some requests: the same headers arrive again and again from a chatty upstream
        envs += [dict(envs[rng.randrange(len(envs))]) for _ in range(max(2, per_instance // 3))]
        model = model_batch(runner, [(e, cfg) for e in envs])
        for pos, (env, m) in enumerate(zip(envs, model)):
            r = inst.run(env)
            n += 1
            if canon(r) != canon(m):
                mism.append((env, cfg, r, m, pos))
            if "REMOTE_ADDR" in env and not is_trusted_path(env, cfg):
                fails = c15_tworun_eval(env, cfg, runner_fn=inst.run)
                if fails:
                    tw.append((env, cfg, fails, pos))
    return n, mism, tw


def real_middleware(env, cfg, log_untrusted=False):
    """Run the real proxy_headers_middleware around a recording application."""
    from waitress.proxy_headers import proxy_headers_middleware

    seen = {}

    def app(environ, start_response):
        seen["env"] = dict(environ)
        return [b""]

    mw = proxy_headers_middleware(
        app, trusted_proxy=cfg.tp, trusted_proxy_count=cfg.count,
        trusted_proxy_headers=None if cfg.tph is None else set(cfg.tph),
        clear_untrusted=cfg.clear, log_untrusted=log_untrusted, logger=NullLogger())
    return _call(mw, env, seen)


# ---- the application as wrapped (or not) by the real server constructor -------

class _DummySock(socket.socket):
    family = socket.AF_INET
    type = socket.SOCK_STREAM
    proto = 0

    def __init__(self):
        pass

    def bind(self, addr):
        pass

    def setblocking(self, x):
        pass

    def fileno(self):
        return 10

    def getpeername(self):
        return "127.0.0.1"

    def getsockname(self):
        return ("127.0.0.1", 8080)

    def setsockopt(self, *arg):
        pass

    def getsockopt(self, *arg):
        return 1

    def listen(self, num):
        pass

    def close(self):
        pass


class _DummyDisp:
    def set_thread_count(self, n):
        pass

    def shutdown(self, *a, **k):
        pass


class RealServerApp:
    """create_server(app, **kw) with a dummy socket; .run(env) calls
    server.application, i.e. whatever BaseWSGIServer.__init__ installed."""

    def __init__(self, **kw):
        import logging
        from waitress.server import create_server

        lg = logging.getLogger("waitress")
        if not any(isinstance(h, logging.NullHandler) for h in lg.handlers):
            lg.addHandler(logging.NullHandler())
        lg.propagate = False
        self.seen = {}

        def app(environ, start_response):
            self.seen["env"] = dict(environ)
            return [b""]

        self.app = app
        with warnings.catch_warnings():
            warnings.simplefilter("ignore")
            self.server = create_server(app, host="127.0.0.1", port=0, map={}, _start=False,
                                        _sock=_DummySock(), _dispatcher=_DummyDisp(), **kw)
        self.server.logger = NullLogger()
        adj = self.server.adj
        # the configuration the middleware is given by the constructor
        self.cfg = Cfg(adj.trusted_proxy, adj.trusted_proxy_count,
                       None if adj.trusted_proxy_headers is None else frozenset(adj.trusted_proxy_headers),
                       bool(adj.clear_untrusted_proxy_headers))
        self.wrapped = self.server.application is not app

    def run(self, env):
        return _call(self.server.application, env, self.seen)

    def close(self):
        try:
            self.server.close()
        except Exception:
            pass


# ---- the extracted model ------------------------------------------------------

def parse_model(line):
    w = line.split(" ")
    if w[0] == "ok":
        d = {}
        for i in range(1, len(w), 2):
            d[unhx(w[i])] = unhx(w[i + 1])
        return ("ok", d)
    if w[0] == "mal":
        return ("mal", unhx(w[1]))
    if w[0] == "exn":
        return ("exn", w[1])
    return ("modelerr", line)


def canon(r):
    if r[0] == "ok":
        return ("ok", tuple(sorted(r[1].items())))
    return tuple(r)


def model_batch(runner, cases, cmd="mw"):
    lines = ["%s %s %s" % (cmd, cfg_words(c), env_words(e)) for e, c in cases]
    return [parse_model(l) for l in runner.query(lines)]


# ---- the specification, in Python, checked against the extracted Coq Spec ----
# (every value computed here is memoised and compared with the extracted
# ProxySpec.v function on the same argument at the end: obligation K-spec)

STRIP = " \t\n\r\x0b\x0c\x1c\x1d\x1e\x1f\x85\xa0"
_QS = re.compile(r'"(?:[\t \x21\x23-\x5b\x5d-\x7e\x80-\xff]|\\[\t \x20-\x7e\x80-\xff])*"')


class Spec:
    def __init__(self):
        self.memo = {}

    def _m(self, fn, arg, val):
        self.memo[(fn, arg)] = val
        return val

    def strip(self, s):
        return self._m("strip", s, s.strip(STRIP))

    def pick_index(self, n, k):
        return self._m("pick", (n, k), n - min(k, n))

    def bad_quoting(self, v):
        return self._m("badquoting", v, (v.startswith('"') or v.endswith('"')) and not _QS.fullmatch(v))

    @staticmethod
    def unq(v):
        if v.startswith('"') and v.endswith('"') and len(v) >= 2:
            return re.sub(r"\\(.)", r"\1", v[1:-1], flags=re.S)
        return v

    @staticmethod
    def has_port(s):
        return ":" in s and not s.endswith("]")

    def addr(self, s):
        a = self.strip(s.rpartition(":")[0] if self.has_port(s) else s)
        if a.startswith("[") and a.endswith("]"):
            a = a[1:-1]
        return self._m("addr", s, a)

    def port(self, s):
        return self._m("port", s, self.strip(s.rpartition(":")[2]) if self.has_port(s) else None)

    def bad_client(self, c):
        a = (c.rpartition(":")[0] if self.has_port(c) else c).strip(STRIP)
        return self._m("badclient", c, bool(c) and not a)

    def empty_host(self, h):
        t = h.rpartition(":")[0] if self.has_port(h) else h
        return self._m("emptyhost", h, bool(h) and not t.strip(STRIP))

    def first_nonempty(self, l):
        r = ""
        for x in l:
            if x:
                r = x
                break
        return self._m("first", tuple(l), r)

    def cat_list(self, raw):
        return self._m("catlist", raw, any(self.bad_quoting(h.strip(STRIP)) for h in raw.split(",")))

    def cat_single(self, v):
        return self._m("catsingle", v, self.bad_quoting(v))

    def cat_several(self, v):
        return self._m("catseveral", v, "," in v)

    def pair_bad(self, p):
        # p is lower-cased already
        if not p:
            return self._m("pairbad", p, False)
        if "=" not in p:
            return self._m("pairbad", p, True)
        t, _, v = p.partition("=")
        bad = t.strip(STRIP) != t or v.strip(STRIP) != v or (t in ("by", "for", "host", "proto") and self.bad_quoting(v))
        return self._m("pairbad", p, bad)

    def cat_forwarded(self, raw):
        bad = False
        for el in raw.split(","):
            for p in el.strip(STRIP).split(";"):
                if self.pair_bad(p.lower()):
                    bad = True
        return self._m("catfwd", raw, bad)

    def cat_scheme(self, p):
        return self._m("catscheme", p, bool(p) and p.lower() not in ("http", "https"))

    def element_fields(self, el):
        f = {"by": "", "for": "", "host": "", "proto": ""}
        for p in el.strip(STRIP).split(";"):
            p = p.lower()
            if not p:
                continue
            t, _, v = p.partition("=")
            if t in f:
                f[t] = self.unq(v)
        return f

    # -- validation of the memo against the extracted Coq definitions
    def validate(self, runner):
        lines = []
        keys = list(self.memo.keys())
        for fn, arg in keys:
            if fn == "pick":
                lines.append("pick %d %d" % arg)
            elif fn == "first":
                lines.append("first " + " ".join(hx(x) for x in arg) if arg else "first")
            else:
                lines.append("%s %s" % (fn, hx(arg)))
        got = runner.query(lines)
        bad = []
        for (fn, arg), g in zip(keys, got):
            v = self.memo[(fn, arg)]
            if fn == "pick":
                want = str(v)
            elif fn in ("strip", "addr", "first"):
                want = hx(v)
            elif fn == "port":
                want = "N" if v is None else "S:" + hx(v)
            else:
                want = "1" if v else "0"
            if g != want:
                bad.append((fn, arg, want, g))
        return len(keys), bad


def xff_norm(h):
    """waitress treats an X-Forwarded-For element without '.' that contains ':'
    as a bare IPv6 address (no port)"""
    if "." not in h and ":" in h and not h.endswith("]"):
        return "[" + h + "]"
    return h


def allowed_tph(tph):
    """configurations Adjustments accepts: 'forwarded' alone or a set of x-forwarded kinds"""
    if tph is None:
        return True
    if not set(tph) <= set(KIND_KEY):
        return False
    return not ("forwarded" in tph and len(tph) > 1)


def is_trusted_path(env, cfg):
    return "REMOTE_ADDR" in env and (cfg.tp == "*" or env["REMOTE_ADDR"] == cfg.tp)


def spec_expect(spec, env, cfg):
    """What C16 demands for a trusted peer, count >= 1, an allowed set of kinds.
    -> ("mal", [categories]) | ("ok", facts)"""
    tph = cfg.tph or frozenset()
    k = cfg.count
    client = ""
    host = proto = ""
    rewritten = {}
    cats = []
    left = []   # raw elements to the left of the trusted suffix
    if "forwarded" in tph:
        raw = env.get("HTTP_FORWARDED")
        if raw:
            if spec.cat_forwarded(raw):
                cats.append("forwarded-syntax")
            else:
                els = raw.split(",")
                i = spec.pick_index(len(els), k)
                suf = [spec.element_fields(e) for e in els[i:]]
                client = spec.first_nonempty([f["for"] for f in suf])
                host = spec.first_nonempty([f["host"] for f in suf])
                proto = spec.first_nonempty([f["proto"] for f in suf])
                rewritten["HTTP_FORWARDED"] = spec.strip(",".join(els[i:]))
                left += els[:i]
    else:
        if "x-forwarded-for" in tph and "HTTP_X_FORWARDED_FOR" in env:
            raw = env["HTTP_X_FORWARDED_FOR"]
            if spec.cat_list(raw):
                cats.append("xff-quoting")
            else:
                els = raw.split(",")
                i = spec.pick_index(len(els), k)
                client = xff_norm(spec.unq(spec.strip(els[i])))
                rewritten["HTTP_X_FORWARDED_FOR"] = spec.strip(",".join(els[i:]))
                left += els[:i]
        if "x-forwarded-host" in tph and "HTTP_X_FORWARDED_HOST" in env:
            raw = env["HTTP_X_FORWARDED_HOST"]
            if spec.cat_list(raw):
                cats.append("xfh-quoting")
            else:
                els = raw.split(",")
                i = spec.pick_index(len(els), k)
                host = spec.unq(spec.strip(els[i]))
                rewritten["HTTP_X_FORWARDED_HOST"] = spec.strip(",".join(els[i:]))
                left += els[:i]
        if "x-forwarded-proto" in tph:
            v = env.get("HTTP_X_FORWARDED_PROTO", "")
            if spec.cat_single(v):
                cats.append("xfproto-quoting")
            elif spec.cat_several(v):
                cats.append("xfproto-several")
            else:
                proto = spec.unq(v)
        if "x-forwarded-port" in tph:
            v = env.get("HTTP_X_FORWARDED_PORT", "")
            if spec.cat_single(v):
                cats.append("xfport-quoting")
            elif spec.cat_several(v):
                cats.append("xfport-several")
    if cats:
        return ("mal", cats)
    if spec.cat_scheme(proto):
        cats.append("scheme")
    if spec.empty_host(host):
        cats.append("empty-host")
    if spec.bad_client(client):
        cats.append("empty-client-address")
    if cats:
        return ("mal", cats)
    return ("ok", {"client": client, "host": host, "proto": proto, "rewritten": rewritten, "left": left})


def untrusted_keys(cfg):
    """proxy header keys that must not reach the application when clear_untrusted is on"""
    tph = cfg.tph or frozenset()
    if "forwarded" in tph:
        return [KIND_KEY[x] for x in XF_KINDS]
    return [KIND_KEY[x] for x in KIND_KEY if x not in tph]


def check_ok_facts(spec, env, cfg, facts, out):
    """-> list of (what, expected, observed) that contradict C16 on an accepted request"""
    bad = []

    def want(key, val, why):
        if out.get(key) != val:
            bad.append(("%s (%s)" % (key, why), val, out.get(key)))

    c = facts["client"]
    if c:
        want("REMOTE_ADDR", spec.addr(c), "address of the selected hop")
        want("REMOTE_HOST", spec.addr(c), "address of the selected hop")
        p = spec.port(c)
        want("REMOTE_PORT", p if p is not None else env.get("REMOTE_PORT"), "port of the selected hop")
    else:
        for key in ("REMOTE_ADDR", "REMOTE_HOST", "REMOTE_PORT"):
            want(key, env.get(key), "no client address selected")
    h = facts["host"]
    if h:
        t = h.rpartition(":")[0] if spec.has_port(h) else h
        if (out.get("SERVER_NAME") or "").strip(STRIP) != t.strip(STRIP):
            bad.append(("SERVER_NAME (host of the selected hop)", t.strip(STRIP), out.get("SERVER_NAME")))
        if not (out.get("HTTP_HOST") or "").startswith(h):
            bad.append(("HTTP_HOST (host of the selected hop)", h, out.get("HTTP_HOST")))
    else:
        want("SERVER_NAME", env.get("SERVER_NAME"), "no host selected")
        want("HTTP_HOST", env.get("HTTP_HOST"), "no host selected")
    pr = facts["proto"]
    want("wsgi.url_scheme", pr.lower() if pr else env.get("wsgi.url_scheme"), "scheme of the selected hop")
    unt = untrusted_keys(cfg)
    for key in PROXY_KEYS:
        if key in unt:
            if cfg.clear:
                want(key, None, "untrusted kind is stripped")
            else:
                want(key, env.get(key), "untrusted kind is left alone")
        elif key in facts["rewritten"]:
            want(key, facts["rewritten"][key], "pruned to the trusted suffix")
        else:
            want(key, env.get(key), "trusted kind handed on")
    for key in set(env) | set(out):
        if key not in PROXY_KEYS and key not in META_KEYS:
            want(key, env.get(key), "unrelated key")
    # hops left of the trusted suffix never reach the application
    others = [v for k2, v in env.items() if k2 not in PROXY_KEYS]
    for el in facts["left"]:
        t = el.strip(STRIP)
        if len(t) < 5:
            continue
        if any(t in v for v in facts["rewritten"].values()) or any(t in v for v in others):
            continue
        untouched = [env.get(k2) for k2 in PROXY_KEYS if k2 not in facts["rewritten"]]
        for key, v in out.items():
            if isinstance(v, str) and t in v and v not in untouched:
                bad.append(("hop %r left of the trusted suffix appears in %s" % (t, key), "absent", v))
    return bad


# ---- generators ---------------------------------------------------------------

WS = ["", "", "", "", " ", "  ", "\t", "\x85", "\xa0", "\x1f", "\x0b", " \t", "\x0c", "\r", "\n", "\x1c"]
PEER = "10.9.8.7"
OTHER = "172.16.0.9"

XFF_VALID = [
    "10.0.0.%d", "192.0.2.%d:4711", "2001:db8::%d", "[2001:db8::%d]", "[2001:db8::%d]:8080",
    '"10.1.1.%d"', '"[2001:db8::%d]:99"', "unknown%d", "_hidden%d", "client%d.example",
    '"q\\.%d.example"', "203.0.113.%d", "fe80::%d", '"2001:DB8::%d"', "198.51.100.%d : 99", "[v%d]",
]
XFF_DEGEN = [
    ":80", "[", "]", '"', "", " ", '" "', '" :8."', "[]", "[]:80", "::", "a:", ":", '""', '"a', 'a"',
    '"a"b"', '"\\"', '"\\""', '"a\\\x7f"', ".", ".:", "]:1", "[:]", '"\x85"', '"\xa0:1"', "[ ]:5", '"\t"',
    '"[]"', '" [x] "', "\\", '"\\', ": ", " :", '":"', '". :1"', "1.2.3.4:", '"[::1]', "x]",
]
HOST_VALID = [
    "example%d.com", "example%d.com:8443", "[::%d]:80", "[::%d]", '"h%d.example"', '"h%d.example:81"',
    "EXAMPLE%d.org:443", "h%d:80", "h%d:443", "h%d : 70", "a%d.b:", '"a\\:%d"',
]
HOST_DEGEN = [":80", '" "', '" :"', "", " ", '"', ":", '":80"', '"', "[", "]", '""', ": 80", '" : 80"', "\xa0:1",
              '"\x85"', "::", "]:", '"a', "[]:1", '" ":443']
PROTO_VALS = ["http", "https", "HTTP", "Https", '"https"', '"http"', "ftp", "http,https", "", '"', " https",
              "https ", '"ht\\tp"', '"ftp"', "ws", "http, http", '"http,https"', '""', "h", "\xc8TTP", '"https']
PORT_VALS = ["80", "443", "8080", '"8080"', "80,81", "", "abc", '"', '"443"', " 80", "0", '"8,0"', "65536", '"80', "80 "]
BY_VALS = ["_proxy1", "10.1.1.1", '"x"', '"', ",", ""]
FWD_NODE = ["10.2.0.%d", '"10.2.0.%d:5000"', '"[2001:db8:cafe::%d]"', '"[2001:db8:cafe::%d]:4711"', "unknown", "_obf%d",
            '"_obf%d"', "n%d.example", '"N%d.EXAMPLE:80"', '"a\\b%d"']
FWD_HOST = ["h%d.example", '"h%d.example:8443"', "H%d.Example", '"[::%d]:80"', '"h%d:80"', '"h%d:443"']
FWD_PROTO = ["http", "https", "HTTPS", '"https"', "Http"]
FWD_DEGEN_EL = [
    "for=", 'for=""', "=x", ";;", "for", "for=:80", 'for=" "', "for==", "for=a=b", " ", "", 'for="[::1]"',
    'FOR="[2001:DB8::1]:80"', 'host=":80"', "proto=", "proto=ftp", "for=a;for=b", 'by="', "for=a;", ";for=a",
    "for =a", "for= a", " for=a", "for=a ", "for=a; host=b", "for=a ;host=b", 'for="a', 'for=a"', 'host=" "',
    'host=" :"', 'for=" :8."', 'for="[]"', 'for="[]:1"', "for=[", "for=]", 'for=":"', "for=\x85", 'for="\xa0"',
    "x", "=", "for=a;x", "secret=\"", "ext=\" \"", "for=1.2.3.4:", 'proto="ht\\tps"', 'proto="ftp"', "host=:",
    'for="\\"', "for=\\", 'for="a\\\x7f"', "host=h;host=", 'host=h;host=""', "proto=http;proto=", "for=_a;for=\"\"",
]
FUZZ_ALPHA = '",;=:[]\\ .a1A\t\x85"fh\xb5\xdf\xff\xa0\xb2'


# code points < 256 where a text transformation leaves ASCII behaviour: casefold (b5 df), upper (b5 df ff),
# lower of the upper-case latin-1 letters (c0-de, not d7), isalpha/islower (aa ba), strip / isspace
# (85 a0 1c-1f), isdigit / int() (b2 b3 b9, bc-be numeric), soft hyphen, DEL, the first non-ASCII
SPECIAL_BYTES = "\xb5\xdf\xff\xaa\xba\x85\xa0\x1c\x1d\x1e\x1f\xb2\xb3\xb9\xbc\xbd\xbe\xc0\xd7\xde\xf7\xdc\xe9\x7f\x80\xad"


def sprinkle(rng, v, k=None):
    """insert k (1..2) special code points into v at the start / somewhere inside / at the end"""
    for _ in range(k or rng.choice([1, 1, 2])):
        b = rng.choice(SPECIAL_BYTES)
        where = rng.choice(["start", "mid", "end", "inside-quotes"])
        if where == "start":
            v = b + v
        elif where == "end":
            v = v + b
        elif where == "inside-quotes" and '"' in v:
            i = v.index('"') + 1
            v = v[:i] + b + v[i:]
        else:
            i = rng.randint(0, len(v))
            v = v[:i] + b + v[i:]
    return v


def _pad(rng, s):
    return rng.choice(WS) + s + rng.choice(WS)


def gen_list_header(rng, valid, degen, p_degen, maxlen=6):
    n = rng.choice([0, 1, 1, 2, 2, 3, 3, 4, 5, 6][: maxlen + 4])
    els = []
    for i in range(n):
        if rng.random() < p_degen:
            a = rng.choice(degen)
        else:
            a = rng.choice(valid)
            if "%d" in a:
                a = a % rng.randint(1, 250)
        els.append(_pad(rng, a) if rng.random() < 0.5 else a)
    return ",".join(els)


def gen_fwd_element(rng, p_degen):
    if rng.random() < p_degen:
        return rng.choice(FWD_DEGEN_EL)
    pairs = []
    names = [("for", FWD_NODE), ("host", FWD_HOST), ("proto", FWD_PROTO), ("by", FWD_NODE)]
    rng.shuffle(names)
    for name, vals in names:
        if rng.random() < 0.6:
            v = rng.choice(vals)
            if "%d" in v:
                v = v % rng.randint(1, 250)
            nm = rng.choice([name, name, name, name.upper(), name.capitalize()])
            pairs.append(nm + "=" + v)
    if rng.random() < 0.15:
        pairs.insert(rng.randint(0, len(pairs)), rng.choice(["ext=1", 'secret="x y"', "", "Ext=\"a;b\""]))
    return ";".join(pairs)


def gen_forwarded(rng, p_degen):
    n = rng.choice([0, 1, 1, 2, 2, 3, 3, 4, 5, 6])
    els = [gen_fwd_element(rng, p_degen) for _ in range(n)]
    els = [_pad(rng, e) if rng.random() < 0.4 else e for e in els]
    return ",".join(els)


def fuzz(rng, maxlen=9):
    return "".join(rng.choice(FUZZ_ALPHA) for _ in range(rng.randint(0, maxlen)))


def base_env(rng, peer):
    env = {
        "REMOTE_ADDR": peer, "REMOTE_HOST": peer, "REMOTE_PORT": str(rng.choice([5555, 40000, 1])),
        "REQUEST_METHOD": "GET", "SERVER_PORT": rng.choice(["8080", "80", "443"]),
        "SERVER_NAME": rng.choice(["waitress.invalid", "localhost"]),
        "SERVER_PROTOCOL": "HTTP/1.1", "SCRIPT_NAME": "", "PATH_INFO": "/p",
        "QUERY_STRING": "", "wsgi.url_scheme": rng.choice(["http", "http", "https", "https", "ws"]),
    }
    if rng.random() < 0.7:
        env["HTTP_HOST"] = rng.choice(["front.example", "front.example:8080"])
    if rng.random() < 0.3:
        env["HTTP_USER_AGENT"] = "ua/1.0"
    return env


def gen_headers(rng, env, p_degen, which=None):
    """put proxy headers into env; returns the kinds present"""
    present = []
    for kind in KIND_KEY:
        p = 0.55 if which is None else (0.9 if kind in which else 0.3)
        if rng.random() >= p:
            continue
        r = rng.random()
        if r < 0.06:
            v = fuzz(rng)
        elif kind == "x-forwarded-for":
            v = gen_list_header(rng, XFF_VALID, XFF_DEGEN, p_degen)
        elif kind == "x-forwarded-host":
            v = gen_list_header(rng, HOST_VALID, HOST_DEGEN, p_degen)
        elif kind == "x-forwarded-proto":
            v = rng.choice(PROTO_VALS) if rng.random() < max(p_degen * 3, 0.15) else rng.choice(["http", "https", "HTTPS", '"https"'])
        elif kind == "x-forwarded-port":
            v = rng.choice(PORT_VALS) if rng.random() < max(p_degen * 3, 0.15) else rng.choice(["80", "443", "8080", '"8443"'])
        elif kind == "x-forwarded-by":
            v = rng.choice(BY_VALS)
        else:
            v = gen_forwarded(rng, p_degen)
        # the latin-1 code points on which str.lower / casefold / strip / isdigit ... differ from their
        # ASCII meaning, anywhere in any value (shared by the C15 and C16 generators)
        if rng.random() < 0.12:
            v = sprinkle(rng, v)
        env[KIND_KEY[kind]] = v
        present.append(kind)
    return present


def gen_tph(rng, allowed_only=False):
    r = rng.random()
    if r < 0.35:
        return frozenset(["forwarded"])
    if r < 0.85:
        return frozenset(k for k in XF_KINDS if rng.random() < 0.55)
    if r < 0.90:
        return None
    if allowed_only:
        return frozenset(["x-forwarded-for", "x-forwarded-host", "x-forwarded-proto", "x-forwarded-port"])
    if r < 0.96:   # refused by Adjustments, possible through the middleware's own signature
        return frozenset(["forwarded"] + [k for k in XF_KINDS if rng.random() < 0.5])
    return frozenset(["X-Forwarded-For", "bogus", ""] + [k for k in XF_KINDS if rng.random() < 0.3])


def gen_count(rng, wide=False):
    if wide and rng.random() < 0.12:
        return rng.choice([0, -1, -2, 7, 100])
    return rng.choice([1, 1, 2, 2, 3, 4])


def gen_case(rng, mode):
    """mode: 'trusted' (mostly trusted peers), 'untrusted' (mostly untrusted peers)"""
    r = rng.random()
    if mode == "trusted":
        tp = PEER if r < 0.70 else ("*" if r < 0.85 else (OTHER if r < 0.93 else (None if r < 0.98 else "")))
    else:
        tp = OTHER if r < 0.55 else (None if r < 0.80 else (PEER if r < 0.92 else ("*" if r < 0.96 else "")))
    peer = PEER if rng.random() < 0.9 else rng.choice([OTHER, "", "*", "::1", "10.9.8.70", " 10.9.8.7"])
    cfg = Cfg(tp, gen_count(rng, wide=True), gen_tph(rng), rng.random() < 0.6)
    env = base_env(rng, peer)
    p_degen = rng.choice([0.0, 0.0, 0.05, 0.15, 0.5])
    which = cfg.tph if cfg.tph else None
    gen_headers(rng, env, p_degen, which)
    r = rng.random()
    if r < 0.01:
        del env["wsgi.url_scheme"]
    elif r < 0.02:
        del env["REMOTE_ADDR"]
    return env, cfg


def exhaustive_small(tier):
    """every degenerate element alone and in second position, for each list kind"""
    out = []
    for k in (1, 2):
        for d in XFF_DEGEN:
            for v in (d, "10.0.0.1," + d, d + ",10.0.0.2", d + " , " + d):
                env = {"REMOTE_ADDR": PEER, "REMOTE_HOST": PEER, "REMOTE_PORT": "1", "SERVER_NAME": "s",
                       "SERVER_PORT": "8080", "wsgi.url_scheme": "http", "HTTP_X_FORWARDED_FOR": v}
                out.append((env, Cfg(PEER, k, frozenset(["x-forwarded-for"]), True)))
        for d in HOST_DEGEN:
            for v in (d, "a.example," + d, d + ",b.example:81"):
                for port in (None, "80", "8443"):
                    env = {"REMOTE_ADDR": PEER, "REMOTE_HOST": PEER, "REMOTE_PORT": "1", "SERVER_NAME": "s",
                           "SERVER_PORT": "8080", "wsgi.url_scheme": "http", "HTTP_X_FORWARDED_HOST": v}
                    tph = ["x-forwarded-host"]
                    if port:
                        env["HTTP_X_FORWARDED_PORT"] = port
                        tph.append("x-forwarded-port")
                    out.append((env, Cfg(PEER, k, frozenset(tph), True)))
        for d in FWD_DEGEN_EL:
            for v in (d, "for=10.0.0.1;host=h;proto=https," + d, d + ",for=10.0.0.2"):
                env = {"REMOTE_ADDR": PEER, "REMOTE_HOST": PEER, "REMOTE_PORT": "1", "SERVER_NAME": "s",
                       "SERVER_PORT": "8080", "wsgi.url_scheme": "http", "HTTP_FORWARDED": v}
                out.append((env, Cfg("*", k, frozenset(["forwarded"]), False)))
    for pv in PROTO_VALS:
        for po in PORT_VALS[:6] + [None]:
            for sch in ("http", "https"):
                env = {"REMOTE_ADDR": PEER, "REMOTE_HOST": PEER, "REMOTE_PORT": "1", "SERVER_NAME": "s",
                       "SERVER_PORT": "8080", "wsgi.url_scheme": sch, "HTTP_X_FORWARDED_PROTO": pv,
                       "HTTP_X_FORWARDED_HOST": "h.example"}
                tph = ["x-forwarded-proto", "x-forwarded-host"]
                if po is not None:
                    env["HTTP_X_FORWARDED_PORT"] = po
                    tph.append("x-forwarded-port")
                out.append((env, Cfg(PEER, 1, frozenset(tph), True)))
    return out


def hop_law_cases(tier):
    """all list lengths n and counts k in a box, for each list-valued kind"""
    out = []
    nmax, kmax = (7, 5) if tier == "quick" else (10, 8)
    for n in range(1, nmax + 1):
        for k in range(1, kmax + 1):
            hops = ["10.%d.%d.%d" % (n, k, i) for i in range(n)]
            hosts = ["n%dk%di%d.example:%d" % (n, k, i, 1000 + i) for i in range(n)]
            b = {"REMOTE_ADDR": PEER, "REMOTE_HOST": PEER, "REMOTE_PORT": "1", "SERVER_NAME": "s",
                 "SERVER_PORT": "8080", "wsgi.url_scheme": "http"}
            e = dict(b)
            e["HTTP_X_FORWARDED_FOR"] = ", ".join(hops)
            e["HTTP_X_FORWARDED_HOST"] = ",".join(hosts)
            out.append((e, Cfg(PEER, k, frozenset(["x-forwarded-for", "x-forwarded-host"]), True)))
            # Forwarded: field present in every element / only in some
            for variant in range(3):
                els = []
                for i in range(n):
                    parts = []
                    if variant == 0 or (i + variant) % 2 == 0:
                        parts.append("for=%s" % hops[i])
                    if variant == 0 or (i + variant) % 3 != 0:
                        parts.append('host="%s"' % hosts[i])
                    if variant != 1 or i % 2 == 1:
                        parts.append("proto=" + ("https" if i % 2 else "http"))
                    els.append(";".join(parts))
                e = dict(b)
                e["HTTP_FORWARDED"] = ", ".join(els)
                out.append((e, Cfg(PEER, k, frozenset(["forwarded"]), True)))
    return out


def case_key(env, cfg):
    h = hashlib.sha1()
    h.update(repr((cfg_words(cfg), sorted(env.items()))).encode("latin-1", "replace"))
    return h.hexdigest()


def describe(env, cfg):
    return {"environ_hex": env_json(env), "config": cfg_json(cfg),
            "proxy_headers": {k: env[k] for k in PROXY_KEYS if k in env}}


# ---- end-to-end helper: raw request -> real parser -> real task environ -------

class _Chan:
    def __init__(self, server, addr):
        self.server = server
        self.addr = addr
        self.adj = server.adj
        self.creation_time = 0
        self.outbuf_lock = None

    def check_client_disconnected(self):
        return False


def environ_from_request(server, peer, raw):
    """Parse raw request bytes with the real HTTPRequestParser and build the
    environ with the real WSGITask.get_environment.  -> dict of str values, or None"""
    from waitress.parser import HTTPRequestParser
    from waitress.task import WSGITask

    p = HTTPRequestParser(server.adj)
    p.received(raw)
    if not p.completed or p.error:
        return None
    t = WSGITask(_Chan(server, (peer, 4711)), p)
    env = t.get_environment()
    return {k: v for k, v in env.items() if isinstance(v, str)}


# ---- evaluations shared by checks/C15.py, checks/C16.py and their replay() ----

def c16_spec_eval(spec, env, cfg, real=None):
    """C16 on one trusted-path case.  -> (verdict, detail)   verdict: 'pass' | 'fail'"""
    if real is None:
        real = real_middleware(env, cfg)
    exp = spec_expect(spec, env, cfg)
    if exp[0] == "mal":
        cats = exp[1]
        if real[0] == "mal":
            return "pass", cats[0]
        return "fail", "category %s must give 400, implementation: %s" % ("+".join(cats), short(real))
    if real[0] != "ok":
        return "fail", "well-formed proxy headers, implementation: %s" % short(real)
    bad = check_ok_facts(spec, env, cfg, exp[1], real[1])
    if bad:
        what, want, got = bad[0]
        return "fail", "%s: expected %r, observed %r" % (what, want, got)
    return "pass", "ok"


def short(r):
    if r[0] == "ok":
        return "accepted; " + ", ".join("%s=%r" % (k, r[1].get(k)) for k in META_KEYS + PROXY_KEYS if k in r[1])
    return " ".join(str(x) for x in r)


def c15_tworun_eval(env, cfg, runner_fn=None):
    """C15 on one untrusted-peer case: with vs. without the six headers.
    -> list of failure strings (empty = holds)"""
    run = runner_fn or (lambda e: real_middleware(e, cfg))
    with_h = run(env)
    stripped = {k: v for k, v in env.items() if k not in PROXY_KEYS}
    without = run(stripped)
    fails = []
    if with_h[0] != "ok" or without[0] != "ok":
        return ["request of an untrusted peer not handed to the application: with=%s without=%s" % (short(with_h), short(without))]
    a, b = with_h[1], without[1]
    for k in META_KEYS:
        if a.get(k) != env.get(k):
            fails.append("%s changed from %r to %r" % (k, env.get(k), a.get(k)))
    for k in set(a) | set(b):
        if k in PROXY_KEYS:
            continue
        if a.get(k) != b.get(k):
            fails.append("%s differs: with headers %r, without %r" % (k, a.get(k), b.get(k)))
    if cfg.clear:
        for k in PROXY_KEYS:
            if k in a:
                fails.append("%s reached the application although clear_untrusted is on" % k)
    else:
        for k in PROXY_KEYS:
            if a.get(k) != env.get(k):
                fails.append("%s modified for an untrusted peer" % k)
    return fails


def kinds_eval(env, cfg, key, newval):
    """C16 kinds: key is the environ key of a kind that is not trusted; setting it
    to newval (None = delete) must change nothing but that key."""
    r1 = real_middleware(env, cfg)
    e2 = dict(env)
    if newval is None:
        e2.pop(key, None)
    else:
        e2[key] = newval
    r2 = real_middleware(e2, cfg)
    if r1[0] != r2[0]:
        return ["outcome changes with untrusted %s: %s vs %s" % (key, short(r1), short(r2))]
    if r1[0] != "ok":
        return [] if r1 == r2 else ["error changes with untrusted %s: %s vs %s" % (key, short(r1), short(r2))]
    a, b = r1[1], r2[1]
    fails = []
    for k in set(a) | set(b):
        if k == key:
            continue
        if a.get(k) != b.get(k):
            fails.append("%s differs when untrusted %s changes: %r vs %r" % (k, key, a.get(k), b.get(k)))
    if cfg.clear and (key in a or key in b):
        fails.append("untrusted %s reached the application although clear_untrusted is on" % key)
    if not cfg.clear and (a.get(key) != env.get(key) or b.get(key) != e2.get(key)):
        fails.append("untrusted %s was modified" % key)
    return fails


def compare_model(runner, cases, cmd="mw", real_fn=None, log_rng=None):
    """-> (mismatches [(env,cfg,real,model)], outcome Counter, reals)"""
    model = model_batch(runner, cases, cmd)
    mism = []
    dist = Counter()
    reals = []
    for (env, cfg), m in zip(cases, model):
        if real_fn is not None:
            r = real_fn(env, cfg)
        else:
            r = real_middleware(env, cfg, log_untrusted=bool(log_rng and log_rng.random() < 0.2))
        reals.append(r)
        dist[r[0] if r[0] != "exn" else "exn:" + r[1]] += 1
        if canon(r) != canon(m):
            mism.append((env, cfg, r, m))
    return mism, dist, reals


def prim_cases(rng, tier):
    """primitives of Lib/PyStrProxy.v and Model/Proxy.v against CPython / the real functions"""
    from waitress.utilities import undquote
    from waitress.proxy_headers import strip_brackets

    strs = set(XFF_DEGEN + HOST_DEGEN + PROTO_VALS + PORT_VALS + ["[a]", "[a", "a]", "[", "]", "[]", "x", ""])
    alpha = '"\\a \t\x7f\x80,'
    import itertools
    for n in range(0, 5 if tier == "quick" else 6):
        for t in itertools.product(alpha, repeat=n):
            strs.add("".join(t))
    for _ in range(300 if tier == "quick" else 3000):
        strs.add('"' + "".join(rng.choice(alpha + "bc\xff\x1f") for _ in range(rng.randint(0, 12))) + '"')
    out = []
    for s in sorted(strs):
        try:
            w = "ok " + hx(undquote(s))
        except ValueError:
            w = "exn ValueError"
        out.append(("undq " + hx(s), w))
        try:
            w = "ok " + hx(strip_brackets(s))
        except IndexError:
            w = "exn IndexError"
        out.append(("sb " + hx(s), w))
        out.append(("strip " + hx(s), hx(s.strip())))
        out.append(("mid " + hx(s), hx(s[1:-1])))
    for n in range(0, 6):
        l = ["e%d" % i for i in range(n)]
        for k in range(-7, 8):
            got = l[-k:]
            out.append(("lastk %d %s" % (k, " ".join(hx(x) for x in l)), " ".join(["l"] + [hx(x) for x in got])))
    return out


def res_json(r):
    if r[0] == "ok":
        return {"outcome": "ok", "environ_hex": env_json(r[1])}
    if r[0] == "mal":
        return {"outcome": "400", "header": r[1]}
    if r[0] == "exn":
        return {"outcome": "exception", "class": r[1]}
    return {"outcome": "other", "detail": [str(x) for x in r[1:]]}


def res_from_json(d):
    if d["outcome"] == "ok":
        return ("ok", env_from_json(d["environ_hex"]))
    if d["outcome"] == "400":
        return ("mal", d["header"])
    if d["outcome"] == "exception":
        return ("exn", d["class"])
    return ("other",)


def run_prims(ctx, runner):
    pc = prim_cases(ctx.rng, ctx.tier)
    got = runner.query([c for c, _ in pc])
    bad = [(c, e, g) for (c, e), g in zip(pc, got) if e != g]
    for c, e, g in bad[:5]:
        ctx.notes.append("K-proxy primitive mismatch: %s expected %s got %s" % (c, e, g))
        ctx.report("prim:" + c, "primitive of the model disagrees with CPython / the real function: %s expected %s, model %s" % (c, e, g),
                   {"kind": "prim", "query": c, "expected": e, "observed": g, "failing_input_found": True})
    return len(pc), not bad


def report_model_mismatches(ctx, mism, tag):
    for env, cfg, r, m in mism[:20]:
        d = describe(env, cfg)
        d.update({"kind": "model", "entry": tag, "expected": res_json(m), "observed": res_json(r),
                  "expected_by": "extracted Coq model (Model/Proxy.v)", "failing_input_found": True})
        ctx.report("model:%s:%s" % (tag, case_key(env, cfg)[:12]),
                   "model and implementation disagree (%s): implementation %s ; model %s" % (tag, short(r), short(m)), d)


def replay_common(data):
    """shared by the replay() of C15 and C16; returns 0 when the recorded failure is gone"""
    kind = data.get("kind")
    if kind == "prim":
        print("primitive mismatch; re-run the check")
        return 1
    env = env_from_json(data["environ_hex"])
    cfg = cfg_from_json(data["config"])
    if kind == "model":
        r = real_middleware(env, cfg)
        want = res_from_json(data["expected"])
        print("config=%s headers=%r\n expected(model)=%s\n observed_now=%s" % (data["config"], data.get("proxy_headers"), short(want), short(r)))
        return 0 if canon(r) == canon(want) else 1
    if kind == "tworun":
        fails = c15_tworun_eval(env, cfg)
        print("config=%s headers=%r\n %s" % (data["config"], data.get("proxy_headers"), fails or "holds now"))
        return 1 if fails else 0
    if kind == "spec":
        v, d = c16_spec_eval(Spec(), env, cfg)
        print("config=%s headers=%r\n %s: %s" % (data["config"], data.get("proxy_headers"), v, d))
        return 0 if v == "pass" else 1
    if kind == "prune":
        env2 = env_from_json(data["environ2_hex"])
        ap, fails = prune_eval(env, env2, cfg)
        print("config=%s headers=%r / %r\n %s" % (data["config"], data.get("proxy_headers"), {k: env2[k] for k in PROXY_KEYS if k in env2}, fails or "holds now"))
        return 1 if fails else 0
    if kind == "kinds":
        nv = data.get("new_value_hex")
        fails = kinds_eval(env, cfg, data["key"], None if nv is None else unhx(nv))
        print("config=%s headers=%r key=%s\n %s" % (data["config"], data.get("proxy_headers"), data["key"], fails or "holds now"))
        return 1 if fails else 0
    print("unknown replay kind %r" % kind)
    return 1


LEFT_FILLER = {
    "HTTP_X_FORWARDED_FOR": ["10.99.%d.1", '"10.99.%d.2:9"', "[2001:db8:99::%d]"],
    "HTTP_X_FORWARDED_HOST": ["left%d.example", '"left%d.example:99"'],
    "HTTP_FORWARDED": ["for=10.99.%d.1;host=left%d.example;proto=http", 'for="[2001:db8:99::%d]:1";by=left%d'],
}


def prune_variant(rng, env, cfg, key):
    """another request whose header `key` has the same last k elements and
    different (well-formed) elements to the left; None if there is nothing to vary"""
    raw = env.get(key)
    if raw is None or cfg.count < 1:
        return None
    els = raw.split(",")
    i = len(els) - min(cfg.count, len(els))
    nleft = rng.choice([0, 1, 2, 3])
    if i == 0 and nleft == 0:
        return None
    left = []
    for _ in range(nleft):
        t = rng.choice(LEFT_FILLER[key])
        n = rng.randint(1, 200)
        left.append(t % ((n,) * t.count("%d")))
    if left == els[:i]:
        return None
    # when fewer than k elements exist any new element on the left would enter the suffix
    if len(els) < cfg.count and nleft:
        return None
    e2 = dict(env)
    e2[key] = ",".join(left + els[i:])
    if e2[key] == raw or (key == "HTTP_FORWARDED" and not (raw and e2[key])):
        return None
    return e2


def prune_eval(env, env2, cfg):
    """both accepted -> the application sees the same environ"""
    r1 = real_middleware(env, cfg)
    r2 = real_middleware(env2, cfg)
    if r1[0] != "ok" or r2[0] != "ok":
        return None, []      # not applicable (one of them refused)
    a, b = r1[1], r2[1]
    fails = ["%s differs: %r vs %r" % (k, a.get(k), b.get(k)) for k in sorted(set(a) | set(b)) if a.get(k) != b.get(k)]
    return True, fails


# ==== C16 extension (appended; nothing above is changed) =====================================
# (1) configuration validation of trusted_proxy_headers: the real Adjustments, every subset of the six
#     kinds in several spellings and input forms, against the documented rule (names are
#     case-insensitive; unknown names are refused; Forwarded and any X-Forwarded-* kind are mutually
#     exclusive; an accepted set is handed to the middleware lower-cased).

_TITLE = {
    "x-forwarded-for": "X-Forwarded-For", "x-forwarded-host": "X-Forwarded-Host",
    "x-forwarded-proto": "X-Forwarded-Proto", "x-forwarded-port": "X-Forwarded-Port",
    "x-forwarded-by": "X-Forwarded-By", "forwarded": "Forwarded",
}


def _spell(rng, name, scheme):
    if scheme == "lower":
        return name
    if scheme == "title":
        return _TITLE.get(name, name.title())
    if scheme == "upper":
        return name.upper()
    if scheme == "first":      # only the first letter of the name
        return name[:1].upper() + name[1:]
    return "".join(ch.upper() if rng.random() < 0.5 else ch for ch in name)


def tph_rule(names):
    """the documented rule -> ('refused', why) | ('accepted', frozenset of lower-cased names)"""
    low = {n.lower() for n in names}
    if not low:
        return ("accepted", frozenset(["x-forwarded-proto"]))     # implicit, with a DeprecationWarning
    if not low <= set(KIND_KEY):
        return ("refused", "unknown")
    if "forwarded" in low and len(low) > 1:
        return ("refused", "exclusive")
    return ("accepted", frozenset(low))


def real_adjustments_tph(value, **extra):
    """-> ('refused', message) | ('accepted', frozenset(adj.trusted_proxy_headers))"""
    from waitress.adjustments import Adjustments

    kw = {"trusted_proxy": "*", "trusted_proxy_headers": value, "host": "127.0.0.1", "port": 0}
    kw.update(extra)
    with warnings.catch_warnings():
        warnings.simplefilter("ignore")
        try:
            adj = Adjustments(**kw)
        except ValueError as ex:
            return ("refused", str(ex))
    return ("accepted", frozenset(adj.trusted_proxy_headers))


def tph_config_cases(rng, tier):
    """[(names as spelled, input form, value handed to Adjustments)]"""
    import itertools
    kinds = list(KIND_KEY)
    out = []
    schemes = ["lower", "title", "upper", "first", "mixed"]
    for r in range(0, 7):
        for sub in itertools.combinations(kinds, r):
            for scheme in schemes:
                reps = 1 if scheme != "mixed" else (2 if tier == "quick" else 8)
                for _ in range(reps):
                    if scheme == "mixed":
                        # each name independently in its own spelling: 'Forwarded' + 'x-forwarded-for'
                        names = [_spell(rng, n, rng.choice(schemes)) for n in sub]
                    else:
                        names = [_spell(rng, n, scheme) for n in sub]
                    out.append((names, "set", set(names)))
                    out.append((names, "str", " ".join(names)))
                    if scheme in ("title", "mixed"):
                        out.append((names, "list", list(names)))
                        out.append((names, "str-ws", "  ".join(reversed(names)) + " "))
    for bad in (["bogus"], ["forwarded", "Bogus"], ["x-forwarded"], ["X-Forwarded-For", "forwarded-for"], ["Forwarded", ""][:1] + ["x_forwarded_for"]):
        out.append((bad, "set", set(bad)))
        out.append((bad, "str", " ".join(bad)))
    return out


def tph_config_eval(names, form, value):
    """-> (ok, expected, observed)"""
    exp = tph_rule(names)
    got = real_adjustments_tph(value)
    if exp[0] == "refused":
        return got[0] == "refused", exp, got
    return got == exp, exp, got


def tph_config_request_eval(names, value):
    """For an ACCEPTED configuration: build the real server application and send one request of the
    trusted peer carrying all six kinds: exactly the configured kinds survive (clearing is on), and the
    server's middleware is configured with the lower-cased set.  -> list of failures"""
    exp = tph_rule(names)
    if exp[0] != "accepted":
        return []
    try:
        srv = RealServerApp(trusted_proxy=PEER, trusted_proxy_headers=value)
    except ValueError as ex:
        return ["configuration %r refused by create_server: %s" % (names, ex)]
    try:
        fails = []
        if srv.cfg.tph != exp[1]:
            fails.append("server configured with trusted_proxy_headers=%r, expected %r" % (sorted(srv.cfg.tph or []), sorted(exp[1])))
        env = {"REMOTE_ADDR": PEER, "REMOTE_HOST": PEER, "REMOTE_PORT": "1", "SERVER_NAME": "s", "SERVER_PORT": "8080",
               "wsgi.url_scheme": "http", "HTTP_X_FORWARDED_FOR": "203.0.113.9", "HTTP_X_FORWARDED_HOST": "xfh.example",
               "HTTP_X_FORWARDED_PROTO": "https", "HTTP_X_FORWARDED_PORT": "8443", "HTTP_X_FORWARDED_BY": "_p",
               "HTTP_FORWARDED": "for=198.51.100.7;host=fwd.example;proto=http"}
        r = srv.run(env)
        if r[0] != "ok":
            return fails + ["request with well-formed headers not handed on: %s" % short(r)]
        out = r[1]
        for kind, key in KIND_KEY.items():
            if kind in exp[1] and key not in out:
                fails.append("%s is listed in trusted_proxy_headers but was stripped" % key)
            if kind not in exp[1] and key in out:
                fails.append("%s is not trusted but reached the application" % key)
        want_addr = "198.51.100.7" if "forwarded" in exp[1] else ("203.0.113.9" if "x-forwarded-for" in exp[1] else PEER)
        if out.get("REMOTE_ADDR") != want_addr:
            fails.append("REMOTE_ADDR %r, expected %r" % (out.get("REMOTE_ADDR"), want_addr))
        return fails
    finally:
        srv.close()


# =============================================================================
# C15 end to end, from request BYTES (appended).
#
# real:  HTTPRequestParser(server.adj).received(...)  ->  WSGITask(channel, parser).execute()
#        which builds the environ (get_environment) and calls channel.server.application, i.e.
#        the application as BaseWSGIServer.__init__ wrapped it (proxy_headers_middleware or not)
# model: ocaml/c15e2e/runner (Extract/ExtC15e2e.v): Parser.received -> get_environment ->
#        str_view -> serve, the composition the theorems C15_e2e_* of Props/C15.v are about.
# =============================================================================

E2E_MH, E2E_MB = 262144, 1073741824
E2E_NAMES = ["x-forwarded-for", "x-forwarded-host", "x-forwarded-proto", "x-forwarded-port", "x-forwarded-by", "forwarded"]
E2E_NEAR = ["X-Forwarded-Fo", "X-Forwarded-For2", "Forwarded-For", "X-Forwarded", "XForwardedFor", "X-Forwarded-Server",
            "X-Real-Ip", "Forwarded-", "-Forwarded", "X--Forwarded-For", "Remote-Addr", "Server-Name", "Server-Port",
            "Remote-Host", "Wsgi.Url-Scheme", "Url-Scheme", "Http-Host", "Http-X-Forwarded-For"]
E2E_PEERS = [("10.9.8.7", 4711), ("10.9.8.7", 0), ("::1", 80, 0, 0), ("localhost", None), ("172.16.0.9", 5), ("203.0.113.9", 65535),
             ("10.9.8.70", 1), ("172.16.0.90", 443)]     # the last two: addresses that only BEGIN like the trusted proxies of checks/C15.py
_FIELD_OK = re.compile(rb"[\t \x21-\x7e\x80-\xff]*\Z")


class _E2EChannel:
    """what WSGITask reads of a channel; write_soon collects the response bytes"""
    closed_when_done = False
    creation_time = 0

    def __init__(self, server, addr):
        self.server = server
        self.adj = server.adj
        self.addr = addr
        self.out = []

    def write_soon(self, data):
        if isinstance(data, (bytes, bytearray)):
            self.out.append(bytes(data))
            return len(data)
        return 0

    def check_client_disconnected(self):
        return False


class E2EServer:
    """the real server object (create_server with a dummy socket): server.application is whatever
    BaseWSGIServer.__init__ installed around RealServerApp's recording application (which keeps a
    shallow copy of the environ it is called with)"""

    def __init__(self, **kw):
        self.kw = dict(kw)
        self.srv = RealServerApp(**kw)
        self.server = self.srv.server
        self.cfg = self.srv.cfg
        self.seen = self.srv.seen

    def ctx_words(self, addr):
        from lib.vcommon import hexb
        adj = self.server.adj
        port = self.server.effective_port
        pw = ("i%d" % port) if isinstance(port, int) else ("s" + hexb(str(port).encode("latin-1")))
        peerw = "u" if addr[1] is None else "t%s:%d" % (hexb(addr[0].encode("latin-1")), addr[1])
        return [hexb(adj.url_scheme.encode("latin-1")), hexb(adj.url_prefix.encode("latin-1")),
                hexb(self.server.server_name.encode("latin-1")), pw, hexb(adj.ident.encode("latin-1")), peerw]

    def close(self):
        self.srv.close()


def e2e_model_cmd(es, addr, chunks):
    from lib.vcommon import hexb
    return "e2e %d %d %s %s %s" % (E2E_MH, E2E_MB, " ".join(es.ctx_words(addr)), cfg_words(es.cfg),
                                   " ".join(hexb(c) for c in chunks))


def _e2e_unval(w):
    if w.startswith("u"):
        return "".join(chr(int(x)) for x in w[1:].split(",") if x)
    return unhx(w)


def e2e_parse_model(line):
    """-> ('ok', served dict, pre dict) | ('mal', hdr) | ('exn', name) | (status,)"""
    w = line.split(" ")
    if w[0] == "ok":
        i = w.index("|")
        a, b = w[1:i], w[i + 2:]
        return ("ok", {_e2e_unval(a[j]): _e2e_unval(a[j + 1]) for j in range(0, len(a), 2)},
                {_e2e_unval(b[j]): _e2e_unval(b[j + 1]) for j in range(0, len(b), 2)})
    if w[0] == "mal":
        return ("mal", unhx(w[1]))
    if w[0] == "exn":
        return ("exn", w[1])
    return (line,)


def real_e2e(es, addr, chunks):
    """-> ('ok', served str entries, task's str entries before the call, problems) | ('mal', hdr) | ('exn', name) | (status,)"""
    from harness import environ as EV
    from waitress.task import WSGITask

    p, status = EV.real_parse(es.server.adj, chunks)
    if status != "ok":
        return (status,)
    ch = _E2EChannel(es.server, addr)
    task = WSGITask(ch, p)
    try:
        full = task.get_environment()
        pre = {k: v for k, v in full.items() if isinstance(v, str)}
        nonstr = {k: v for k, v in full.items() if not isinstance(v, str)}
        es.seen.pop("env", None)
        try:
            task.execute()
        except Exception as ex:
            return ("exn", type(ex).__name__)
        got = es.seen.pop("env", None)
        if got is None:
            body = b"".join(ch.out)
            m = re.search(rb'Header "(.*)" malformed\.', body, re.S)
            if body.startswith(b"HTTP/1.") and b" 400 " in body.split(b"\r\n", 1)[0] and m:
                return ("mal", m.group(1).decode("utf-8"))
            return ("other:" + body[:60].decode("latin-1"),)
        problems = []
        for k, v in nonstr.items():
            if k not in got or got[k] is not v:
                problems.append("non-str entry %s was replaced or removed on the way to the application" % k)
        for k, v in got.items():
            if not isinstance(v, str) and k not in nonstr:
                problems.append("non-str entry %s appeared on the way to the application" % k)
        return ("ok", {k: v for k, v in got.items() if isinstance(v, str)}, pre, problems)
    finally:
        p.close()


# ---- an independent reading of the header lines (Python, from the generated logical lines) ----

def e2e_expected_key(lines, lname):
    """value the environ key of header `lname` ("x-forwarded-for", "host") must have, from the logical
    header lines [(name bytes, value bytes)]: names compared ASCII case-insensitively, no "_" in the name,
    values stripped of SP/HTAB, obs-fold CRLF removed, joined by ", " -> str | None"""
    vals = []
    for n, v in lines:
        if b"_" in n:
            continue
        if n.decode("latin-1").lower() == lname:      # header names are ASCII tokens
            vals.append(v.replace(b"\r\n", b"").strip(b" \t").decode("latin-1"))
    return ", ".join(vals) if vals else None


def e2e_is_proxy_name(n):
    return b"_" not in n and n.decode("latin-1").lower() in E2E_NAMES


# ---- generators ------------------------------------------------------------------------------

def _e2e_value(rng, kind, p_degen):
    env = {}
    gen_headers(rng, env, p_degen, which=frozenset([kind]))
    v = env.get(KIND_KEY[kind])
    if v is None:
        v = rng.choice(["6.6.6.6", "evil.example:1", "https", "1", "for=6.6.6.6;host=evil.example;proto=https", "", '"', ":80"])
    return v


def _e2e_spelling(rng, name):
    """-> (bytes name, 'dash' | 'underscore')"""
    r = rng.random()
    if r < 0.55:
        s = _spell(rng, name, rng.choice(["lower", "title", "upper", "first", "random"]))
        return s.encode("latin-1"), "dash"
    s = _spell(rng, name, rng.choice(["lower", "title", "upper", "random"]))
    if "-" not in s:                       # "forwarded": no dash to replace; an underscore elsewhere
        s = rng.choice(["_" + s, s + "_", s[:3] + "_" + s[3:]])
    elif rng.random() < 0.6:
        s = s.replace("-", "_")
    else:
        i = rng.choice([j for j, c in enumerate(s) if c == "-"])
        s = s[:i] + "_" + s[i + 1:]
    return s.encode("latin-1"), "underscore"


def gen_e2e_case(rng):
    """-> dict(with_=raw bytes, without=raw bytes (proxy lines deleted), without_all=raw bytes (proxy and
    underscore lines deleted), lines=[(name, value)] logical lines of with_, body_kind, ...)"""
    method = rng.choice([b"GET", b"GET", b"POST", b"PUT", b"HEAD"])
    target = rng.choice([b"/", b"/p?q=1", b"/p/q/r", b"//x//y", b"/a%20b?x=%41", b"http://front.example:81/abs?z", b"*", b"/p"])
    version = rng.choice([b"HTTP/1.1", b"HTTP/1.1", b"HTTP/1.1", b"HTTP/1.0"])
    base = []
    r = rng.random()
    if r < 0.8:
        base.append((rng.choice([b"Host", b"host", b"HOST", b"hOsT"]),
                     rng.choice([b"front.example", b"front.example:8080", b"  front.example\t", b"", b"[::1]:80", b"evil, other"])))
    for _ in range(rng.choice([0, 1, 1, 2, 3])):
        nm = rng.choice([b"User-Agent", b"Accept", b"X-Foo", b"x-foo", b"X_Foo", b"Cookie", b"Connection", b"X-Foo-Bar"] +
                        [n.encode() for n in E2E_NEAR])
        if nm == b"Connection":
            val = rng.choice([b"close", b"keep-alive"])
        else:
            val = rng.choice([b"a", b"a b", b"\xe9t\xe9", b"", b"1.2.3.4", b"https", b"x\r\n y", b" padded\t"])
        base.append((nm, val))
    body_kind = rng.choice(["none", "none", "none", "cl", "chunked"]) if method in (b"POST", b"PUT") else "none"
    body = b""
    if body_kind == "cl":
        data = bytes(rng.randrange(256) for _ in range(rng.choice([1, 5, 40])))
        base.append((rng.choice([b"Content-Length", b"content-length"]), str(len(data)).encode()))
        body = data
    elif body_kind == "chunked" and version == b"HTTP/1.1":
        data = bytes(rng.randrange(256) for _ in range(rng.choice([1, 7, 33])))
        base.append((b"Transfer-Encoding", b"chunked"))
        body = ("%x" % len(data)).encode() + b"\r\n" + data + b"\r\n0\r\n\r\n"
    else:
        body_kind = "none"
    # the hostile lines
    hostile = []
    p_degen = rng.choice([0.0, 0.05, 0.3, 0.6])
    for name in E2E_NAMES:
        n = rng.choice([0, 0, 1, 1, 1, 2, 3])
        for _ in range(n):
            nm, sp = _e2e_spelling(rng, name)
            v = _e2e_value(rng, name, p_degen)
            if rng.random() < 0.15:
                v = rng.choice(["", " ", "\t", "  \t "])                 # empty / blank values
            vb = v.encode("latin-1", "replace")
            if not _FIELD_OK.match(vb):
                vb = bytes(c for c in vb if c == 9 or c >= 32 and c != 127)
            if rng.random() < 0.1 and vb:
                i = rng.randrange(len(vb) + 1)
                vb = vb[:i] + b"\r\n" + rng.choice([b" ", b"\t", b"  "]) + vb[i:]      # obs-fold inside the value
            hostile.append((nm, vb))
    lines = list(base)
    for h in hostile:
        lines.insert(rng.randint(0, len(lines)), h)
    # the very first header line must not be a continuation; a value beginning with CRLF SP is fine after "Name:"
    def render(ls):
        head = method + b" " + target + b" " + version + b"\r\n"
        for n, v in ls:
            head += n + b":" + rng_pad + v + b"\r\n"
        return head + b"\r\n" + body
    rng_pad = rng.choice([b" ", b" ", b"", b"\t", b"  "])
    wo = [(n, v) for n, v in lines if not e2e_is_proxy_name(n)]
    wo_all = [(n, v) for n, v in wo if b"_" not in n]
    return {"with": render(lines), "without": render(wo), "without_all": render(wo_all), "lines": lines,
            "pad": rng_pad, "body_kind": body_kind, "version": version.decode(),
            "n_dash": sum(1 for n, _ in lines if e2e_is_proxy_name(n)),
            "n_underscore": sum(1 for n, _ in hostile if b"_" in n)}


def e2e_directed():
    """hand-written requests: every spelling class once, empty values, duplicates"""
    out = []
    H = b"GET / HTTP/1.1\r\nHost: front.example\r\n"
    for hl in (b"X-Forwarded-For: 6.6.6.6", b"X_Forwarded_For: 6.6.6.6", b"x_forwarded_for: 6.6.6.6", b"X-Forwarded_For: 6.6.6.6",
               b"X-FORWARDED-FOR:6.6.6.6", b"X-Forwarded-For:", b"X-Forwarded-For: \t ", b"Forwarded: for=6.6.6.6;proto=https;host=evil",
               b"Forwarded:", b"_Forwarded: for=1.1.1.1", b"X-Forwarded-Host: evil.example:444", b"X-Forwarded-Host:",
               b"X-Forwarded-Proto: https", b"X-Forwarded-Proto:", b"X-Forwarded-Port: 444", b"X-Forwarded-Port:",
               b"X-Forwarded-By: 1.1.1.1", b"X-Forwarded-By:", b"X-Forwarded-For: 1\r\nX-Forwarded-For: 2\r\nx-forwarded-for:",
               b"X-Forwarded-For: 1\r\n\t2", b"X-Forwarded-For: \xe9\xff", b"X_Forwarded_Proto: https\r\nX-Forwarded-Proto: ftp",
               b"Remote-Addr: 6.6.6.6\r\nServer-Name: evil\r\nServer-Port: 1\r\nRemote-Host: evil\r\nRemote-Port: 1"):
        out.append((H + hl + b"\r\n\r\n", H + b"\r\n"))
    return out


# ---- evaluation of one generated pair on the REAL code (shared by run and replay) ------------

def e2e_is_untrusted(es, addr):
    return es.cfg.tp != "*" and es.cfg.tp != addr[0]


def e2e_ctx_expected(es, addr):
    adj = es.server.adj
    return {"REMOTE_ADDR": addr[0], "REMOTE_HOST": addr[0], "REMOTE_PORT": str(addr[1]),
            "SERVER_NAME": es.server.server_name, "SERVER_PORT": str(es.server.effective_port),
            "wsgi.url_scheme": adj.url_scheme}


def e2e_eval_real(es, addr, chunks3, lines, reals=None):
    """chunks3: {'with': [bytes..], 'without': [...], 'without_all': [...]}; lines: logical lines of 'with'.
    -> (fails, reals)  fails: list of str (empty = the end-to-end statement holds on this pair)"""
    if reals is None:
        reals = {w: real_e2e(es, addr, chunks3[w]) for w in ("with", "without", "without_all")}
    fails = []
    st = {w: reals[w][0] for w in reals}
    if st["with"] != "ok" or st["without"] != "ok" or st["without_all"] != "ok":
        if not e2e_is_untrusted(es, addr):
            return fails, reals             # a trusted peer's headers may be refused (C16)
        if len(set(st.values())) > 1 or st["with"] in ("exn", "mal") or st["with"].startswith("other"):
            fails.append("request of an untrusted peer not handed to the application alike: with=%s without=%s without(all)=%s"
                         % (st["with"], st["without"], st["without_all"]))
        return fails, reals
    exp_proxy = {KIND_KEY[n]: e2e_expected_key(lines, n) for n in E2E_NAMES}
    exp_host = e2e_expected_key(lines, "host")
    # (1) the task's environ, whoever the peer is
    pre = reals["with"][2]
    for k, want in exp_proxy.items():
        if pre.get(k) != want:
            fails.append("task environ: %s is %r, the '-'-spelled header lines say %r (underscore spellings must not count)" % (k, pre.get(k), want))
    for w in ("without", "without_all"):
        for k in PROXY_KEYS:
            if k in reals[w][2]:
                fails.append("task environ of the request without proxy header lines has %s=%r" % (k, reals[w][2][k]))
    ctxv = e2e_ctx_expected(es, addr)
    for w in ("with", "without", "without_all"):
        p = reals[w][2]
        for k, want in ctxv.items():
            if p.get(k) != want:
                fails.append("task environ (%s): %s is %r, the connection/server context says %r" % (w, k, p.get(k), want))
        if p.get("HTTP_HOST") != exp_host:
            fails.append("task environ (%s): HTTP_HOST is %r, the Host line says %r" % (w, p.get("HTTP_HOST"), exp_host))
        for pr in reals[w][3]:
            fails.append("%s (%s)" % (pr, w))
    if not e2e_is_untrusted(es, addr):
        return fails, reals
    # (2) what the application is called with
    a = reals["with"][1]
    for w in ("with", "without", "without_all"):
        o = reals[w][1]
        for k, want in ctxv.items():
            if o.get(k) != want:
                fails.append("application (%s): %s is %r, the connection/server context says %r" % (w, k, o.get(k), want))
        if o.get("HTTP_HOST") != exp_host:
            fails.append("application (%s): HTTP_HOST is %r, the Host line says %r" % (w, o.get("HTTP_HOST"), exp_host))
        if w != "with":
            for k in set(a) | set(o):
                if k not in PROXY_KEYS and a.get(k) != o.get(k):
                    fails.append("%s differs: %r with the proxy header lines, %r %s them" % (k, a.get(k), o.get(k), w.replace("_", " ")))
        if es.cfg.clear:
            for k in PROXY_KEYS:
                if k in o:
                    fails.append("%s=%r reached the application (%s) although clearing is on" % (k, o[k], w))
        else:
            for k in PROXY_KEYS:
                want = exp_proxy[k] if w == "with" else None
                if o.get(k) != want:
                    fails.append("application (%s): %s is %r, expected %r (clearing off: exactly what the '-'-spelled lines say)" % (w, k, o.get(k), want))
    return fails, reals


def e2e_real_canon(r):
    if r[0] == "ok":
        return ("ok", r[1], r[2])
    return tuple(r[:2])


def e2e_logical_line(n, v, pad):
    """a generated header line as get_header_lines hands it on (fold CRLF removed)"""
    return (n + b":" + pad + v).replace(b"\r\n", b"")


def e2e_split(rng, raw):
    """a random segmentation into 1..3 pieces"""
    r = rng.random()
    if r < 0.5 or len(raw) < 4:
        return [raw]
    cuts = sorted(rng.sample(range(1, len(raw)), 1 if r < 0.8 else 2))
    out, last = [], 0
    for c in cuts:
        out.append(raw[last:c])
        last = c
    out.append(raw[last:])
    return out


# (2) S-fspec: the extracted functional specification (Spec/ProxySpec.v: refusal_reason, category_header,
#     spec_out, wf_headers; runner ocaml/proxyfs, no model code in it) against the REAL middleware,
#     on every key of the environ / the header named in the 400.

def fspec_eligible(env, cfg):
    return is_trusted_path(env, cfg) and cfg.count >= 1 and "wsgi.url_scheme" in env


def fspec_keys(env):
    return sorted(set(env) | set(META_KEYS) | set(PROXY_KEYS))


def fspec_batch(runner, cases):
    """-> list of ('mal', category, header, wf) | ('ok', wf, {key: value or None})"""
    lines = []
    keysl = []
    for env, cfg in cases:
        keys = fspec_keys(env)
        keysl.append(keys)
        tph = "N" if cfg.tph is None else "S:" + ",".join(hx(x) for x in sorted(cfg.tph))
        lines.append("fs %d %s %d %d %s %s" % (cfg.count, tph, 1 if cfg.clear else 0, len(keys),
                                               " ".join(hx(k) for k in keys), env_words(env)))
    out = []
    for keys, line in zip(keysl, runner.query(lines)):
        w = line.split(" ")
        if w[0] == "mal":
            out.append(("mal", w[1], unhx(w[2]), w[3] == "1"))
        elif w[0] == "ok":
            vals = {}
            for k, v in zip(keys, w[2:]):
                vals[k] = None if v == "N" else unhx(v[2:])
            out.append(("ok", w[1] == "1", vals))
        else:
            out.append(("specerr", line))
    return out


def fspec_compare(real, ans):
    """-> None when the real outcome is what the specification says, else a description"""
    if ans[0] == "mal":
        if real[0] == "mal" and real[1] == ans[2]:
            return None
        return "specification: 400 naming %r (category %s); implementation: %s" % (ans[2], ans[1], short(real))
    if ans[0] != "ok":
        return "specification runner error: %r" % (ans,)
    if real[0] != "ok":
        return "specification: accepted; implementation: %s" % short(real)
    want = ans[2]
    out = real[1]
    for k in sorted(set(want) | set(out)):
        if out.get(k) != want.get(k):
            return "%s: specification %r, implementation %r" % (k, want.get(k), out.get(k))
    return None


def fspec_expected_json(ans):
    if ans[0] == "mal":
        return {"outcome": "400", "header": ans[2], "category": ans[1]}
    if ans[0] == "ok":
        return {"outcome": "ok", "environ_hex": {k: (None if v is None else hx(v)) for k, v in ans[2].items()}}
    return {"outcome": "specerr"}


def fspec_replay(data):
    env = env_from_json(data["environ_hex"])
    cfg = cfg_from_json(data["config"])
    exp = data["expected_spec"]
    real = real_middleware(env, cfg)
    if exp["outcome"] == "400":
        ans = ("mal", exp.get("category"), exp["header"], False)
    else:
        ans = ("ok", False, {k: (None if v is None else unhx(v)) for k, v in exp["environ_hex"].items()})
    d = fspec_compare(real, ans)
    print("config=%s headers=%r\n %s" % (data["config"], data.get("proxy_headers"), d or "agrees with the specification now"))
    return 1 if d else 0


# (3) generators forced by the hypotheses of the proofs (C16 extension): per-element omitted parameters,
#     mixed-case parameter names, quoted values with escapes, bracketed IPv6 with ports, obfuscated
#     identifiers, empty list members, OWS variants, very long lists, counts 1..5 x lengths below/at/above.

OWS2 = ["", "", " ", "\t", "  ", " \t ", "\t\t"]
NODE2 = ["192.0.2.%d", '"192.0.2.%d:4711"', '"[2001:db8::%d]"', '"[2001:db8::%d]:8443"', "_obf%d", '"_obf%d:_p9"',
         "unknown", '"unknown:99"', '"a\\\\b%d"', '"q\\"%d"', '"\\1\\9\\2.0.2.%d"', "[2001:db8::%d]", '"[::%d]:1"',
         '"10.1.%d.1: 8"', '" 10.1.%d.1"', "CLIENT%d.Example"]
HOST2 = ["h%d.example", '"h%d.example:8443"', '"H%d.Example:80"', '"[2001:db8::%d]:443"', '"[2001:db8::%d]"', '"h%d:443"',
         '"h\\%d.example"', "h%d.example:80", "h%d.example:", '"h%d.example :81"']
PROTO2 = ["http", "https", "HTTP", "hTTps", '"https"', '"HT\\TP"', '"http"']
NAME_CASE = [str.lower, str.upper, str.capitalize, lambda s: s[:-1] + s[-1:].upper()]


def gen_fwd_element_x(rng, i, mask=None):
    """one forwarded-element with element-specific values; mask: which of for/host/proto/by are present"""
    if mask is None:
        mask = rng.randrange(16)
    pairs = []
    if mask & 1:
        pairs.append(("for", rng.choice(NODE2)))
    if mask & 2:
        pairs.append(("host", rng.choice(HOST2)))
    if mask & 4:
        pairs.append(("proto", rng.choice(PROTO2)))
    if mask & 8:
        pairs.append(("by", rng.choice(NODE2)))
    rng.shuffle(pairs)
    out = []
    for name, v in pairs:
        if "%d" in v:
            v = v % ((i * 7 + rng.randint(1, 6)) % 250 + 1)
        out.append(rng.choice(NAME_CASE)(name) + "=" + v)
    r = rng.random()
    if r < 0.10:
        out.insert(rng.randint(0, len(out)), rng.choice(["ext=1", 'Secret="x;y"', "", "a.b=c", 'x="\\""']))
    elif r < 0.14 and out:       # the same parameter twice: the last one wins, also when it is empty
        out.append(rng.choice(["for=", 'host=""', "proto=", "for=_again", 'Host="again.example:1"']))
    return ";".join(out)


def gen_forwarded_x(rng, n):
    els = []
    for i in range(n):
        r = rng.random()
        if r < 0.05:
            els.append("")                   # empty list member
        elif r < 0.08:
            els.append(rng.choice(OWS2))
        else:
            els.append(rng.choice(OWS2) + gen_fwd_element_x(rng, i) + rng.choice(OWS2))
    return ",".join(els)


def gen_xlist_x(rng, n, vals):
    els = []
    for i in range(n):
        r = rng.random()
        if r < 0.05:
            els.append(rng.choice(["", " ", "\t"]))
        else:
            v = rng.choice(vals)
            if "%d" in v:
                v = v % ((i * 7 + rng.randint(1, 6)) % 250 + 1)
            els.append(rng.choice(OWS2) + v + rng.choice(OWS2))
    return ",".join(els)


def _benv(rng=None):
    e = {"REMOTE_ADDR": PEER, "REMOTE_HOST": PEER, "REMOTE_PORT": "5555", "SERVER_NAME": "backend.internal",
         "SERVER_PORT": "8080", "HTTP_HOST": "backend.internal:8080", "wsgi.url_scheme": "http", "PATH_INFO": "/"}
    if rng is not None:
        e["wsgi.url_scheme"] = rng.choice(["http", "https"])
        if rng.random() < 0.3:
            del e["HTTP_HOST"]
    return e


def ext_cases(rng, tier):
    """structured cases of the extension -> list of (env, cfg)"""
    quick = tier == "quick"
    out = []
    fw = frozenset(["forwarded"])
    # (a) every presence mask of (for, host, proto) in a 2-element Forwarded value x counts 1..3, distinct values per element
    for m0 in range(8):
        for m1 in range(8):
            for k in (1, 2, 3):
                els = []
                for i, m in enumerate((m0, m1)):
                    ps = []
                    if m & 1:
                        ps.append("for=192.0.2.%d" % (i + 1))
                    if m & 2:
                        ps.append('host="el%d.example:%d"' % (i, 7000 + i))
                    if m & 4:
                        ps.append("proto=" + ("https" if i == 0 else "http"))
                    els.append(";".join(ps))
                e = _benv()
                e["HTTP_FORWARDED"] = ", ".join(els)
                out.append((e, Cfg(PEER, k, fw, True)))
    # (b) three elements, random masks, counts 1..5 (below / at / above the length)
    for _ in range(250 if quick else 4000):
        n = rng.choice([1, 2, 3, 3, 4, 5, 6])
        e = _benv(rng)
        e["HTTP_FORWARDED"] = ",".join(rng.choice(["", " "]) + gen_fwd_element_x(rng, i, rng.randrange(16)) for i in range(n))
        out.append((e, Cfg(PEER, rng.randint(1, 5), fw, rng.random() < 0.7)))
    # (c) grammar-driven Forwarded values with empty members / OWS / escapes / IPv6 / obfuscated identifiers
    for _ in range(700 if quick else 15000):
        e = _benv(rng)
        e["HTTP_FORWARDED"] = gen_forwarded_x(rng, rng.choice([1, 2, 3, 4, 5, 6, 7]))
        if rng.random() < 0.3:
            e["HTTP_X_FORWARDED_FOR"] = gen_xlist_x(rng, rng.randint(1, 3), NODE2)
        out.append((e, Cfg(rng.choice([PEER, "*"]), rng.randint(1, 5), fw, rng.random() < 0.7)))
    # (d) the X-Forwarded-* family from the same vocabulary, every subset of the five kinds
    for _ in range(700 if quick else 15000):
        tph = frozenset(k for k in XF_KINDS if rng.random() < 0.6)
        e = _benv(rng)
        if rng.random() < 0.9:
            e["HTTP_X_FORWARDED_FOR"] = gen_xlist_x(rng, rng.choice([1, 1, 2, 3, 4, 5, 6]), NODE2)
        if rng.random() < 0.9:
            e["HTTP_X_FORWARDED_HOST"] = gen_xlist_x(rng, rng.choice([1, 1, 2, 3, 4, 5, 6]), HOST2)
        if rng.random() < 0.8:
            e["HTTP_X_FORWARDED_PROTO"] = rng.choice(PROTO2 + ["", "ftp", "http,https", '"']) if rng.random() < 0.9 else fuzz(rng)
        if rng.random() < 0.8:
            e["HTTP_X_FORWARDED_PORT"] = rng.choice(["80", "443", "8080", '"8443"', '"4\\43"', "", "80,443", "0443", " 80"])
        if rng.random() < 0.3:
            e["HTTP_X_FORWARDED_BY"] = rng.choice(BY_VALS)
        if rng.random() < 0.3:
            e["HTTP_FORWARDED"] = gen_forwarded_x(rng, 2)
        out.append((e, Cfg(PEER, rng.randint(1, 5), tph, rng.random() < 0.7)))
    # (e) very long lists (the indexing law far from the small box), every count 1..5
    for n in ([40, 257] if quick else [40, 257, 1000, 3000]):
        for k in (1, 2, 3, 4, 5):
            e = _benv()
            e["HTTP_X_FORWARDED_FOR"] = ", ".join("10.%d.%d.%d" % (i >> 16 & 255, i >> 8 & 255, i & 255) for i in range(n))
            e["HTTP_X_FORWARDED_HOST"] = ",".join("n%d.example:%d" % (i, 1000 + i % 50000) for i in range(n))
            out.append((e, Cfg(PEER, k, frozenset(["x-forwarded-for", "x-forwarded-host"]), True)))
            e = _benv()
            e["HTTP_FORWARDED"] = ",".join(
                (("for=10.%d.%d.%d" % (i >> 16 & 255, i >> 8 & 255, i & 255)) if i % 3 else "by=_b%d" % i)
                + (";host=n%d.example" % i if i % 2 else "") + (";proto=https" if i % 5 == 0 else "") for i in range(n))
            out.append((e, Cfg(PEER, k, fw, True)))
    # (f) HTTP_HOST formatting: host without port x (scheme before, forwarded proto, forwarded port)
    for sch in ("http", "https"):
        for pr in (None, "http", "https", "HTTPS"):
            for po in (None, "", "80", "443", "8080", "080", '"443"'):
                for h in ("h.example", "h.example:80", "h.example:443", "h.example:", "[::1]", "[::1]:443"):
                    e = _benv()
                    e["wsgi.url_scheme"] = sch
                    tph = {"x-forwarded-host"}
                    e["HTTP_X_FORWARDED_HOST"] = h
                    if pr is not None:
                        e["HTTP_X_FORWARDED_PROTO"] = pr
                        tph.add("x-forwarded-proto")
                    if po is not None:
                        e["HTTP_X_FORWARDED_PORT"] = po
                        tph.add("x-forwarded-port")
                    out.append((e, Cfg(PEER, 1, frozenset(tph), True)))
                    if pr is not None and po is None:
                        e2 = _benv()
                        e2["wsgi.url_scheme"] = sch
                        e2["HTTP_FORWARDED"] = 'for=1.2.3.4;host="%s";proto=%s' % (h, pr)
                        out.append((e2, Cfg(PEER, 1, fw, True)))
    return out


# (4) headers drawn from the grammar of well-formed values (Spec.wf_headers): all must be accepted

WF_NODE = ["192.0.2.%d", "192.0.2.%d:4711", "[2001:db8::%d]", "[2001:db8::%d]:8443", "_obf%d", "unknown", "c%d.example",
           "2001:db8::%d", "h-%d_x.example:80"]
WF_HOSTS = ["h%d.example", "h%d.example:8443", "[2001:db8::%d]:443", "H%d.Example", "h%d:80"]


def _wfv(rng, v, i):
    if "%d" in v:
        v = v % (i % 200 + 1)
    return '"%s"' % v if rng.random() < 0.4 else v


def gen_wf_case(rng):
    e = _benv(rng)
    if rng.random() < 0.45:
        n = rng.randint(1, 6)
        els = []
        for i in range(n):
            ps = []
            if rng.random() < 0.7:
                ps.append(rng.choice(["for", "For", "FOR"]) + "=" + _wfv(rng, rng.choice(WF_NODE), i))
            if rng.random() < 0.5:
                ps.append(rng.choice(["host", "Host"]) + "=" + _wfv(rng, rng.choice(WF_HOSTS), i))
            if rng.random() < 0.5:
                ps.append("proto=" + _wfv(rng, rng.choice(["http", "https", "HTTPS"]), i))
            if rng.random() < 0.3:
                ps.append("by=" + _wfv(rng, rng.choice(WF_NODE), i))
            if rng.random() < 0.15:
                ps.append(rng.choice(["ext=1", "a.b=c-d", ""]))
            rng.shuffle(ps)
            els.append(rng.choice(OWS2) + ";".join(ps) + rng.choice(OWS2))
        e["HTTP_FORWARDED"] = ",".join(els)
        return e, Cfg(PEER, rng.randint(1, 5), frozenset(["forwarded"]), rng.random() < 0.7)
    tph = frozenset(k for k in XF_KINDS if rng.random() < 0.7)
    if rng.random() < 0.9:
        e["HTTP_X_FORWARDED_FOR"] = ",".join(rng.choice(OWS2) + _wfv(rng, rng.choice(WF_NODE), i) + rng.choice(OWS2) for i in range(rng.randint(1, 6)))
    if rng.random() < 0.9:
        e["HTTP_X_FORWARDED_HOST"] = ",".join(rng.choice(OWS2) + _wfv(rng, rng.choice(WF_HOSTS), i) + rng.choice(OWS2) for i in range(rng.randint(1, 6)))
    if rng.random() < 0.8:
        e["HTTP_X_FORWARDED_PROTO"] = _wfv(rng, rng.choice(["http", "https", "HTTPS", "Http"]), 0)
    if rng.random() < 0.8:
        e["HTTP_X_FORWARDED_PORT"] = _wfv(rng, rng.choice(["80", "443", "8080", "0", "65535"]), 0)
    return e, Cfg(PEER, rng.randint(1, 5), tph, rng.random() < 0.7)



# (5) latin-1: the code points on which Python's text transformations (lower / casefold / upper / strip /
#     isdigit ...) leave their ASCII meaning, systematically in every field, quoted and unquoted, at the
#     start / in the middle / at the end, in the trusted hop and in a hop left of it.

def _place(v, b, pos):
    if pos == "start":
        return b + v
    if pos == "end":
        return v + b
    i = len(v) // 2
    return v[:i] + b + v[i:]


def latin1_cases(tier):
    """-> list of (env, cfg)"""
    out = []
    fw = frozenset(["forwarded"])
    specials = SPECIAL_BYTES if tier == "quick" else "".join(chr(i) for i in list(range(1, 32)) + list(range(127, 256)) if chr(i) not in ",;")
    for b in specials:
        for pos in ("start", "mid", "end"):
            for q in (False, True):
                def val(v):
                    v = _place(v, b, pos)
                    return '"%s"' % v if q else v
                fwd = [
                    "for=%s;host=h.example;proto=https" % val("Client.Example"),
                    "for=192.0.2.7;host=%s;proto=https" % val("Shop.Example"),
                    "for=192.0.2.7;host=%s" % val("Shop.Example:8443"),
                    "for=192.0.2.7;proto=%s" % val("https"),
                    "for=192.0.2.7;by=%s" % val("_Proxy"),
                    "for=192.0.2.7;ext=%s" % val("Value"),
                    "%s=192.0.2.7;host=h.example" % _place("FOR", b, pos),
                    "for=%s;host=%s, for=192.0.2.9" % (val("Left.Example"), val("Left.Host")),
                ]
                for i, v in enumerate(fwd):
                    e = _benv()
                    e["HTTP_FORWARDED"] = v
                    out.append((e, Cfg(PEER, 2 if i == 7 and pos == "mid" else 1, fw, True)))
                xs = [
                    ("x-forwarded-for", val("Client.Example")), ("x-forwarded-for", "10.0.0.1, " + val("192.0.2.7:80")),
                    ("x-forwarded-for", val("2001:DB8::7")),
                    ("x-forwarded-host", val("Shop.Example")), ("x-forwarded-host", val("Shop.Example:8443") + ", inner.example"),
                    ("x-forwarded-proto", val("https")), ("x-forwarded-port", val("8443")), ("x-forwarded-by", val("_Proxy")),
                ]
                for i, (kind, v) in enumerate(xs):
                    e = _benv()
                    e[KIND_KEY[kind]] = v
                    tph = {kind}
                    if kind in ("x-forwarded-proto", "x-forwarded-port"):
                        e["HTTP_X_FORWARDED_HOST"] = "h.example"
                        tph.add("x-forwarded-host")
                    out.append((e, Cfg(PEER, 2 if i == 4 else 1, frozenset(tph), pos != "end")))
    # every code point once, unquoted and quoted, in a for= identifier and in a host (the case mapping,
    # the quoted-string alphabet and the strip set over the whole range)
    for i in range(1, 256):
        c = chr(i)
        if c in ',;"\\':
            continue
        for v in ("for=_%sX;host=H%s.Example" % (c, c), 'for="_%sX";host="H%s.Example:81"' % (c, c), 'for="\\%s";proto=http' % c):
            e = _benv()
            e["HTTP_FORWARDED"] = v
            out.append((e, Cfg(PEER, 1, fw, True)))
        e = _benv()
        e["HTTP_X_FORWARDED_FOR"] = "%s10.0.0.1%s" % (c, c)
        e["HTTP_X_FORWARDED_HOST"] = "%sH.Example%s" % (c, c)
        out.append((e, Cfg(PEER, 1, frozenset(["x-forwarded-for", "x-forwarded-host"]), True)))
    return out


def latin1_prim_tables(model_runner, fs_runner):
    """K-lower: the case mapping, the strip set and the quoted-string reading used by the model and by the
    specification, on ALL 256 latin-1 code points, against CPython / waitress.utilities.undquote.
    -> (n, [(what, input, expected, got)])"""
    from waitress.utilities import undquote
    all256 = "".join(chr(i) for i in range(256))
    strs = [chr(i) for i in range(256)] + ["A" + chr(i) + "Z" for i in range(256)] + [chr(i) * 2 for i in range(256)]
    strs += [all256, all256[::-1], all256.upper() if all256.upper().isascii() else all256]
    strs = [s for s in strs if all(ord(ch) < 256 for ch in s)]
    q = []
    exp = []
    for s in strs:
        lo = s.lower()
        q.append(("fs", "lower " + hx(s)))
        exp.append(hx(lo))
        q.append(("fs", "strip " + hx(s)))
        exp.append(hx(s.strip()))
        q.append(("m", "strip " + hx(s)))
        exp.append(hx(s.strip()))
    for i in range(256):
        c = chr(i)
        for s in (c, '"' + c + '"', '"\\' + c + '"', '"a' + c, c + 'a"', " " + c + "a" + c + " "):
            try:
                w = undquote(s)
                e_fs, e_m = "ok " + hx(w), "ok " + hx(w)
            except ValueError:
                e_fs, e_m = "bad", "exn ValueError"
            q.append(("fs", "fieldvalue " + hx(s)))
            exp.append(e_fs)
            q.append(("m", "undq " + hx(s)))
            exp.append(e_m)
            q.append(("fs", "strip " + hx(s)))
            exp.append(hx(s.strip()))
    got_fs = iter(fs_runner.query([l for w, l in q if w == "fs"]))
    got_m = iter(model_runner.query([l for w, l in q if w == "m"]))
    bad = []
    for (w, l), e in zip(q, exp):
        g = next(got_fs) if w == "fs" else next(got_m)
        if g != e:
            bad.append(("specification" if w == "fs" else "model", l, e, g))
    # str.lower on latin-1 text stays latin-1 and keeps the length (what Lib.PyBytes.lower_latin1 assumes)
    for i in range(256):
        lo = chr(i).lower()
        if len(lo) != 1 or ord(lo) > 255:
            bad.append(("cpython", "lower %02x" % i, "one latin-1 code point", repr(lo)))
    return len(q), bad


# =============================================================================
# C15 x listeners (appended): the configuration the server CONSULTS vs. the configuration that was GIVEN,
# crossed with every listener kind.  The trust decision of C15 is "peer != trusted_proxy" where
# trusted_proxy is what the operator configured; here the server is built the way a deployment builds it
# (create_server(app, **kw) -> real Adjustments -> Tcp/Unix/MultiSocket server -> wrapper) and the peer
# address is the one the server class reports (handle_accept -> fix_addr -> channel addr).
# Expectations are computed from the GIVEN keyword arguments alone (given_proxy_cfg), never from adj.
# =============================================================================

LSN_XF4 = frozenset(["x-forwarded-for", "x-forwarded-host", "x-forwarded-proto", "x-forwarded-port"])
LSN_UNIX_PATH = "/verif/_work/c15-listener-never-created.sock"     # never bound: the listening socket is a fake

# the proxy-related keyword arguments a deployment may give
LSN_PROXY_KW = [
    {},
    {"clear_untrusted_proxy_headers": False},
    {"trusted_proxy": "", "clear_untrusted_proxy_headers": True},
    {"trusted_proxy": "10.0.0.5", "trusted_proxy_headers": set(LSN_XF4), "clear_untrusted_proxy_headers": True},
    {"trusted_proxy": "10.0.0.5", "trusted_proxy_headers": {"forwarded"}, "clear_untrusted_proxy_headers": False},
    {"trusted_proxy": "10.0.0.5"},                                          # implicit x-forwarded-proto
    {"trusted_proxy": "2001:db8::5", "trusted_proxy_headers": set(LSN_XF4), "trusted_proxy_count": 2,
     "clear_untrusted_proxy_headers": True},
    {"trusted_proxy": "localhost", "trusted_proxy_headers": set(LSN_XF4), "clear_untrusted_proxy_headers": True},
    {"trusted_proxy": "localhost", "trusted_proxy_headers": "Forwarded", "clear_untrusted_proxy_headers": "false"},
    {"trusted_proxy": "proxy.example", "trusted_proxy_headers": {"forwarded"}, "clear_untrusted_proxy_headers": True},
    {"trusted_proxy": "127.0.0.1", "trusted_proxy_headers": "X-Forwarded-For x-forwarded-proto", "clear_untrusted_proxy_headers": False},
    {"trusted_proxy": "198.51.100.7", "trusted_proxy_headers": set(LSN_XF4), "clear_untrusted_proxy_headers": True},
]
# refused by the proxy settings alone
LSN_PROXY_KW_BAD = [
    {"trusted_proxy_count": 2},
    {"trusted_proxy_headers": {"forwarded"}},
    {"trusted_proxy": "10.0.0.5", "trusted_proxy_count": 0},
    {"trusted_proxy": "10.0.0.5", "trusted_proxy_headers": {"forwarded", "x-forwarded-for"}},
    {"trusted_proxy": "10.0.0.5", "trusted_proxy_headers": {"x-real-ip"}},
]


def _asbool(v):
    if v is None:
        return False
    if isinstance(v, bool):
        return v
    return str(v).strip().lower() in ("t", "true", "y", "yes", "on", "1")


def given_proxy_cfg(kw):
    """The four proxy settings as documented (docs/arguments.rst), from the GIVEN keyword arguments alone.
    -> ('refused', why) | ('ok', Cfg)"""
    tp = kw.get("trusted_proxy")
    tp = str(tp) if tp else None
    cnt = kw.get("trusted_proxy_count")
    if cnt is not None:
        cnt = int(cnt)
        if tp is None:
            return ("refused", "trusted_proxy_count without trusted_proxy")
    else:
        cnt = 1
    if cnt < 1:
        return ("refused", "trusted_proxy_count < 1")
    h = kw.get("trusted_proxy_headers")
    if h is None:
        names = set()
    elif isinstance(h, str):
        names = set(h.split())
    else:
        names = set(h)
    names = {n.lower() for n in names}
    if names and tp is None:
        return ("refused", "trusted_proxy_headers without trusted_proxy")
    if names - set(KIND_KEY):
        return ("refused", "unknown proxy header")
    if "forwarded" in names and len(names) > 1:
        return ("refused", "Forwarded and X-Forwarded-* are exclusive")
    if not names and tp is not None:
        names = {"x-forwarded-proto"}
    clear = _asbool(kw["clear_untrusted_proxy_headers"]) if "clear_untrusted_proxy_headers" in kw else True
    return ("ok", Cfg(tp, cnt, frozenset(names), clear))


class _FakeListenSock(socket.socket):
    """a listening socket that is never opened (family / sockname given by the subclass)"""
    type = socket.SOCK_STREAM
    proto = 0
    _fds = [700000]

    def __init__(self, sockname=None):
        _FakeListenSock._fds[0] += 1
        self._fd = _FakeListenSock._fds[0]
        if sockname is not None:
            self._name = sockname

    def bind(self, addr):
        pass

    def setblocking(self, x):
        pass

    def fileno(self):
        return self._fd

    def getpeername(self):
        raise OSError(107, "not connected")

    def getsockname(self):
        return self._name

    def setsockopt(self, *arg):
        pass

    def getsockopt(self, *arg):
        return 1

    def listen(self, num):
        pass

    def close(self):
        pass


class _FakeInet(_FakeListenSock):
    family = socket.AF_INET
    _name = ("127.0.0.1", 8080)


class _FakeInet6(_FakeListenSock):
    family = socket.AF_INET6
    _name = ("::1", 8086, 0, 0)


class _FakeUnix(_FakeListenSock):
    family = socket.AF_UNIX
    _name = LSN_UNIX_PATH


class _FakeDgram(_FakeListenSock):
    family = socket.AF_INET
    type = socket.SOCK_DGRAM
    _name = ("127.0.0.1", 8080)


_SOCK_KINDS = {"inet": _FakeInet, "inet6": _FakeInet6, "unix": _FakeUnix, "dgram": _FakeDgram}

# listener-related keyword arguments: (tag, kw with sockets given as kind names, family of the shim socket or None)
LSN_LISTENERS = [
    ("default", {}, "inet"),
    ("host+port v4", {"host": "127.0.0.1", "port": 0}, "inet"),
    ("host+port v6", {"host": "::1", "port": "8086"}, "inet6"),
    ("host only", {"host": "127.0.0.1"}, "inet"),
    ("port only", {"port": 8089}, "inet"),
    ("listen v4", {"listen": "127.0.0.1:8080"}, "inet"),
    ("listen v6", {"listen": "[::1]:8086"}, "inet6"),
    ("listen v4+v6", {"listen": "127.0.0.1:8080 [::1]:8086"}, "inet"),
    ("listen *", {"listen": "*:8080", "ipv6": False}, "inet"),
    ("ipv4 only", {"host": "127.0.0.1", "port": 8080, "ipv4": True, "ipv6": False}, "inet"),
    ("ipv6 only", {"host": "::1", "port": 8086, "ipv4": "false", "ipv6": "true"}, "inet6"),
    ("unix_socket", {"unix_socket": LSN_UNIX_PATH}, "unix"),
    ("unix_socket+perms", {"unix_socket": LSN_UNIX_PATH, "unix_socket_perms": "660"}, "unix"),
    ("sockets inet", {"sockets": ["inet"]}, None),
    ("sockets inet6", {"sockets": ["inet6"]}, None),
    ("sockets unix", {"sockets": ["unix"]}, None),
    ("sockets inet+inet6", {"sockets": ["inet", "inet6"]}, None),
    ("sockets unix+unix", {"sockets": ["unix", "unix"]}, None),
]
# refused by the listener options alone
LSN_LISTENERS_BAD = [
    ("unix_socket+host", {"unix_socket": LSN_UNIX_PATH, "host": "127.0.0.1"}, None),
    ("unix_socket+listen", {"unix_socket": LSN_UNIX_PATH, "listen": "127.0.0.1:8080"}, None),
    ("sockets+listen", {"sockets": ["inet"], "listen": "127.0.0.1:8080"}, None),
    ("sockets+unix_socket", {"sockets": ["unix"], "unix_socket": LSN_UNIX_PATH}, None),
    ("sockets inet+unix", {"sockets": ["inet", "unix"]}, None),
    ("sockets dgram", {"sockets": ["dgram"]}, None),
    ("no family", {"ipv4": False, "ipv6": False}, None),
]

# what accept() returns for a connection, per address family of the listening socket
LSN_RAW_PEERS = {
    socket.AF_INET: [("10.0.0.5", 40000), ("198.51.100.7", 5555), ("127.0.0.1", 1), ("10.0.0.50", 2)],
    socket.AF_INET6: [("2001:db8::5", 40000, 0, 0), ("::1", 5, 0, 0), ("2001:db8::50", 6, 0, 0)],
    socket.AF_UNIX: ["", b""],
}


def lsn_real_kw(kw):
    """the keyword arguments with the socket kind names replaced by (new) fake sockets"""
    out = {}
    for k, v in kw.items():
        if k == "sockets":
            out[k] = [_SOCK_KINDS[x]() for x in v]
        elif isinstance(v, (set, frozenset)):
            out[k] = set(v)
        else:
            out[k] = v
    return out


def lsn_kw_json(kw):
    return {k: (sorted(v) if isinstance(v, (set, frozenset)) else v) for k, v in kw.items()}


def lsn_kw_from_json(d):
    return {k: (set(v) if k == "trusted_proxy_headers" and isinstance(v, list) else v) for k, v in d.items()}


def lsn_adjustments(kw):
    """real Adjustments(**kw) -> ('refused', msg) | ('ok', adj)"""
    from waitress.adjustments import Adjustments
    with warnings.catch_warnings():
        warnings.simplefilter("ignore")
        try:
            return ("ok", Adjustments(**lsn_real_kw(kw)))
        except ValueError as e:
            return ("refused", str(e))


def lsn_config_eval(proxy_kw, listener_kw, adj_result=None):
    """(a): the four proxy settings of the real configuration object are the given ones, whatever the
    listener options are; the combination is refused exactly when one of the two parts is.
    -> list of failure strings"""
    kw = dict(proxy_kw)
    kw.update(listener_kw)
    want = given_proxy_cfg(proxy_kw)
    lonly = lsn_adjustments(listener_kw)
    got = adj_result or lsn_adjustments(kw)
    fails = []
    exp_refused = want[0] == "refused" or lonly[0] == "refused"
    if got[0] == "refused":
        if not exp_refused:
            fails.append("Adjustments refuses the combination (%s) although the proxy settings and the listener options are each accepted alone" % got[1][:80])
        return fails
    if exp_refused:
        fails.append("Adjustments accepts the combination although %s" % ("the proxy settings alone are refused (%s)" % want[1] if want[0] == "refused" else "the listener options alone are refused"))
        return fails
    adj, c = got[1], want[1]
    if adj.trusted_proxy != c.tp:
        fails.append("adj.trusted_proxy is %r, configured %r" % (adj.trusted_proxy, c.tp))
    if adj.trusted_proxy_count != c.count:
        fails.append("adj.trusted_proxy_count is %r, configured %r" % (adj.trusted_proxy_count, c.count))
    if set(adj.trusted_proxy_headers or ()) != set(c.tph):
        fails.append("adj.trusted_proxy_headers is %r, configured %r" % (sorted(adj.trusted_proxy_headers or ()), sorted(c.tph)))
    if adj.clear_untrusted_proxy_headers is not c.clear:
        fails.append("adj.clear_untrusted_proxy_headers is %r, configured %r" % (adj.clear_untrusted_proxy_headers, c.clear))
    return fails


class _FakeConn:
    def setsockopt(self, *a):
        pass

    def close(self):
        pass


class ListenerDeployment:
    """create_server(app, **kw) as a deployment calls it (fake listening sockets); .servers are the
    Tcp/Unix server objects it registered; .cfg is the GIVEN proxy configuration."""

    def __init__(self, proxy_kw, listener_kw, shim):
        import logging
        from waitress.server import BaseWSGIServer, create_server

        lg = logging.getLogger("waitress")
        if not any(isinstance(h, logging.NullHandler) for h in lg.handlers):
            lg.addHandler(logging.NullHandler())
        lg.propagate = False
        self.proxy_kw, self.listener_kw = proxy_kw, listener_kw
        st = given_proxy_cfg(proxy_kw)
        self.cfg = st[1] if st[0] == "ok" else None
        self.seen = {}

        def app(environ, start_response):
            self.seen["env"] = dict(environ)
            return [b""]

        self.app = app
        kw = dict(proxy_kw)
        kw.update(listener_kw)
        self.map = {}
        with warnings.catch_warnings():
            warnings.simplefilter("ignore")
            self.top = create_server(app, map=self.map, _start=False,
                                     _sock=(_SOCK_KINDS[shim]() if shim else None), _dispatcher=_DummyDisp(), **lsn_real_kw(kw))
        self.servers = [v for v in self.map.values() if isinstance(v, BaseWSGIServer)]
        if isinstance(self.top, BaseWSGIServer) and self.top not in self.servers:
            self.servers.append(self.top)
        for s in self.servers:
            s.logger = NullLogger()
        self.server = None

    def select(self, server):
        self.server = server
        return self

    ctx_words = E2EServer.ctx_words

    def reported_peer(self, server, raw):
        """the address the channel of a connection accepted from `raw` is given: the real handle_accept
        (accept -> set_socket_options -> fix_addr -> channel_class(server, conn, addr, adj, map))"""
        got = []
        server.accept = lambda: (_FakeConn(), raw)
        server.channel_class = lambda srv, conn, addr, adj, map=None: got.append(addr)
        try:
            server.handle_accept()
        finally:
            del server.accept
            del server.channel_class
        return got[0] if got else None

    def close(self):
        for s in self.servers:
            try:
                s.close()
            except Exception:
                pass


def lsn_hostile_requests(rng, n):
    """requests carrying every proxy header an operator may have marked as trusted"""
    out = []
    H = b"GET /where HTTP/1.1\r\nHost: real.example:8080\r\n"
    fixed = [
        [(b"X-Forwarded-For", b" 203.0.113.66"), (b"X-Forwarded-Host", b" evil.example:4443"), (b"X-Forwarded-Proto", b" https"),
         (b"X-Forwarded-Port", b" 4443"), (b"X-Forwarded-By", b" 203.0.113.1")],
        [(b"Forwarded", b' for="203.0.113.66:99";host=evil.example;proto=https;by=203.0.113.1')],
        [(b"x-forwarded-proto", b"https")],
    ]
    for hl in fixed:
        lines = [(b"Host", b" real.example:8080")] + hl
        raw = H + b"".join(n_ + b":" + v + b"\r\n" for n_, v in hl) + b"\r\n"
        out.append(({"with": [raw], "without": [H + b"\r\n"], "without_all": [H + b"\r\n"]}, lines, b""))
    for _ in range(n):
        c = gen_e2e_case(rng)
        out.append(({"with": [c["with"]], "without": [c["without"]], "without_all": [c["without_all"]]}, c["lines"], c["pad"]))
    return out


def lsn_raw_json(raw):
    if isinstance(raw, bytes):
        return {"bytes_hex": raw.hex()}
    if isinstance(raw, tuple):
        return list(raw)
    return raw


def lsn_raw_from_json(j):
    if isinstance(j, dict):
        return bytes.fromhex(j["bytes_hex"])
    if isinstance(j, list):
        return tuple(j)
    return j


def lsn_expected_reported(server, raw):
    """what a channel must be told about its peer: the accepted address for TCP listeners,
    ("localhost", None) for a UNIX-domain listener (the peer has no address)"""
    if server.family == socket.AF_UNIX:
        return ("localhost", None)
    return raw
