"""C01 search: the extracted RFC 9112 reference (coq/Spec/Ref9112.v,
ocaml/ref9112/runner) against the REAL channel.

Implementation side: one HTTPChannel (real parser, real receivers, real
tasks) fed the whole stream with received(); then service() is run, single
threaded, once per queued request with a recording WSGI application, exactly
as a worker thread would, until the channel decides to close.  What is
observed: for every request, in order, either the message handed to the
application (method, target, version, header dict, body bytes) and whether the
connection is closed after it, or the status of the server-generated error
response; then whether an unfinished message is pending."""
import hashlib
import itertools

from harness import parser_h as H
from lib.vcommon import hexb

DEV_NAMES = ["trailer"]
# deviation flag -> known-finding class
KF_OF_DEV = {
    "trailer": "kf_c01_trailer_unvalidated",
}
NDEV = len(DEV_NAMES)
STRICT = "0" * NDEV


def mask_of(names):
    return "".join("1" if n in names else "0" for n in DEV_NAMES)


def all_masks():
    """singletons first, then pairs, ... (smallest explanation wins)"""
    out = []
    for k in range(1, NDEV + 1):
        for comb in itertools.combinations(DEV_NAMES, k):
            out.append(comb)
    return out


# ---------------------------------------------------------------------------
# the real code


class _App:
    def __init__(self):
        self.calls = []

    def __call__(self, environ, start_response):
        body = environ["wsgi.input"].read()
        self.calls.append((environ["REQUEST_METHOD"], environ.get("REQUEST_URI"), environ.get("CONTENT_LENGTH"), body))
        start_response("200 OK", [("Content-Length", "2"), ("Content-Type", "text/plain")])
        return [b"ok"]


def impl_run(mh, mb, stream, max_requests=64):
    """-> (outcomes, info).  outcomes: list of strings in the format of the
    reference driver."""
    ch, sock, srv = H.make_channel(mh, mb)
    app = _App()
    srv.application = app
    srv.effective_port = 8080
    srv.server_name = "localhost"
    info = {"app_mismatch": None, "statuses": []}
    try:
        ch.received(stream)
    except Exception as e:  # an exception leaving received(): the channel is torn down without a response
        return ["X " + type(e).__name__], info
    out = []
    n = 0
    while ch.requests and not (ch.close_when_flushed or ch.will_close) and n < max_requests:
        n += 1
        r = ch.requests[0]
        if r.error is not None:
            before = len(sock.sent)
            ch.service()
            status = sock.sent[before:before + 12]
            info["statuses"].append(status)
            code = r.error.code
            if not status.startswith(b"HTTP/1.") or status[9:12] != str(code).encode():
                info["app_mismatch"] = "error response status line %r for error code %s" % (status, code)
            out.append("R %d" % code)
            if not ch.close_when_flushed:
                info["app_mismatch"] = "connection not closed after error response %s" % code
            continue
        body = b""
        if r.body_rcv is not None:
            body = H.buf_bytes(r.body_rcv.buf)
        rec = ["D", H.sx(r.command), H.sx(r.request_uri), H.sx(r.version), H.hdrs(r.headers), hexb(body)]
        ncalls = len(app.calls)
        ch.service()
        if len(app.calls) != ncalls + 1:
            info["app_mismatch"] = "application called %d times for one request" % (len(app.calls) - ncalls)
        else:
            c = app.calls[-1]
            if c[3] != body or c[0] != r.command or c[1] != r.request_uri:
                info["app_mismatch"] = "application saw %r, parser had %r" % (c, (r.command, r.request_uri, body))
        rec.append("1" if (ch.close_when_flushed or ch.will_close) else "0")
        out.append(" ".join(rec))
    closed = ch.close_when_flushed or ch.will_close
    if not closed:
        p = ch.request
        if p is not None and not p.completed and (p.header_plus or p.headers_finished):
            out.append("I")
    return out, info


def ref_cmd(mh, mb, mask, stream, tolws="1", tollim="1"):
    return "ref %d %d %s %s %s %s" % (mh, mb, tolws, tollim, mask, hexb(stream))


def parse_ref(ans):
    return [] if ans == "-" else ans.split(" ; ")


# ---------------------------------------------------------------------------
# cases


def build_cases(rng, n_streams, small_atoms):
    from harness import gen_http

    cases = []
    for i in range(n_streams):
        kind = "mutation" if i % 2 else "grammar"
        s, tags = gen_http.gen_stream(rng, kind)
        for (mh, mb) in gen_http.limits_for(rng, s):
            cases.append((mh, mb, s, tags))
    for s in gen_http.small_streams(small_atoms):
        cases.append((262144, 1073741824, s, {"stream": "small"}))
    for s in extra_streams():
        cases.append((262144, 1073741824, s, {"stream": "directed"}))
        cases.append((len(s), 7, s, {"stream": "directed"}))
    return cases


def extra_streams():
    """directed near-misses for each clause of the statement (beyond gen_http)"""
    H11 = b"POST /a HTTP/1.1\r\nHost: h\r\n"
    NEXT = b"GET /next HTTP/1.1\r\nHost: h\r\n\r\n"
    out = []
    for te in [b"chunked", b"Chunked", b"chunked, ", b", chunked", b",chunked", b"chunked ,", b"chunked,\t,", b" ,chunked",
               b"gzip", b"gzip, chunked", b"chunked, gzip", b"chunked, chunked", b"identity", b"chunked;q=1", b"\x0bchunked",
               b"chunkedx", b"xchunked", b"chunke", b"", b"\x85chunked", b"chunked\x85", b"\xa0chunked", b"chunked\xa0",
               b"chunked\x85, chunked", b"CHUNKED", b"chun\xebed", b"chunked ; x"]:
        for extra in [b"", b"Content-Length: 3\r\n"]:
            out.append(H11 + b"Transfer-Encoding: " + te + b"\r\n" + extra + b"\r\n3\r\nabc\r\n0\r\n\r\n" + NEXT)
    for cl in [b"3", b"03", b"+3", b"3 ", b" 3", b"3,3", b"3, 3", b"0x3", b"3a", b"", b"-3", b"3\x0b", b"1_0", b"\xb3", b"\xa03", b"3\x85", b"\xb2\xb3", b"3" * 4301]:
        out.append(H11 + b"Content-Length: " + cl + b"\r\n\r\nabc" + NEXT)
        out.append(H11 + b"Content-Length: " + cl + b"\r\nContent-Length: 3\r\n\r\nabc" + NEXT)
    for body in [b"3\r\nabc\r\n0\r\n\r\n", b"3\nabc\r\n0\r\n\r\n", b"3\r\nabc\n0\r\n\r\n", b"3\r\nabcX\r\n0\r\n\r\n", b"3\r\nabc\r\n0\n\r\n",
                 b"3;a=b\r\nabc\r\n0\r\n\r\n", b"3;a=b\n\r\nabc\r\n0\r\n\r\n", b"3 \r\nabc\r\n0\r\n\r\n", b"0x3\r\nabc\r\n0\r\n\r\n",
                 b"\r\n3\r\nabc\r\n0\r\n\r\n", b"3\r\nabc\r\n\r\n0\r\n\r\n", b"3\r\nabc\r\n0\r\nX: y\r\n\r\n", b"3\r\nabc\r\n0\r\nX y\r\n\r\n",
                 b"3\r\nabc\r\n0\r\nX: y\nz\r\n\r\n", b"3\r\nabc\r\n0\r\n x: y\r\n\r\n", b"3\r\nabc\r\n00\r\n\r\n", b"3\r\nabc\r\n0;x\r\n\r\n",
                 b"3\r\nabc\r\n0\r\nX: y\r\n", b"3\r\nab", b"3\r\nabc\r", b"3\r\nabcX", b"3\r\nabcXY" + b"z" * 20 + b"\r\n\r\n", b"g\r\n" + b"z" * 20]:
        out.append(H11 + b"Transfer-Encoding: chunked\r\n\r\n" + body + NEXT)
    for conn in [b"close", b"Close", b"close, x", b"x, close", b"keep-alive", b"x", b"closed"]:
        out.append(b"GET /a HTTP/1.1\r\nConnection: " + conn + b"\r\n\r\n" + NEXT)
        out.append(b"GET /a HTTP/1.0\r\nConnection: " + conn + b"\r\n\r\n" + NEXT)
    for v in [b"HTTP/1.0", b"HTTP/2.0", b"HTTP/0.9"]:
        for ka in [b"", b"Connection: keep-alive\r\n"]:
            out.append(b"POST /a " + v + b"\r\n" + ka + b"Transfer-Encoding: chunked\r\n\r\n3\r\nabc\r\n0\r\n\r\n" + NEXT)
            out.append(b"POST /a " + v + b"\r\n" + ka + b"Transfer-Encoding: chunked\r\nContent-Length: 3\r\n\r\nabc" + NEXT)
    for rl in [b"GET /a HTTP/1.1 ", b"GET /a HTTP/1.1\t", b"GET /a HTTP/1.1\x0b", b"GET /a HTTP/1.1\r", b"GET /a HTTP/1.1\n",
               b" GET /a HTTP/1.1", b"\nGET /a HTTP/1.1", b"\x0cGET /a HTTP/1.1", b" \r\nGET /a HTTP/1.1", b"GET  /a HTTP/1.1",
               b"GET /a  HTTP/1.1", b"GET /a", b"GET /a HTTP/1.12", b"GET /a\rb HTTP/1.1", b"GET /a\nb HTTP/1.1", b"GET //a\xe9 HTTP/1.1"]:
        out.append(rl + b"\r\nHost: h\r\n\r\n" + NEXT)
    for hl in [b"Host : h", b"Ho st: h", b"Host: h\rx", b"Host: h\nx", b": h", b"Host", b"H\x00st: h", b"Host: h\x00", b"Host: h\x7f",
               b"X-A: 1\r\n b", b" X-A: 1", b"X_A: 1", b"Host: a\r\nHost: a", b"Content-Type: a\r\ncontent-type: b", b"X-A: 1\r\nX-A: 2"]:
        out.append(b"GET /a HTTP/1.1\r\n" + hl + b"\r\n\r\n" + NEXT)
    return out


# ---------------------------------------------------------------------------
# comparison


def classify(runner, mh, mb, s, impl, strict):
    """strict != impl.  -> (kf_classes or None, explanation)"""
    combos = all_masks()
    answers = runner.query([ref_cmd(mh, mb, mask_of(c), s) for c in combos])
    for c, a in zip(combos, answers):
        if parse_ref(a) == impl:
            # every flag of a minimal explaining set is necessary, hence a finding of its own
            return [KF_OF_DEV[n] for n in c], "explained by deviation(s) " + "+".join(c)
    return None, "unexplained"


def run_search(runner, cases):
    """-> (stats, disagreements); disagreement = dict with kf (list or None)"""
    answers = runner.query([ref_cmd(mh, mb, STRICT, s) for (mh, mb, s, tags) in cases])
    stats = {"evaluations": 0, "streams": {}, "outcomes": {"D": 0, "R400": 0, "R501": 0, "R431": 0, "R413": 0, "I": 0},
             "messages_per_stream": {}, "agree": 0, "known": {}, "mutations": {}, "framings": {}}
    nontrivial = set()
    bad = []
    for (mh, mb, s, tags), a in zip(cases, answers):
        stats["evaluations"] += 1
        st = tags.get("stream", "?")
        stats["streams"][st] = stats["streams"].get(st, 0) + 1
        for m in tags.get("mutations", []):
            stats["mutations"][m] = stats["mutations"].get(m, 0) + 1
        for f in tags.get("framings", []):
            stats["framings"][f] = stats["framings"].get(f, 0) + 1
        strict = parse_ref(a)
        impl, info = impl_run(mh, mb, s)
        for o in impl:
            k = o.split()[0]
            k = k if k in ("D", "I") else "R" + o.split()[1] if k == "R" else k
            stats["outcomes"][k] = stats["outcomes"].get(k, 0) + 1
        nd = sum(1 for o in impl if o.startswith("D"))
        stats["messages_per_stream"][nd] = stats["messages_per_stream"].get(nd, 0) + 1
        if nd:
            nontrivial.add(hashlib.sha1((" ; ".join(impl)).encode()).hexdigest())
        if info["app_mismatch"]:
            bad.append({"mh": mh, "mb": mb, "stream": s, "expected": strict, "observed": impl, "kf": None,
                        "why": info["app_mismatch"], "tags": tags})
            continue
        if impl == strict:
            stats["agree"] += 1
            continue
        kf, why = classify(runner, mh, mb, s, impl, strict)
        for k in (kf or ["unexplained"]):
            stats["known"][k] = stats["known"].get(k, 0) + 1
        bad.append({"mh": mh, "mb": mb, "stream": s, "expected": strict, "observed": impl, "kf": kf, "why": why,
                    "tags": tags})
    stats["distinct_nontrivial"] = len(nontrivial)
    return stats, bad


def shrink(runner, d, budget=150):
    """delta-debug an unexplained disagreement"""
    mh, mb, s = d["mh"], d["mb"], d["stream"]

    def differs(t):
        if not t:
            return False
        strict = parse_ref(runner.query([ref_cmd(mh, mb, STRICT, t)])[0])
        impl, info = impl_run(mh, mb, t)
        if impl == strict and not info["app_mismatch"]:
            return False
        if info["app_mismatch"]:
            return True
        kf, _ = classify(runner, mh, mb, t, impl, strict)
        return kf is None

    step = max(1, len(s) // 2)
    while step >= 1 and budget > 0:
        j = 0
        while j < len(s) and budget > 0:
            cand = s[:j] + s[j + step:]
            budget -= 1
            if differs(cand):
                s = cand
            else:
                j += step
        step //= 2
    strict = parse_ref(runner.query([ref_cmd(mh, mb, STRICT, s)])[0])
    impl, info = impl_run(mh, mb, s)
    return {"mh": mh, "mb": mb, "stream": s, "expected": strict, "observed": impl, "why": info["app_mismatch"] or "unexplained"}
