"""C02 search: the REAL HTTPChannel.received driven with one byte stream under
many segmentations; the observable outcome (the sequence of events "100
Continue sent" / "request queued with these attributes and body") must not
depend on the segmentation.

Observation of one run = list of events in the order the channel produced
them:
  ("continue", late)    send_continue() ran; late = the request it was applied
                        to was already completed (harmless since fix e3537e2:
                        the request stays completed and is queued)
  ("request", attrs)    a parser was appended to channel.requests; attrs = all
                        attributes a task reads (command, target, version, split
                        target, headers, flags, error tag, body bytes when there
                        is no error) -- NOT the carry fields (header_plus,
                        control_line, chunk_end, trailer, byte counters)
The observation is cut after the first request that carries an error (the
worker answers it and closes; whatever the I/O side parsed behind it is
discarded, C11)."""
import hashlib

from harness import parser_h as H
from lib.vcommon import hexb

CHUNK_BODY_TAGS = ("413:BodyTooLarge", "400:ChunkNotTerminated", "400:InvalidChunkExt", "400:InvalidChunkSize")
OBS_KEYS = ("empty", "expect", "hf", "chunked", "cl", "version", "err", "cc", "headers", "fl", "cmd", "uri",
            "scheme", "netloc", "path", "query", "frag", "us")


def obs_request(p):
    d = {}
    for tok in H.parser_str(p).split(" "):
        k, _, v = tok.partition("=")
        if k in OBS_KEYS:
            d[k] = v
    br = p.body_rcv
    if p.error is None:
        d["body"] = hexb(H.buf_bytes(br.buf)) if br is not None else "-"
    else:
        d["body"] = "*"
    d["in_chunked_body"] = bool(p.error is not None and p.chunked and p.headers_finished
                                and d["err"] in CHUNK_BODY_TAGS and br is not None)
    return d


class _LogList(list):
    def __init__(self, log):
        super().__init__()
        self._log = log

    def append(self, p):
        self._log.append(("request", obs_request(p)))
        super().append(p)


def observe(mh, mb, reads):
    """-> (events, exception_text|None).  events are NOT cut."""
    from waitress.channel import HTTPChannel

    ch, sock, srv = H.make_channel(mh, mb)
    log = []
    ch.requests = _LogList(log)
    orig = ch.send_continue

    def send_continue(*a, **k):
        log.append(("continue", bool(ch.request.completed)))
        orig(*a, **k)
    ch.send_continue = send_continue
    exc = None
    for d in reads:
        try:
            ch.received(d)
        except Exception as e:  # an exception leaving received(): C06's business, but an outcome here too
            exc = "%s: %s" % (type(e).__name__, e)
            log.append(("escapes", type(e).__name__))
            break
    # the bytes the I/O side put on the wire are exactly the continue lines
    nsent = sock.sent.count(b"HTTP/1.1 100 Continue\r\n\r\n")
    ncont = sum(1 for e in log if e[0] == "continue")
    if nsent != ncont or len(sock.sent) != 25 * nsent:
        log.append(("wire-mismatch", sock.sent.hex()))
    return log, exc


def cut(events):
    out = []
    for e in events:
        out.append(e)
        if e[0] == "request" and e[1]["err"] != "none":
            break
        if e[0] == "escapes":
            break
    return out


def first_reset(events):
    for i, e in enumerate(events):
        if e[0] == "continue" and e[1]:
            return i
    return None


def classify(ea, eb):
    """ea, eb: cut observations of the same stream that differ.  -> known
    finding class or None."""
    i = 0
    while i < len(ea) and i < len(eb) and ea[i] == eb[i]:
        i += 1
    # everything up to i agrees
    if i < len(ea) and i < len(eb) and ea[i][0] == "request" and eb[i][0] == "request":
        a, b = dict(ea[i][1]), dict(eb[i][1])
        if a["in_chunked_body"] and b["in_chunked_body"] and a["err"] != b["err"] \
                and "413:BodyTooLarge" in (a["err"], b["err"]):
            a.pop("err"); b.pop("err")
            if a == b:
                return "kf_c02_1"
    return None


def all_cutsets(n, limit=None):
    """all 2^(n-1) segmentations of range(n) as lists of cut positions"""
    for mask in range(1 << (n - 1)):
        yield [i + 1 for i in range(n - 1) if mask >> i & 1]


def pieces(s, cuts):
    out = []
    prev = 0
    for c in list(cuts) + [len(s)]:
        if c > prev:
            out.append(s[prev:c])
            prev = c
    return out


def segmentations_for(rng, s, tier, exhaustive_upto=12):
    """whole is implicit.  byte-wise, cuts inside every CRLF, random cut sets;
    short streams: all cut sets; longer: all single cuts (+ all double cuts
    when thorough and the stream is short enough)."""
    n = len(s)
    out = []
    if n < 2:
        return out
    if n <= exhaustive_upto:
        for cuts in all_cutsets(n):
            if cuts:
                out.append(pieces(s, cuts))
        return out
    out.append([s[i:i + 1] for i in range(n)])
    idx = [i + 1 for i in range(n - 1) if s[i:i + 2] == b"\r\n"]
    if idx:
        out.append(pieces(s, idx))
    # every single cut
    for c in range(1, n):
        out.append(pieces(s, [c]))
    k = 3 if tier == "quick" else 8
    for _ in range(k):
        cuts = sorted(set(rng.randrange(1, n) for _ in range(rng.randint(2, 8))))
        out.append(pieces(s, cuts))
    if tier == "thorough" and n <= 90:
        for a in range(1, n):
            for b in range(a + 1, n):
                out.append(pieces(s, [a, b]))
    elif n <= 40:
        for a in range(1, n):
            for b in range(a + 1, min(n, a + 4)):
                out.append(pieces(s, [a, b]))
    return out


def search_stream(mh, mb, s, segs):
    """-> (n_evaluations, whole_cut_observation, list of (reads, other_obs, class))"""
    whole, _ = observe(mh, mb, [s])
    wc = cut(whole)
    diffs = []
    n = 1
    for reads in segs:
        other, _ = observe(mh, mb, reads)
        n += 1
        oc = cut(other)
        if oc != wc:
            diffs.append((reads, oc, classify(wc, oc)))
    return n, wc, diffs


def obs_digest(obs):
    return hashlib.sha1(repr(obs).encode()).hexdigest()


def shrink(mh, mb, s, reads):
    """make the differing (stream, segmentation) smaller: first reduce the
    segmentation to a single cut if one suffices, then drop bytes."""
    def differs(s2, reads2):
        if len(s2) < 2:
            return False
        a, _ = observe(mh, mb, [s2])
        b, _ = observe(mh, mb, reads2)
        ca, cb = cut(a), cut(b)
        return ca != cb and classify(ca, cb) is None

    cuts = []
    pos = 0
    for r in reads[:-1]:
        pos += len(r)
        cuts.append(pos)
    for c in cuts:
        if differs(s, pieces(s, [c])):
            cuts = [c]
            break
    budget = 300
    i = 0
    while i < len(s) and budget > 0:
        s2 = s[:i] + s[i + 1:]
        cuts2 = [c if c <= i else c - 1 for c in cuts]
        cuts2 = sorted(set(c for c in cuts2 if 0 < c < len(s2)))
        budget -= 1
        if cuts2 and differs(s2, pieces(s2, cuts2)):
            s, cuts = s2, cuts2
        else:
            i += 1
    return s, pieces(s, cuts)
