"""K-parse / K-recv / K-chanseq: the real HTTPRequestParser, receivers and
HTTPChannel.received against the extracted models (ocaml/parser/runner)."""
import sys

from lib.vcommon import hexb

ERR_TAGS = [
    ("Chunk not properly terminated", "400:ChunkNotTerminated"),
    ("Invalid chunk extension", "400:InvalidChunkExt"),
    ("Invalid chunk size", "400:InvalidChunkSize"),
    ("exceeds max_header of", "431:HeaderTooLarge"),
    ("exceeds max_body of", "413:BodyTooLarge"),
    ("HTTP message header invalid", "400:HeaderInvalid"),
    ("Bare CR or LF found in HTTP message", "400:BareCRLFFirstLine"),
    ("Bare CR or LF found in header line", "400:BareCRLFHeader"),
    ("Malformed header line", "400:MalformedHeaderLine"),
    ("Invalid header", "400:InvalidHeader"),
    ("Duplicate header:", "400:DuplicateHeader"),
    ("Start line is invalid", "400:StartLineInvalid"),
    ("Malformed HTTP method", "400:MalformedMethod"),
    ("Content-Length is invalid", "400:ContentLengthInvalid"),
    ("Bad URI", "400:BadURI"),
    ("Transfer-Encoding requested is not supported.", "501:TENotSupported"),
    ("Transfer-Encoding is invalid. Multiple chunked", "501:TEMultipleChunked"),
]


def err_tag(e):
    if e is None:
        return "none"
    body = str(e.body)
    for prefix, tag in ERR_TAGS:
        if body.startswith(prefix):
            code = tag.split(":")[0]
            if str(e.code) != code:
                return "%s:%s(code-mismatch)" % (e.code, tag)
            return tag
    return "%s:?%s" % (e.code, body[:30])


def b2s(b):
    return "1" if b else "0"


def sx(s):
    """str attribute (latin-1 text) -> hex"""
    if isinstance(s, bytes):
        return hexb(s)
    return hexb(s.encode("latin-1", "replace"))


def buf_bytes(buf):
    n = buf.__len__()
    data = buf.get(n + 10, False) if n else b""
    return data[:n] if n else b""


def body_str(p):
    from waitress.receiver import ChunkedReceiver, FixedStreamReceiver

    br = p.body_rcv
    if br is None:
        return "none"
    if isinstance(br, FixedStreamReceiver):
        return "F:%d:%s" % (br.remain, hexb(buf_bytes(br.buf)))
    return "C:%d:%s:%s:%s:%s:%s:%s:%s:%s" % (
        br.chunk_remainder, b2s(br.validate_chunk_end), hexb(br.control_line), hexb(br.chunk_end),
        b2s(br.all_chunks_received), hexb(br.trailer), b2s(br.completed), err_tag(br.error),
        hexb(buf_bytes(br.buf)))


def hdrs(h):
    items = sorted("%s:%s" % (sx(k), sx(v)) for k, v in h.items())
    return ",".join(items) if items else "-"


def parser_str(p):
    g = lambda name, d="": getattr(p, name, d)
    return " ".join([
        "completed=" + b2s(p.completed), "empty=" + b2s(p.empty), "expect=" + b2s(p.expect_continue),
        "hf=" + b2s(p.headers_finished), "hp=" + hexb(p.header_plus), "chunked=" + b2s(p.chunked),
        "cl=%d" % p.content_length, "hbr=%d" % p.header_bytes_received, "bbr=%d" % p.body_bytes_received,
        "version=" + sx(p.version), "err=" + err_tag(p.error), "cc=" + b2s(p.connection_close),
        "headers=" + hdrs(p.headers), "fl=" + sx(g("first_line", b"")), "cmd=" + sx(g("command")),
        "uri=" + sx(g("request_uri")), "scheme=" + sx(g("proxy_scheme")), "netloc=" + sx(g("proxy_netloc")),
        "path=" + sx(g("path")), "query=" + sx(g("query")), "frag=" + sx(g("fragment")),
        "us=" + sx(g("url_scheme")), "body=" + body_str(p),
    ])


class Adj:
    """the attributes of Adjustments the parser reads"""
    def __init__(self, mh, mb):
        self.max_request_header_size = mh
        self.max_request_body_size = mb
        self.inbuf_overflow = 524288
        self.url_scheme = "http"


def impl_parse(mh, mb, chunks):
    """Offer every chunk to a fresh HTTPRequestParser the way a caller would:
    re-offer the unconsumed rest until the parser is completed or has taken
    everything.  One result string per received() call."""
    from waitress.parser import HTTPRequestParser

    p = HTTPRequestParser(Adj(mh, mb))
    out = []
    for data in chunks:
        while True:
            try:
                n = p.received(data)
            except Exception as e:
                out.append("escapes")
                return out
            out.append("ok n=%d %s" % (n, parser_str(p)))
            if p.completed or n >= len(data) or n <= 0:
                break
            data = data[n:]
        if p.completed:
            break
    return out


def model_parse_cmd(mh, mb, chunks):
    return "parseloop %d %d %s" % (mh, mb, " ".join(hexb(c) for c in chunks))


# ---------------------------------------------------------------------------
# channel (sequential, I/O-thread side only)


class _Sock:
    def __init__(self):
        self.sent = b""
    def setblocking(self, x): pass
    def fileno(self): return 42
    def getpeername(self): return ("127.0.0.1", 1234)
    def getsockopt(self, level, option): return 1 << 20
    def send(self, data):
        self.sent += data
        return len(data)
    def recv(self, n): return b""
    def close(self): pass


class _Server:
    def __init__(self, adj):
        self.adj = adj
        self.active_channels = {}
        self.tasks = 0
        self.trigger_pulled = 0
    def add_task(self, ch):
        self.tasks += 1
    def pull_trigger(self):
        self.trigger_pulled += 1


def make_channel(mh, mb, **kw):
    from waitress.adjustments import Adjustments
    from waitress.channel import HTTPChannel

    adj = Adjustments(max_request_header_size=mh, max_request_body_size=mb, **kw)
    sock = _Sock()
    srv = _Server(adj)
    ch = HTTPChannel(srv, sock, ("127.0.0.1", 1234), adj, map={})
    return ch, sock, srv


def chan_str(ch, sock, srv):
    return " ".join([
        "nreq=%d" % len(ch.requests), "tasks=%d" % srv.tasks, "sent_continue=" + b2s(ch.sent_continue),
        "out=" + hexb(sock.sent),
        "cur=" + ("none" if ch.request is None else "[" + parser_str(ch.request) + "]"),
        "reqs=" + "".join("[" + parser_str(r) + "]" for r in ch.requests),
    ])


def impl_chan(mh, mb, reads):
    ch, sock, srv = make_channel(mh, mb)
    out = []
    for d in reads:
        try:
            ch.received(d)
        except Exception:
            out.append("escapes")
            return out
        out.append("ok " + chan_str(ch, sock, srv))
    return out


def model_chan_cmd(mh, mb, reads):
    return "chan %d %d %s" % (mh, mb, " ".join(hexb(c) for c in reads))


# ---------------------------------------------------------------------------
# receivers alone


def impl_chunked(chunks):
    from waitress.receiver import ChunkedReceiver
    from waitress.buffers import OverflowableBuffer
    r = ChunkedReceiver(OverflowableBuffer(1 << 20))
    out = []
    class P: pass
    for c in chunks:
        try:
            n = r.received(c)
        except Exception:
            out.append("escapes")
            return out
        p = P(); p.body_rcv = r
        out.append("n=%d %s" % (n, body_str(p)))
    return out


def impl_fixed(cl, chunks):
    from waitress.receiver import FixedStreamReceiver
    from waitress.buffers import OverflowableBuffer
    r = FixedStreamReceiver(cl, OverflowableBuffer(1 << 20))
    out = []
    class P: pass
    for c in chunks:
        n = r.received(c)
        p = P(); p.body_rcv = r
        out.append("n=%d done=%s %s" % (n, b2s(r.completed), body_str(p)))
    return out
