"""The correspondence suites K-chanseq / K-parse / K-recv shared by the checks
of the request side (C01 C02 C06 C07 C10 C19)."""
import hashlib

from harness import gen_http
from harness import parser_h as H
from lib.vcommon import hexb


def build_cases(rng, n_streams, small_atoms=2):
    """-> list of (kind, mh, mb, reads, tags)"""
    cases = []
    for i in range(n_streams):
        stream = "mutation" if i % 2 else "grammar"
        s, tags = gen_http.gen_stream(rng, stream)
        for (mh, mb) in gen_http.limits_for(rng, s):
            for reads in gen_http.segmentations(rng, s, k=2):
                cases.append(("chan", mh, mb, reads, tags))
    for s in gen_http.small_streams(small_atoms):
        cases.append(("chan", 262144, 1073741824, [s], {"stream": "small"}))
        if len(s) > 1:
            cases.append(("chan", 262144, 1073741824, [s[i:i + 1] for i in range(len(s))], {"stream": "small"}))
    return cases


def run_cases(runner, cases):
    """-> (stats, disagreements)  disagreement = dict"""
    cmds = []
    for kind, mh, mb, reads, tags in cases:
        cmds.append(H.model_chan_cmd(mh, mb, reads))
    answers = runner.query(cmds)
    stats = {"evaluations": 0, "unmodelled": 0, "escapes_both": 0, "streams": {}, "framings": {}, "mutations": {},
             "errors": {}, "requests_completed": 0, "reads": 0}
    nontrivial = set()
    bad = []
    for (kind, mh, mb, reads, tags), ans in zip(cases, answers):
        stats["evaluations"] += 1
        stats["reads"] += len(reads)
        st = tags.get("stream", "?")
        stats["streams"][st] = stats["streams"].get(st, 0) + 1
        for f in tags.get("framings", []):
            stats["framings"][f] = stats["framings"].get(f, 0) + 1
        for m in tags.get("mutations", []):
            stats["mutations"][m] = stats["mutations"].get(m, 0) + 1
        model = ans.split(" ; ")
        if model and model[-1] == "unmodelled":
            stats["unmodelled"] += 1
            continue
        impl = H.impl_chan(mh, mb, reads)
        last = impl[-1] if impl else ""
        # distribution of what the parsers concluded
        for tok in last.split():
            if tok.startswith("err=") or tok.startswith("cur=[") or tok.startswith("reqs=["):
                pass
        nreq = 0
        for part in last.split("err=")[1:]:
            e = part.split()[0]
            stats["errors"][e] = stats["errors"].get(e, 0) + 1
            nreq += 1
        stats["requests_completed"] += nreq
        if "err=none" in last:
            nontrivial.add(hashlib.sha1(last.encode()).hexdigest())
        if model != impl:
            bad.append({"mh": mh, "mb": mb, "reads": [hexb(r) for r in reads], "model": model, "impl": impl,
                        "tags": tags})
    stats["distinct_nontrivial"] = len(nontrivial)
    return stats, bad


def first_difference(model, impl):
    for i, (a, b) in enumerate(zip(model, impl)):
        if a != b:
            ta, tb = a.split(), b.split()
            diffs = [(x, y) for x, y in zip(ta, tb) if x != y][:4]
            return {"read_index": i, "token_diffs": diffs}
    return {"read_index": min(len(model), len(impl)), "token_diffs": [("len", "%d vs %d" % (len(model), len(impl)))]}


def shrink(runner, d):
    """delta-debug the disagreeing case down (whole-stream segmentation is
    tried first, then pieces of the stream are removed)."""
    reads = [bytes.fromhex(r) if r != "-" else b"" for r in d["reads"]]
    mh, mb = d["mh"], d["mb"]

    def differs(rs):
        if not rs or not any(rs):
            return False
        m = runner.query([H.model_chan_cmd(mh, mb, rs)])[0].split(" ; ")
        if m and m[-1] == "unmodelled":
            return False
        return m != H.impl_chan(mh, mb, rs)

    whole = [b"".join(reads)]
    if differs(whole):
        reads = whole
    changed = True
    budget = 200
    while changed and budget > 0:
        changed = False
        for i in range(len(reads)):
            r = reads[i]
            n = len(r)
            step = max(1, n // 2)
            while step >= 1 and budget > 0:
                j = 0
                while j < len(reads[i]) and budget > 0:
                    cand = reads[:i] + [reads[i][:j] + reads[i][j + step:]] + reads[i + 1:]
                    cand = [c for c in cand if c]
                    budget -= 1
                    if len(cand) == len(reads) and differs(cand):
                        reads = cand
                        changed = True
                    else:
                        j += step
                step //= 2
            if changed:
                break
    m = runner.query([H.model_chan_cmd(mh, mb, reads)])[0].split(" ; ")
    i = H.impl_chan(mh, mb, reads)
    return {"mh": mh, "mb": mb, "reads": [hexb(r) for r in reads], "model": m, "impl": i,
            "difference": first_difference(m, i)}
