"""K-prim: the Python primitives of coq/Lib/PyBytes.v against CPython."""
import itertools

from lib.vcommon import hexb


def cps(s):
    return ",".join(str(ord(c)) for c in s) if s else "-"


def cases(rng, tier):
    out = []  # (command line, expected answer)
    alpha = b"a,\r\n ;"
    n = 4 if tier == "quick" else 5
    strs = [bytes(t) for k in range(0, n + 1) for t in itertools.product(alpha, repeat=k)]
    pats = [b",", b"\r\n", b";", b"a,", b"\r\n\r\n", b", "]
    def lst(l):
        return " ".join(hexb(x) for x in l)
    for s in strs:
        for p in pats[: 3 if len(s) > 3 else 6]:
            out.append(("find %s %s" % (hexb(s), hexb(p)), str(s.find(p))))
            out.append(("rfind %s %s" % (hexb(s), hexb(p)), str(s.rfind(p))))
            out.append(("split %s %s" % (hexb(s), hexb(p)), lst(s.split(p))))
            out.append(("split1 %s %s" % (hexb(s), hexb(p)), lst(s.split(p, 1))))
            out.append(("rsplit1 %s %s" % (hexb(s), hexb(p)), lst(s.rsplit(p, 1))))
            out.append(("partition %s %s" % (hexb(s), hexb(p)), lst(s.partition(p))))
            out.append(("starts %s %s" % (hexb(s), hexb(p)), "1" if s.startswith(p) else "0"))
            out.append(("ends %s %s" % (hexb(s), hexb(p)), "1" if s.endswith(p) else "0"))
    ws_alpha = b" \t\n\r\x0b\x0c\x1c\x1f\x85\xa0a\x00"
    for k in range(0, 4):
        for t in itertools.product(ws_alpha, repeat=k):
            s = bytes(t)
            out.append(("bstrip " + hexb(s), hexb(s.strip())))
            out.append(("blstrip " + hexb(s), hexb(s.lstrip())))
            out.append(("brstrip " + hexb(s), hexb(s.rstrip())))
            out.append(("shstrip " + hexb(s), hexb(s.strip(b" \t"))))
            u = s.decode("latin-1")
            out.append(("sstrip " + cps(u), cps(u.strip())))
            out.append(("splitws " + cps(u), " ".join(cps(x) for x in u.split()) ))
    # every single code point up to 0x3100 for the whitespace class
    for c in list(range(0, 0x3100)):
        u = "a" + chr(c)
        out.append(("sstrip " + cps(u), cps(u.strip())))
    allb = bytes(range(256))
    out.append(("upper " + hexb(allb), hexb(allb.upper())))
    out.append(("lower " + hexb(allb), hexb(allb.lower())))
    out.append(("lower1 " + hexb(allb), hexb(allb.decode("latin-1").lower().encode("latin-1"))))
    nums = [0, 1, 9, 10, 15, 16, 17, 255, 256, 4095, 65535, 65536, 10**9, 2**64 - 1, 2**64, 10**40 + 7]
    nums += [rng.randrange(0, 10**rng.randint(1, 60)) for _ in range(200)]
    for v in nums:
        out.append(("todec %d" % v, hexb(str(v).encode())))
        out.append(("tohex %d" % v, hexb(hex(v)[2:].upper().encode())))
        d = str(v).encode()
        out.append(("dec " + hexb(d), str(int(d))))
        out.append(("dec " + hexb(b"00" + d), str(int(b"00" + d))))
        h = hex(v)[2:].encode()
        out.append(("hex " + hexb(h), str(int(h, 16))))
        out.append(("hex " + hexb(h.upper()), str(int(h.upper(), 16))))
    return out


def run(ctx, runner):
    cs = cases(ctx.rng, ctx.tier)
    got = runner.query([c for c, _ in cs])
    bad = [(c, e, g) for (c, e), g in zip(cs, got) if e != g]
    for c, e, g in bad[:5]:
        ctx.notes.append("K-prim mismatch: %s expected %s got %s" % (c, e, g))
    return len(cs), not bad
